"""Equivalence check for refactoring 3 (ceos_alos2.sar_image.enums).

Run as a script (``python equiv.py``) or through pytest.  Every expectation
below was recorded from the unchanged code at HEAD.
"""

import inspect
import struct

from construct import Int8ub, Int16ub, Int24ub, Int32ub, Int64ub, Struct

from ceos_alos2.sar_image import enums
from ceos_alos2.sar_image.processed_data import processed_data_record
from ceos_alos2.sar_image.signal_data import signal_data_record
from ceos_alos2.utils import to_dict

ENUMS = [
    "sar_channel_id",
    "sar_channel_code",
    "pulse_polarization",
    "chirp_type_designator",
    "platform_position_parameters_update",
]


def outcome(func, *args, **kwargs):
    """Normalised description of a call: value with its type, or the exception."""
    try:
        value = func(*args, **kwargs)
    except Exception as exc:  # noqa: BLE001
        cause = type(exc.__cause__).__name__
        context = type(exc.__context__).__name__
        return ("raise", type(exc).__name__, str(exc), cause, context)
    return ("value", type(value).__name__, repr(value))


class Unhashable:
    __hash__ = None

    def __repr__(self):
        return "Unhashable()"


class Loud:
    """Hashes and compares like 2, and says so."""

    def __init__(self, log):
        self.log = log

    def __hash__(self):
        self.log.append("hash")
        return hash(2)

    def __eq__(self, other):
        self.log.append(f"eq {other!r}")
        return other == 2

    def __repr__(self):
        self.log.append("repr")
        return "Loud()"

    def __format__(self, spec):
        self.log.append(f"format {spec!r}")
        return "Loud!"


class Custom(enums.Flag):
    bases = {3: Int24ub, 5: None, "word": Int16ub, 0: Int8ub}


class Extended(enums.Flag):
    bases = {**enums.Flag.bases, 3: Int24ub}


SIZES = [
    1,
    2,
    4,
    8,
    0,
    3,
    5,
    16,
    -1,
    2**64,
    1.0,
    8.0,
    1.5,
    float("nan"),
    True,
    False,
    None,
    "1",
    "word",
    b"\x01",
    (1,),
    1 + 0j,
    [1],
    {1: 2},
    Unhashable(),
]
BASE_NAMES = {id(Int8ub): "Int8ub", id(Int16ub): "Int16ub", id(Int24ub): "Int24ub",
              id(Int32ub): "Int32ub", id(Int64ub): "Int64ub"}

EXPECTED = {'flag-init-Flag': [('value',
                     'str',
                     '"[\'Flag\', \'Int8ub\', [\'flagbuildnone\', \'name\', \'parsed\', '
                     '\'subcon\'], None, False]"'),
                    ('value',
                     'str',
                     '"[\'Flag\', \'Int16ub\', [\'flagbuildnone\', \'name\', \'parsed\', '
                     '\'subcon\'], None, False]"'),
                    ('value',
                     'str',
                     '"[\'Flag\', \'Int32ub\', [\'flagbuildnone\', \'name\', \'parsed\', '
                     '\'subcon\'], None, False]"'),
                    ('value',
                     'str',
                     '"[\'Flag\', \'Int64ub\', [\'flagbuildnone\', \'name\', \'parsed\', '
                     '\'subcon\'], None, False]"'),
                    ('raise', 'ValueError', 'unsupported size: 0', 'NoneType', 'NoneType'),
                    ('raise', 'ValueError', 'unsupported size: 3', 'NoneType', 'NoneType'),
                    ('raise', 'ValueError', 'unsupported size: 5', 'NoneType', 'NoneType'),
                    ('raise', 'ValueError', 'unsupported size: 16', 'NoneType', 'NoneType'),
                    ('raise', 'ValueError', 'unsupported size: -1', 'NoneType', 'NoneType'),
                    ('raise',
                     'ValueError',
                     'unsupported size: 18446744073709551616',
                     'NoneType',
                     'NoneType'),
                    ('value',
                     'str',
                     '"[\'Flag\', \'Int8ub\', [\'flagbuildnone\', \'name\', \'parsed\', '
                     '\'subcon\'], None, False]"'),
                    ('value',
                     'str',
                     '"[\'Flag\', \'Int64ub\', [\'flagbuildnone\', \'name\', \'parsed\', '
                     '\'subcon\'], None, False]"'),
                    ('raise', 'ValueError', 'unsupported size: 1.5', 'NoneType', 'NoneType'),
                    ('raise', 'ValueError', 'unsupported size: nan', 'NoneType', 'NoneType'),
                    ('value',
                     'str',
                     '"[\'Flag\', \'Int8ub\', [\'flagbuildnone\', \'name\', \'parsed\', '
                     '\'subcon\'], None, False]"'),
                    ('raise', 'ValueError', 'unsupported size: False', 'NoneType', 'NoneType'),
                    ('raise', 'ValueError', 'unsupported size: None', 'NoneType', 'NoneType'),
                    ('raise', 'ValueError', 'unsupported size: 1', 'NoneType', 'NoneType'),
                    ('raise', 'ValueError', 'unsupported size: word', 'NoneType', 'NoneType'),
                    ('raise', 'ValueError', "unsupported size: b'\\x01'", 'NoneType', 'NoneType'),
                    ('raise', 'ValueError', 'unsupported size: (1,)', 'NoneType', 'NoneType'),
                    ('value',
                     'str',
                     '"[\'Flag\', \'Int8ub\', [\'flagbuildnone\', \'name\', \'parsed\', '
                     '\'subcon\'], None, False]"'),
                    ('raise', 'TypeError', "unhashable type: 'list'", 'NoneType', 'NoneType'),
                    ('raise', 'TypeError', "unhashable type: 'dict'", 'NoneType', 'NoneType'),
                    ('raise',
                     'TypeError',
                     "unhashable type: 'Unhashable'",
                     'NoneType',
                     'NoneType')],
 'flag-init-Custom': [('raise', 'ValueError', 'unsupported size: 1', 'NoneType', 'NoneType'),
                      ('raise', 'ValueError', 'unsupported size: 2', 'NoneType', 'NoneType'),
                      ('raise', 'ValueError', 'unsupported size: 4', 'NoneType', 'NoneType'),
                      ('raise', 'ValueError', 'unsupported size: 8', 'NoneType', 'NoneType'),
                      ('value',
                       'str',
                       '"[\'Custom\', \'Int8ub\', [\'flagbuildnone\', \'name\', \'parsed\', '
                       '\'subcon\'], None, False]"'),
                      ('value',
                       'str',
                       '"[\'Custom\', \'Int24ub\', [\'flagbuildnone\', \'name\', \'parsed\', '
                       '\'subcon\'], None, False]"'),
                      ('raise', 'ValueError', 'unsupported size: 5', 'NoneType', 'NoneType'),
                      ('raise', 'ValueError', 'unsupported size: 16', 'NoneType', 'NoneType'),
                      ('raise', 'ValueError', 'unsupported size: -1', 'NoneType', 'NoneType'),
                      ('raise',
                       'ValueError',
                       'unsupported size: 18446744073709551616',
                       'NoneType',
                       'NoneType'),
                      ('raise', 'ValueError', 'unsupported size: 1.0', 'NoneType', 'NoneType'),
                      ('raise', 'ValueError', 'unsupported size: 8.0', 'NoneType', 'NoneType'),
                      ('raise', 'ValueError', 'unsupported size: 1.5', 'NoneType', 'NoneType'),
                      ('raise', 'ValueError', 'unsupported size: nan', 'NoneType', 'NoneType'),
                      ('raise', 'ValueError', 'unsupported size: True', 'NoneType', 'NoneType'),
                      ('value',
                       'str',
                       '"[\'Custom\', \'Int8ub\', [\'flagbuildnone\', \'name\', \'parsed\', '
                       '\'subcon\'], None, False]"'),
                      ('raise', 'ValueError', 'unsupported size: None', 'NoneType', 'NoneType'),
                      ('raise', 'ValueError', 'unsupported size: 1', 'NoneType', 'NoneType'),
                      ('value',
                       'str',
                       '"[\'Custom\', \'Int16ub\', [\'flagbuildnone\', \'name\', \'parsed\', '
                       '\'subcon\'], None, False]"'),
                      ('raise', 'ValueError', "unsupported size: b'\\x01'", 'NoneType', 'NoneType'),
                      ('raise', 'ValueError', 'unsupported size: (1,)', 'NoneType', 'NoneType'),
                      ('raise', 'ValueError', 'unsupported size: (1+0j)', 'NoneType', 'NoneType'),
                      ('raise', 'TypeError', "unhashable type: 'list'", 'NoneType', 'NoneType'),
                      ('raise', 'TypeError', "unhashable type: 'dict'", 'NoneType', 'NoneType'),
                      ('raise',
                       'TypeError',
                       "unhashable type: 'Unhashable'",
                       'NoneType',
                       'NoneType')],
 'flag-init-Extended': [('value',
                         'str',
                         '"[\'Extended\', \'Int8ub\', [\'flagbuildnone\', \'name\', \'parsed\', '
                         '\'subcon\'], None, False]"'),
                        ('value',
                         'str',
                         '"[\'Extended\', \'Int16ub\', [\'flagbuildnone\', \'name\', \'parsed\', '
                         '\'subcon\'], None, False]"'),
                        ('value',
                         'str',
                         '"[\'Extended\', \'Int32ub\', [\'flagbuildnone\', \'name\', \'parsed\', '
                         '\'subcon\'], None, False]"'),
                        ('value',
                         'str',
                         '"[\'Extended\', \'Int64ub\', [\'flagbuildnone\', \'name\', \'parsed\', '
                         '\'subcon\'], None, False]"'),
                        ('raise', 'ValueError', 'unsupported size: 0', 'NoneType', 'NoneType'),
                        ('value',
                         'str',
                         '"[\'Extended\', \'Int24ub\', [\'flagbuildnone\', \'name\', \'parsed\', '
                         '\'subcon\'], None, False]"'),
                        ('raise', 'ValueError', 'unsupported size: 5', 'NoneType', 'NoneType'),
                        ('raise', 'ValueError', 'unsupported size: 16', 'NoneType', 'NoneType'),
                        ('raise', 'ValueError', 'unsupported size: -1', 'NoneType', 'NoneType'),
                        ('raise',
                         'ValueError',
                         'unsupported size: 18446744073709551616',
                         'NoneType',
                         'NoneType'),
                        ('value',
                         'str',
                         '"[\'Extended\', \'Int8ub\', [\'flagbuildnone\', \'name\', \'parsed\', '
                         '\'subcon\'], None, False]"'),
                        ('value',
                         'str',
                         '"[\'Extended\', \'Int64ub\', [\'flagbuildnone\', \'name\', \'parsed\', '
                         '\'subcon\'], None, False]"'),
                        ('raise', 'ValueError', 'unsupported size: 1.5', 'NoneType', 'NoneType'),
                        ('raise', 'ValueError', 'unsupported size: nan', 'NoneType', 'NoneType'),
                        ('value',
                         'str',
                         '"[\'Extended\', \'Int8ub\', [\'flagbuildnone\', \'name\', \'parsed\', '
                         '\'subcon\'], None, False]"'),
                        ('raise', 'ValueError', 'unsupported size: False', 'NoneType', 'NoneType'),
                        ('raise', 'ValueError', 'unsupported size: None', 'NoneType', 'NoneType'),
                        ('raise', 'ValueError', 'unsupported size: 1', 'NoneType', 'NoneType'),
                        ('raise', 'ValueError', 'unsupported size: word', 'NoneType', 'NoneType'),
                        ('raise',
                         'ValueError',
                         "unsupported size: b'\\x01'",
                         'NoneType',
                         'NoneType'),
                        ('raise', 'ValueError', 'unsupported size: (1,)', 'NoneType', 'NoneType'),
                        ('value',
                         'str',
                         '"[\'Extended\', \'Int8ub\', [\'flagbuildnone\', \'name\', \'parsed\', '
                         '\'subcon\'], None, False]"'),
                        ('raise', 'TypeError', "unhashable type: 'list'", 'NoneType', 'NoneType'),
                        ('raise', 'TypeError', "unhashable type: 'dict'", 'NoneType', 'NoneType'),
                        ('raise',
                         'TypeError',
                         "unhashable type: 'Unhashable'",
                         'NoneType',
                         'NoneType')],
 'flag-init-loud': [('value',
                     'str',
                     '"[\'Flag\', \'Int16ub\', [\'flagbuildnone\', \'name\', \'parsed\', '
                     '\'subcon\'], None, False]"'),
                    ['hash', 'eq 2']],
 'flag-init-loud-missing': [('raise',
                             'ValueError',
                             'unsupported size: Loud!',
                             'NoneType',
                             'NoneType'),
                            ['hash', "format ''"]],
 'flag-init-arguments': [('raise',
                          'TypeError',
                          "Flag.__init__() missing 1 required positional argument: 'size'",
                          'NoneType',
                          'NoneType'),
                         ('raise',
                          'TypeError',
                          'Flag.__init__() takes 2 positional arguments but 3 were given',
                          'NoneType',
                          'NoneType'),
                         ('value', 'bool', 'True'),
                         ('raise',
                          'TypeError',
                          "Flag.__init__() got an unexpected keyword argument 'n_bytes'",
                          'NoneType',
                          'NoneType')],
 'flag-instance-table': ('value',
                         'str',
                         '"[\'Flag\', \'Int8ub\', [\'flagbuildnone\', \'name\', \'parsed\', '
                         '\'subcon\'], None, False]"'),
 'flag-table': "[(1, 'Int8ub'), (2, 'Int16ub'), (4, 'Int32ub'), (8, 'Int64ub')]",
 'flag-members': ['__doc__', '__init__', '__module__', '_decode', '_encode', 'bases'],
 'flag-bases': ['Flag', 'Adapter', 'Subconstruct', 'Construct', 'object'],
 'flag-doc': None,
 'flag-signatures': [['self', 'size'],
                     ['self', 'obj', 'context', 'path'],
                     ['self', 'obj', 'context', 'path']],
 'flag-parse': {1: [('value', 'bool', 'False'),
                    ('value', 'bool', 'True'),
                    ('value', 'bool', 'True'),
                    ('value', 'bool', 'True'),
                    ('raise',
                     'StreamError',
                     'Error in path (parsing)\n'
                     'stream read less than specified amount, expected 1, found 0',
                     'NoneType',
                     'NoneType'),
                    ('value', 'bool', 'False')],
                2: [('value', 'bool', 'False'),
                    ('value', 'bool', 'True'),
                    ('value', 'bool', 'True'),
                    ('value', 'bool', 'True'),
                    ('raise',
                     'StreamError',
                     'Error in path (parsing)\n'
                     'stream read less than specified amount, expected 2, found 1',
                     'NoneType',
                     'NoneType')],
                4: [('value', 'bool', 'False'),
                    ('value', 'bool', 'True'),
                    ('value', 'bool', 'True'),
                    ('raise',
                     'StreamError',
                     'Error in path (parsing)\n'
                     'stream read less than specified amount, expected 4, found 3',
                     'NoneType',
                     'NoneType')],
                8: [('value', 'bool', 'False'),
                    ('value', 'bool', 'True'),
                    ('value', 'bool', 'True'),
                    ('raise',
                     'StreamError',
                     'Error in path (parsing)\n'
                     'stream read less than specified amount, expected 8, found 7',
                     'NoneType',
                     'NoneType')]},
 'flag-build': {1: [('value', 'bytes', "b'\\x00'"),
                    ('value', 'bytes', "b'\\x01'"),
                    ('value', 'bytes', "b'\\x00'"),
                    ('value', 'bytes', "b'\\x01'"),
                    ('value', 'bytes', "b'\\x02'"),
                    ('value', 'bytes', "b'\\xff'"),
                    ('raise',
                     'FormatFieldError',
                     "Error in path (building)\nstruct '>B' error during building, given value 256",
                     'NoneType',
                     'error'),
                    ('raise',
                     'FormatFieldError',
                     "Error in path (building)\nstruct '>B' error during building, given value -1",
                     'NoneType',
                     'error'),
                    ('value', 'bytes', "b'\\x01'"),
                    ('value', 'bytes', "b'\\x00'"),
                    ('value', 'bytes', "b'\\x01'"),
                    ('value', 'bytes', "b'\\x01'"),
                    ('value', 'bytes', "b'\\x00'"),
                    ('raise',
                     'ValueError',
                     "invalid literal for int() with base 10: ''",
                     'NoneType',
                     'NoneType'),
                    ('raise',
                     'ValueError',
                     "invalid literal for int() with base 10: 'yes'",
                     'NoneType',
                     'NoneType'),
                    ('raise',
                     'TypeError',
                     'int() argument must be a string, a bytes-like object or a real number, not '
                     "'NoneType'",
                     'NoneType',
                     'NoneType'),
                    ('value', 'bytes', "b'\\x01'"),
                    ('raise',
                     'TypeError',
                     'int() argument must be a string, a bytes-like object or a real number, not '
                     "'list'",
                     'NoneType',
                     'NoneType'),
                    ('raise',
                     'TypeError',
                     'int() argument must be a string, a bytes-like object or a real number, not '
                     "'list'",
                     'NoneType',
                     'NoneType'),
                    ('raise',
                     'FormatFieldError',
                     'Error in path (building)\n'
                     "struct '>B' error during building, given value 18446744073709551616",
                     'NoneType',
                     'error'),
                    ('raise',
                     'ValueError',
                     'cannot convert float NaN to integer',
                     'NoneType',
                     'NoneType'),
                    ('raise',
                     'OverflowError',
                     'cannot convert float infinity to integer',
                     'NoneType',
                     'NoneType')],
                2: [('value', 'bytes', "b'\\x00\\x00'"),
                    ('value', 'bytes', "b'\\x00\\x01'"),
                    ('value', 'bytes', "b'\\x00\\x00'"),
                    ('value', 'bytes', "b'\\x00\\x01'"),
                    ('value', 'bytes', "b'\\x00\\x02'"),
                    ('value', 'bytes', "b'\\x00\\xff'"),
                    ('value', 'bytes', "b'\\x01\\x00'"),
                    ('raise',
                     'FormatFieldError',
                     "Error in path (building)\nstruct '>H' error during building, given value -1",
                     'NoneType',
                     'error'),
                    ('value', 'bytes', "b'\\x00\\x01'"),
                    ('value', 'bytes', "b'\\x00\\x00'"),
                    ('value', 'bytes', "b'\\x00\\x01'"),
                    ('value', 'bytes', "b'\\x00\\x01'"),
                    ('value', 'bytes', "b'\\x00\\x00'"),
                    ('raise',
                     'ValueError',
                     "invalid literal for int() with base 10: ''",
                     'NoneType',
                     'NoneType'),
                    ('raise',
                     'ValueError',
                     "invalid literal for int() with base 10: 'yes'",
                     'NoneType',
                     'NoneType'),
                    ('raise',
                     'TypeError',
                     'int() argument must be a string, a bytes-like object or a real number, not '
                     "'NoneType'",
                     'NoneType',
                     'NoneType'),
                    ('value', 'bytes', "b'\\x00\\x01'"),
                    ('raise',
                     'TypeError',
                     'int() argument must be a string, a bytes-like object or a real number, not '
                     "'list'",
                     'NoneType',
                     'NoneType'),
                    ('raise',
                     'TypeError',
                     'int() argument must be a string, a bytes-like object or a real number, not '
                     "'list'",
                     'NoneType',
                     'NoneType'),
                    ('raise',
                     'FormatFieldError',
                     'Error in path (building)\n'
                     "struct '>H' error during building, given value 18446744073709551616",
                     'NoneType',
                     'error'),
                    ('raise',
                     'ValueError',
                     'cannot convert float NaN to integer',
                     'NoneType',
                     'NoneType'),
                    ('raise',
                     'OverflowError',
                     'cannot convert float infinity to integer',
                     'NoneType',
                     'NoneType')],
                4: [('value', 'bytes', "b'\\x00\\x00\\x00\\x00'"),
                    ('value', 'bytes', "b'\\x00\\x00\\x00\\x01'"),
                    ('value', 'bytes', "b'\\x00\\x00\\x00\\x00'"),
                    ('value', 'bytes', "b'\\x00\\x00\\x00\\x01'"),
                    ('value', 'bytes', "b'\\x00\\x00\\x00\\x02'"),
                    ('value', 'bytes', "b'\\x00\\x00\\x00\\xff'"),
                    ('value', 'bytes', "b'\\x00\\x00\\x01\\x00'"),
                    ('raise',
                     'FormatFieldError',
                     "Error in path (building)\nstruct '>L' error during building, given value -1",
                     'NoneType',
                     'error'),
                    ('value', 'bytes', "b'\\x00\\x00\\x00\\x01'"),
                    ('value', 'bytes', "b'\\x00\\x00\\x00\\x00'"),
                    ('value', 'bytes', "b'\\x00\\x00\\x00\\x01'"),
                    ('value', 'bytes', "b'\\x00\\x00\\x00\\x01'"),
                    ('value', 'bytes', "b'\\x00\\x00\\x00\\x00'"),
                    ('raise',
                     'ValueError',
                     "invalid literal for int() with base 10: ''",
                     'NoneType',
                     'NoneType'),
                    ('raise',
                     'ValueError',
                     "invalid literal for int() with base 10: 'yes'",
                     'NoneType',
                     'NoneType'),
                    ('raise',
                     'TypeError',
                     'int() argument must be a string, a bytes-like object or a real number, not '
                     "'NoneType'",
                     'NoneType',
                     'NoneType'),
                    ('value', 'bytes', "b'\\x00\\x00\\x00\\x01'"),
                    ('raise',
                     'TypeError',
                     'int() argument must be a string, a bytes-like object or a real number, not '
                     "'list'",
                     'NoneType',
                     'NoneType'),
                    ('raise',
                     'TypeError',
                     'int() argument must be a string, a bytes-like object or a real number, not '
                     "'list'",
                     'NoneType',
                     'NoneType'),
                    ('raise',
                     'FormatFieldError',
                     'Error in path (building)\n'
                     "struct '>L' error during building, given value 18446744073709551616",
                     'NoneType',
                     'error'),
                    ('raise',
                     'ValueError',
                     'cannot convert float NaN to integer',
                     'NoneType',
                     'NoneType'),
                    ('raise',
                     'OverflowError',
                     'cannot convert float infinity to integer',
                     'NoneType',
                     'NoneType')],
                8: [('value', 'bytes', "b'\\x00\\x00\\x00\\x00\\x00\\x00\\x00\\x00'"),
                    ('value', 'bytes', "b'\\x00\\x00\\x00\\x00\\x00\\x00\\x00\\x01'"),
                    ('value', 'bytes', "b'\\x00\\x00\\x00\\x00\\x00\\x00\\x00\\x00'"),
                    ('value', 'bytes', "b'\\x00\\x00\\x00\\x00\\x00\\x00\\x00\\x01'"),
                    ('value', 'bytes', "b'\\x00\\x00\\x00\\x00\\x00\\x00\\x00\\x02'"),
                    ('value', 'bytes', "b'\\x00\\x00\\x00\\x00\\x00\\x00\\x00\\xff'"),
                    ('value', 'bytes', "b'\\x00\\x00\\x00\\x00\\x00\\x00\\x01\\x00'"),
                    ('raise',
                     'FormatFieldError',
                     "Error in path (building)\nstruct '>Q' error during building, given value -1",
                     'NoneType',
                     'error'),
                    ('value', 'bytes', "b'\\x00\\x00\\x00\\x00\\x00\\x00\\x00\\x01'"),
                    ('value', 'bytes', "b'\\x00\\x00\\x00\\x00\\x00\\x00\\x00\\x00'"),
                    ('value', 'bytes', "b'\\x00\\x00\\x00\\x00\\x00\\x00\\x00\\x01'"),
                    ('value', 'bytes', "b'\\x00\\x00\\x00\\x00\\x00\\x00\\x00\\x01'"),
                    ('value', 'bytes', "b'\\x00\\x00\\x00\\x00\\x00\\x00\\x00\\x00'"),
                    ('raise',
                     'ValueError',
                     "invalid literal for int() with base 10: ''",
                     'NoneType',
                     'NoneType'),
                    ('raise',
                     'ValueError',
                     "invalid literal for int() with base 10: 'yes'",
                     'NoneType',
                     'NoneType'),
                    ('raise',
                     'TypeError',
                     'int() argument must be a string, a bytes-like object or a real number, not '
                     "'NoneType'",
                     'NoneType',
                     'NoneType'),
                    ('value', 'bytes', "b'\\x00\\x00\\x00\\x00\\x00\\x00\\x00\\x01'"),
                    ('raise',
                     'TypeError',
                     'int() argument must be a string, a bytes-like object or a real number, not '
                     "'list'",
                     'NoneType',
                     'NoneType'),
                    ('raise',
                     'TypeError',
                     'int() argument must be a string, a bytes-like object or a real number, not '
                     "'list'",
                     'NoneType',
                     'NoneType'),
                    ('raise',
                     'FormatFieldError',
                     'Error in path (building)\n'
                     "struct '>Q' error during building, given value 18446744073709551616",
                     'NoneType',
                     'error'),
                    ('raise',
                     'ValueError',
                     'cannot convert float NaN to integer',
                     'NoneType',
                     'NoneType'),
                    ('raise',
                     'OverflowError',
                     'cannot convert float infinity to integer',
                     'NoneType',
                     'NoneType')]},
 'flag-sizeof': [('value', 'int', '1'),
                 ('value', 'int', '2'),
                 ('value', 'int', '4'),
                 ('value', 'int', '8')],
 'flag-custom': [('value', 'bool', 'True'),
                 ('value', 'bytes', "b'\\x00\\x00\\x01'"),
                 ('value', 'bool', 'False'),
                 ('value', 'bool', 'False'),
                 ('value', 'bytes', "b'\\x00\\x00\\x00\\x00\\x00\\x00\\x00\\x01'")],
 'flag-decode-direct': [('value', 'bool', 'False'),
                        ('value', 'bool', 'True'),
                        ('value', 'bool', 'True'),
                        ('value', 'bool', 'False'),
                        ('value', 'bool', 'True'),
                        ('value', 'bool', 'False'),
                        ('value', 'bool', 'False'),
                        ('value', 'bool', 'True'),
                        ('value', 'bool', 'False'),
                        ('value', 'bool', 'True')],
 'flag-encode-direct': [('value', 'int', '0'),
                        ('value', 'int', '1'),
                        ('value', 'int', '7'),
                        ('value', 'int', '12'),
                        ('value', 'int', '3'),
                        ('value', 'int', '2'),
                        ('raise',
                         'TypeError',
                         'int() argument must be a string, a bytes-like object or a real number, '
                         "not 'NoneType'",
                         'NoneType',
                         'NoneType'),
                        ('raise',
                         'ValueError',
                         "invalid literal for int() with base 10: 'x'",
                         'NoneType',
                         'NoneType')],
 'flag-struct': [('value', 'str', '"[(\'a\', False), (\'b\', True), (\'c\', False)]"'),
                 ('value', 'str', '"[(\'a\', True), (\'b\', False), (\'c\', True)]"'),
                 ('raise',
                  'StreamError',
                  'Error in path (parsing) -> b\n'
                  'stream read less than specified amount, expected 2, found 1',
                  'NoneType',
                  'NoneType'),
                 ('value', 'bytes', "b'\\x01\\x00\\x00\\x00\\x00\\x00\\x01'"),
                 ('raise', 'KeyError', "'c'", 'NoneType', 'NoneType')],
 'enum-sar_channel_id': "['Enum', 'Int16ub', [('EnumIntegerString', 'single_polarization', 1, "
                        "'int', 1), ('EnumIntegerString', 'dual_polarization', 2, 'int', 2), "
                        "('EnumIntegerString', 'full_polarization', 4, 'int', 4)], [('int', 1, "
                        "'EnumIntegerString', 'single_polarization', 1), ('int', 2, "
                        "'EnumIntegerString', 'dual_polarization', 2), ('int', 4, "
                        "'EnumIntegerString', 'full_polarization', 4)], [('int', 1, 'str', "
                        "'single_polarization'), ('int', 2, 'str', 'dual_polarization'), ('int', "
                        "4, 'str', 'full_polarization')], ['decmapping', 'encmapping', "
                        "'flagbuildnone', 'ksymapping', 'name', 'parsed', 'subcon']]",
 'enum-parse-sar_channel_id': [('value',
                                'str',
                                '"[\'EnumInteger\', \'0\', 0, True, False, False]"'),
                               ('value',
                                'str',
                                '"[\'EnumIntegerString\', \'single_polarization\', 1, False, True, '
                                'True]"'),
                               ('value',
                                'str',
                                '"[\'EnumIntegerString\', \'dual_polarization\', 2, False, True, '
                                'True]"'),
                               ('value',
                                'str',
                                '"[\'EnumInteger\', \'3\', 3, True, False, False]"'),
                               ('value',
                                'str',
                                '"[\'EnumIntegerString\', \'full_polarization\', 4, False, True, '
                                'True]"'),
                               ('value',
                                'str',
                                '"[\'EnumInteger\', \'5\', 5, True, False, False]"'),
                               ('value',
                                'str',
                                '"[\'EnumInteger\', \'6\', 6, True, False, False]"'),
                               ('value',
                                'str',
                                '"[\'EnumInteger\', \'7\', 7, True, False, False]"'),
                               ('value',
                                'str',
                                '"[\'EnumInteger\', \'8\', 8, True, False, False]"'),
                               ('value',
                                'str',
                                '"[\'EnumInteger\', \'255\', 255, True, False, False]"'),
                               ('value',
                                'str',
                                '"[\'EnumInteger\', \'256\', 256, True, False, False]"'),
                               ('value',
                                'str',
                                '"[\'EnumInteger\', \'65535\', 65535, True, False, False]"')],
 'enum-parse-short-sar_channel_id': [('raise',
                                      'StreamError',
                                      'Error in path (parsing)\n'
                                      'stream read less than specified amount, expected 2, found 0',
                                      'NoneType',
                                      'NoneType'),
                                     ('raise',
                                      'StreamError',
                                      'Error in path (parsing)\n'
                                      'stream read less than specified amount, expected 2, found 1',
                                      'NoneType',
                                      'NoneType'),
                                     ('value', 'EnumInteger', '0')],
 'enum-build-sar_channel_id': [('value', 'bytes', "b'\\x00\\x01'"),
                               ('value', 'bytes', "b'\\x00\\x02'"),
                               ('value', 'bytes', "b'\\x00\\x04'"),
                               ('raise',
                                'MappingError',
                                "Error in path (building)\nbuilding failed, no mapping for 'L'",
                                'NoneType',
                                'KeyError'),
                               ('raise',
                                'MappingError',
                                "Error in path (building)\nbuilding failed, no mapping for 'S'",
                                'NoneType',
                                'KeyError'),
                               ('raise',
                                'MappingError',
                                "Error in path (building)\nbuilding failed, no mapping for 'C'",
                                'NoneType',
                                'KeyError'),
                               ('raise',
                                'MappingError',
                                "Error in path (building)\nbuilding failed, no mapping for 'X'",
                                'NoneType',
                                'KeyError'),
                               ('raise',
                                'MappingError',
                                "Error in path (building)\nbuilding failed, no mapping for 'KU'",
                                'NoneType',
                                'KeyError'),
                               ('raise',
                                'MappingError',
                                "Error in path (building)\nbuilding failed, no mapping for 'KA'",
                                'NoneType',
                                'KeyError'),
                               ('raise',
                                'MappingError',
                                'Error in path (building)\n'
                                "building failed, no mapping for 'horizontal'",
                                'NoneType',
                                'KeyError'),
                               ('raise',
                                'MappingError',
                                'Error in path (building)\n'
                                "building failed, no mapping for 'vertical'",
                                'NoneType',
                                'KeyError'),
                               ('raise',
                                'MappingError',
                                'Error in path (building)\n'
                                "building failed, no mapping for 'linear_fm_chirp'",
                                'NoneType',
                                'KeyError'),
                               ('raise',
                                'MappingError',
                                'Error in path (building)\n'
                                "building failed, no mapping for 'phase_modulators'",
                                'NoneType',
                                'KeyError'),
                               ('raise',
                                'MappingError',
                                'Error in path (building)\n'
                                "building failed, no mapping for 'repeat'",
                                'NoneType',
                                'KeyError'),
                               ('raise',
                                'MappingError',
                                'Error in path (building)\n'
                                "building failed, no mapping for 'update'",
                                'NoneType',
                                'KeyError'),
                               ('raise',
                                'MappingError',
                                "Error in path (building)\nbuilding failed, no mapping for 'l'",
                                'NoneType',
                                'KeyError'),
                               ('raise',
                                'MappingError',
                                "Error in path (building)\nbuilding failed, no mapping for ''",
                                'NoneType',
                                'KeyError'),
                               ('raise',
                                'MappingError',
                                "Error in path (building)\nbuilding failed, no mapping for '0'",
                                'NoneType',
                                'KeyError'),
                               ('raise',
                                'MappingError',
                                'Error in path (building)\n'
                                "building failed, no mapping for '_SarChannelId'",
                                'NoneType',
                                'KeyError'),
                               ('raise',
                                'MappingError',
                                "Error in path (building)\nbuilding failed, no mapping for 'name'",
                                'NoneType',
                                'KeyError'),
                               ('raise',
                                'MappingError',
                                "Error in path (building)\nbuilding failed, no mapping for 'value'",
                                'NoneType',
                                'KeyError'),
                               ('value', 'bytes', "b'\\x00\\x00'"),
                               ('value', 'bytes', "b'\\x00\\x01'"),
                               ('value', 'bytes', "b'\\x00\\x02'"),
                               ('value', 'bytes', "b'\\x00\\x03'"),
                               ('value', 'bytes', "b'\\x00\\x04'"),
                               ('value', 'bytes', "b'\\x00\\x05'"),
                               ('value', 'bytes', "b'\\x00\\x06'"),
                               ('value', 'bytes', "b'\\xff\\xff'"),
                               ('raise',
                                'FormatFieldError',
                                'Error in path (building)\n'
                                "struct '>H' error during building, given value 65536",
                                'NoneType',
                                'error'),
                               ('raise',
                                'FormatFieldError',
                                'Error in path (building)\n'
                                "struct '>H' error during building, given value -1",
                                'NoneType',
                                'error'),
                               ('raise',
                                'MappingError',
                                'Error in path (building)\nbuilding failed, no mapping for 1.0',
                                'NoneType',
                                'KeyError'),
                               ('raise',
                                'MappingError',
                                'Error in path (building)\nbuilding failed, no mapping for None',
                                'NoneType',
                                'KeyError'),
                               ('value', 'bytes', "b'\\x00\\x01'"),
                               ('raise',
                                'MappingError',
                                "Error in path (building)\nbuilding failed, no mapping for b'L'",
                                'NoneType',
                                'KeyError')],
 'enum-getattr-sar_channel_id': [('value',
                                  'str',
                                  '"[EnumIntegerString.new(1, \'single_polarization\'), 1]"'),
                                 ('value',
                                  'str',
                                  '"[EnumIntegerString.new(2, \'dual_polarization\'), 2]"'),
                                 ('value',
                                  'str',
                                  '"[EnumIntegerString.new(4, \'full_polarization\'), 4]"'),
                                 ('raise', 'AttributeError', '', 'NoneType', 'NoneType'),
                                 ('raise', 'AttributeError', '', 'NoneType', 'NoneType'),
                                 ('raise', 'AttributeError', '', 'NoneType', 'NoneType'),
                                 ('raise', 'AttributeError', '', 'NoneType', 'NoneType'),
                                 ('raise', 'AttributeError', '', 'NoneType', 'NoneType'),
                                 ('raise', 'AttributeError', '', 'NoneType', 'NoneType'),
                                 ('raise', 'AttributeError', '', 'NoneType', 'NoneType'),
                                 ('raise', 'AttributeError', '', 'NoneType', 'NoneType'),
                                 ('raise', 'AttributeError', '', 'NoneType', 'NoneType'),
                                 ('raise', 'AttributeError', '', 'NoneType', 'NoneType'),
                                 ('raise', 'AttributeError', '', 'NoneType', 'NoneType'),
                                 ('raise', 'AttributeError', '', 'NoneType', 'NoneType'),
                                 ('raise', 'AttributeError', '', 'NoneType', 'NoneType'),
                                 ('raise', 'AttributeError', '', 'NoneType', 'NoneType'),
                                 ('raise', 'AttributeError', '', 'NoneType', 'NoneType'),
                                 ('raise', 'AttributeError', '', 'NoneType', 'NoneType'),
                                 ('raise',
                                  'TypeError',
                                  'int() argument must be a string, a bytes-like object or a real '
                                  "number, not 'NoneType'",
                                  'NoneType',
                                  'NoneType'),
                                 ('raise', 'AttributeError', '', 'NoneType', 'NoneType')],
 'enum-roundtrip-sar_channel_id': [('value', 'bytes', "b'\\x00\\x00'"),
                                   ('value', 'bytes', "b'\\x00\\x01'"),
                                   ('value', 'bytes', "b'\\x00\\x02'"),
                                   ('value', 'bytes', "b'\\x00\\x04'"),
                                   ('value', 'bytes', "b'\\x00\\t'")],
 'enum-sar_channel_code': "['Enum', 'Int16ub', [('EnumIntegerString', 'L', 0, 'int', 0), "
                          "('EnumIntegerString', 'S', 1, 'int', 1), ('EnumIntegerString', 'C', 2, "
                          "'int', 2), ('EnumIntegerString', 'X', 3, 'int', 3), "
                          "('EnumIntegerString', 'KU', 4, 'int', 4), ('EnumIntegerString', 'KA', "
                          "5, 'int', 5)], [('int', 0, 'EnumIntegerString', 'L', 0), ('int', 1, "
                          "'EnumIntegerString', 'S', 1), ('int', 2, 'EnumIntegerString', 'C', 2), "
                          "('int', 3, 'EnumIntegerString', 'X', 3), ('int', 4, "
                          "'EnumIntegerString', 'KU', 4), ('int', 5, 'EnumIntegerString', 'KA', "
                          "5)], [('int', 0, 'str', 'L'), ('int', 1, 'str', 'S'), ('int', 2, 'str', "
                          "'C'), ('int', 3, 'str', 'X'), ('int', 4, 'str', 'KU'), ('int', 5, "
                          "'str', 'KA')], ['decmapping', 'encmapping', 'flagbuildnone', "
                          "'ksymapping', 'name', 'parsed', 'subcon']]",
 'enum-parse-sar_channel_code': [('value',
                                  'str',
                                  '"[\'EnumIntegerString\', \'L\', 0, False, True, True]"'),
                                 ('value',
                                  'str',
                                  '"[\'EnumIntegerString\', \'S\', 1, False, True, True]"'),
                                 ('value',
                                  'str',
                                  '"[\'EnumIntegerString\', \'C\', 2, False, True, True]"'),
                                 ('value',
                                  'str',
                                  '"[\'EnumIntegerString\', \'X\', 3, False, True, True]"'),
                                 ('value',
                                  'str',
                                  '"[\'EnumIntegerString\', \'KU\', 4, False, True, True]"'),
                                 ('value',
                                  'str',
                                  '"[\'EnumIntegerString\', \'KA\', 5, False, True, True]"'),
                                 ('value',
                                  'str',
                                  '"[\'EnumInteger\', \'6\', 6, True, False, False]"'),
                                 ('value',
                                  'str',
                                  '"[\'EnumInteger\', \'7\', 7, True, False, False]"'),
                                 ('value',
                                  'str',
                                  '"[\'EnumInteger\', \'8\', 8, True, False, False]"'),
                                 ('value',
                                  'str',
                                  '"[\'EnumInteger\', \'255\', 255, True, False, False]"'),
                                 ('value',
                                  'str',
                                  '"[\'EnumInteger\', \'256\', 256, True, False, False]"'),
                                 ('value',
                                  'str',
                                  '"[\'EnumInteger\', \'65535\', 65535, True, False, False]"')],
 'enum-parse-short-sar_channel_code': [('raise',
                                        'StreamError',
                                        'Error in path (parsing)\n'
                                        'stream read less than specified amount, expected 2, found '
                                        '0',
                                        'NoneType',
                                        'NoneType'),
                                       ('raise',
                                        'StreamError',
                                        'Error in path (parsing)\n'
                                        'stream read less than specified amount, expected 2, found '
                                        '1',
                                        'NoneType',
                                        'NoneType'),
                                       ('value',
                                        'EnumIntegerString',
                                        "EnumIntegerString.new(0, 'L')")],
 'enum-build-sar_channel_code': [('raise',
                                  'MappingError',
                                  'Error in path (building)\n'
                                  "building failed, no mapping for 'single_polarization'",
                                  'NoneType',
                                  'KeyError'),
                                 ('raise',
                                  'MappingError',
                                  'Error in path (building)\n'
                                  "building failed, no mapping for 'dual_polarization'",
                                  'NoneType',
                                  'KeyError'),
                                 ('raise',
                                  'MappingError',
                                  'Error in path (building)\n'
                                  "building failed, no mapping for 'full_polarization'",
                                  'NoneType',
                                  'KeyError'),
                                 ('value', 'bytes', "b'\\x00\\x00'"),
                                 ('value', 'bytes', "b'\\x00\\x01'"),
                                 ('value', 'bytes', "b'\\x00\\x02'"),
                                 ('value', 'bytes', "b'\\x00\\x03'"),
                                 ('value', 'bytes', "b'\\x00\\x04'"),
                                 ('value', 'bytes', "b'\\x00\\x05'"),
                                 ('raise',
                                  'MappingError',
                                  'Error in path (building)\n'
                                  "building failed, no mapping for 'horizontal'",
                                  'NoneType',
                                  'KeyError'),
                                 ('raise',
                                  'MappingError',
                                  'Error in path (building)\n'
                                  "building failed, no mapping for 'vertical'",
                                  'NoneType',
                                  'KeyError'),
                                 ('raise',
                                  'MappingError',
                                  'Error in path (building)\n'
                                  "building failed, no mapping for 'linear_fm_chirp'",
                                  'NoneType',
                                  'KeyError'),
                                 ('raise',
                                  'MappingError',
                                  'Error in path (building)\n'
                                  "building failed, no mapping for 'phase_modulators'",
                                  'NoneType',
                                  'KeyError'),
                                 ('raise',
                                  'MappingError',
                                  'Error in path (building)\n'
                                  "building failed, no mapping for 'repeat'",
                                  'NoneType',
                                  'KeyError'),
                                 ('raise',
                                  'MappingError',
                                  'Error in path (building)\n'
                                  "building failed, no mapping for 'update'",
                                  'NoneType',
                                  'KeyError'),
                                 ('raise',
                                  'MappingError',
                                  "Error in path (building)\nbuilding failed, no mapping for 'l'",
                                  'NoneType',
                                  'KeyError'),
                                 ('raise',
                                  'MappingError',
                                  "Error in path (building)\nbuilding failed, no mapping for ''",
                                  'NoneType',
                                  'KeyError'),
                                 ('raise',
                                  'MappingError',
                                  "Error in path (building)\nbuilding failed, no mapping for '0'",
                                  'NoneType',
                                  'KeyError'),
                                 ('raise',
                                  'MappingError',
                                  'Error in path (building)\n'
                                  "building failed, no mapping for '_SarChannelId'",
                                  'NoneType',
                                  'KeyError'),
                                 ('raise',
                                  'MappingError',
                                  'Error in path (building)\n'
                                  "building failed, no mapping for 'name'",
                                  'NoneType',
                                  'KeyError'),
                                 ('raise',
                                  'MappingError',
                                  'Error in path (building)\n'
                                  "building failed, no mapping for 'value'",
                                  'NoneType',
                                  'KeyError'),
                                 ('value', 'bytes', "b'\\x00\\x00'"),
                                 ('value', 'bytes', "b'\\x00\\x01'"),
                                 ('value', 'bytes', "b'\\x00\\x02'"),
                                 ('value', 'bytes', "b'\\x00\\x03'"),
                                 ('value', 'bytes', "b'\\x00\\x04'"),
                                 ('value', 'bytes', "b'\\x00\\x05'"),
                                 ('value', 'bytes', "b'\\x00\\x06'"),
                                 ('value', 'bytes', "b'\\xff\\xff'"),
                                 ('raise',
                                  'FormatFieldError',
                                  'Error in path (building)\n'
                                  "struct '>H' error during building, given value 65536",
                                  'NoneType',
                                  'error'),
                                 ('raise',
                                  'FormatFieldError',
                                  'Error in path (building)\n'
                                  "struct '>H' error during building, given value -1",
                                  'NoneType',
                                  'error'),
                                 ('raise',
                                  'MappingError',
                                  'Error in path (building)\nbuilding failed, no mapping for 1.0',
                                  'NoneType',
                                  'KeyError'),
                                 ('raise',
                                  'MappingError',
                                  'Error in path (building)\nbuilding failed, no mapping for None',
                                  'NoneType',
                                  'KeyError'),
                                 ('value', 'bytes', "b'\\x00\\x01'"),
                                 ('raise',
                                  'MappingError',
                                  "Error in path (building)\nbuilding failed, no mapping for b'L'",
                                  'NoneType',
                                  'KeyError')],
 'enum-getattr-sar_channel_code': [('raise', 'AttributeError', '', 'NoneType', 'NoneType'),
                                   ('raise', 'AttributeError', '', 'NoneType', 'NoneType'),
                                   ('raise', 'AttributeError', '', 'NoneType', 'NoneType'),
                                   ('value', 'str', '"[EnumIntegerString.new(0, \'L\'), 0]"'),
                                   ('value', 'str', '"[EnumIntegerString.new(1, \'S\'), 1]"'),
                                   ('value', 'str', '"[EnumIntegerString.new(2, \'C\'), 2]"'),
                                   ('value', 'str', '"[EnumIntegerString.new(3, \'X\'), 3]"'),
                                   ('value', 'str', '"[EnumIntegerString.new(4, \'KU\'), 4]"'),
                                   ('value', 'str', '"[EnumIntegerString.new(5, \'KA\'), 5]"'),
                                   ('raise', 'AttributeError', '', 'NoneType', 'NoneType'),
                                   ('raise', 'AttributeError', '', 'NoneType', 'NoneType'),
                                   ('raise', 'AttributeError', '', 'NoneType', 'NoneType'),
                                   ('raise', 'AttributeError', '', 'NoneType', 'NoneType'),
                                   ('raise', 'AttributeError', '', 'NoneType', 'NoneType'),
                                   ('raise', 'AttributeError', '', 'NoneType', 'NoneType'),
                                   ('raise', 'AttributeError', '', 'NoneType', 'NoneType'),
                                   ('raise', 'AttributeError', '', 'NoneType', 'NoneType'),
                                   ('raise', 'AttributeError', '', 'NoneType', 'NoneType'),
                                   ('raise', 'AttributeError', '', 'NoneType', 'NoneType'),
                                   ('raise',
                                    'TypeError',
                                    'int() argument must be a string, a bytes-like object or a '
                                    "real number, not 'NoneType'",
                                    'NoneType',
                                    'NoneType'),
                                   ('raise', 'AttributeError', '', 'NoneType', 'NoneType')],
 'enum-roundtrip-sar_channel_code': [('value', 'bytes', "b'\\x00\\x00'"),
                                     ('value', 'bytes', "b'\\x00\\x01'"),
                                     ('value', 'bytes', "b'\\x00\\x02'"),
                                     ('value', 'bytes', "b'\\x00\\x04'"),
                                     ('value', 'bytes', "b'\\x00\\t'")],
 'enum-pulse_polarization': "['Enum', 'Int16ub', [('EnumIntegerString', 'horizontal', 0, 'int', "
                            "0), ('EnumIntegerString', 'vertical', 1, 'int', 1)], [('int', 0, "
                            "'EnumIntegerString', 'horizontal', 0), ('int', 1, "
                            "'EnumIntegerString', 'vertical', 1)], [('int', 0, 'str', "
                            "'horizontal'), ('int', 1, 'str', 'vertical')], ['decmapping', "
                            "'encmapping', 'flagbuildnone', 'ksymapping', 'name', 'parsed', "
                            "'subcon']]",
 'enum-parse-pulse_polarization': [('value',
                                    'str',
                                    '"[\'EnumIntegerString\', \'horizontal\', 0, False, True, '
                                    'True]"'),
                                   ('value',
                                    'str',
                                    '"[\'EnumIntegerString\', \'vertical\', 1, False, True, '
                                    'True]"'),
                                   ('value',
                                    'str',
                                    '"[\'EnumInteger\', \'2\', 2, True, False, False]"'),
                                   ('value',
                                    'str',
                                    '"[\'EnumInteger\', \'3\', 3, True, False, False]"'),
                                   ('value',
                                    'str',
                                    '"[\'EnumInteger\', \'4\', 4, True, False, False]"'),
                                   ('value',
                                    'str',
                                    '"[\'EnumInteger\', \'5\', 5, True, False, False]"'),
                                   ('value',
                                    'str',
                                    '"[\'EnumInteger\', \'6\', 6, True, False, False]"'),
                                   ('value',
                                    'str',
                                    '"[\'EnumInteger\', \'7\', 7, True, False, False]"'),
                                   ('value',
                                    'str',
                                    '"[\'EnumInteger\', \'8\', 8, True, False, False]"'),
                                   ('value',
                                    'str',
                                    '"[\'EnumInteger\', \'255\', 255, True, False, False]"'),
                                   ('value',
                                    'str',
                                    '"[\'EnumInteger\', \'256\', 256, True, False, False]"'),
                                   ('value',
                                    'str',
                                    '"[\'EnumInteger\', \'65535\', 65535, True, False, False]"')],
 'enum-parse-short-pulse_polarization': [('raise',
                                          'StreamError',
                                          'Error in path (parsing)\n'
                                          'stream read less than specified amount, expected 2, '
                                          'found 0',
                                          'NoneType',
                                          'NoneType'),
                                         ('raise',
                                          'StreamError',
                                          'Error in path (parsing)\n'
                                          'stream read less than specified amount, expected 2, '
                                          'found 1',
                                          'NoneType',
                                          'NoneType'),
                                         ('value',
                                          'EnumIntegerString',
                                          "EnumIntegerString.new(0, 'horizontal')")],
 'enum-build-pulse_polarization': [('raise',
                                    'MappingError',
                                    'Error in path (building)\n'
                                    "building failed, no mapping for 'single_polarization'",
                                    'NoneType',
                                    'KeyError'),
                                   ('raise',
                                    'MappingError',
                                    'Error in path (building)\n'
                                    "building failed, no mapping for 'dual_polarization'",
                                    'NoneType',
                                    'KeyError'),
                                   ('raise',
                                    'MappingError',
                                    'Error in path (building)\n'
                                    "building failed, no mapping for 'full_polarization'",
                                    'NoneType',
                                    'KeyError'),
                                   ('raise',
                                    'MappingError',
                                    "Error in path (building)\nbuilding failed, no mapping for 'L'",
                                    'NoneType',
                                    'KeyError'),
                                   ('raise',
                                    'MappingError',
                                    "Error in path (building)\nbuilding failed, no mapping for 'S'",
                                    'NoneType',
                                    'KeyError'),
                                   ('raise',
                                    'MappingError',
                                    "Error in path (building)\nbuilding failed, no mapping for 'C'",
                                    'NoneType',
                                    'KeyError'),
                                   ('raise',
                                    'MappingError',
                                    "Error in path (building)\nbuilding failed, no mapping for 'X'",
                                    'NoneType',
                                    'KeyError'),
                                   ('raise',
                                    'MappingError',
                                    'Error in path (building)\n'
                                    "building failed, no mapping for 'KU'",
                                    'NoneType',
                                    'KeyError'),
                                   ('raise',
                                    'MappingError',
                                    'Error in path (building)\n'
                                    "building failed, no mapping for 'KA'",
                                    'NoneType',
                                    'KeyError'),
                                   ('value', 'bytes', "b'\\x00\\x00'"),
                                   ('value', 'bytes', "b'\\x00\\x01'"),
                                   ('raise',
                                    'MappingError',
                                    'Error in path (building)\n'
                                    "building failed, no mapping for 'linear_fm_chirp'",
                                    'NoneType',
                                    'KeyError'),
                                   ('raise',
                                    'MappingError',
                                    'Error in path (building)\n'
                                    "building failed, no mapping for 'phase_modulators'",
                                    'NoneType',
                                    'KeyError'),
                                   ('raise',
                                    'MappingError',
                                    'Error in path (building)\n'
                                    "building failed, no mapping for 'repeat'",
                                    'NoneType',
                                    'KeyError'),
                                   ('raise',
                                    'MappingError',
                                    'Error in path (building)\n'
                                    "building failed, no mapping for 'update'",
                                    'NoneType',
                                    'KeyError'),
                                   ('raise',
                                    'MappingError',
                                    "Error in path (building)\nbuilding failed, no mapping for 'l'",
                                    'NoneType',
                                    'KeyError'),
                                   ('raise',
                                    'MappingError',
                                    "Error in path (building)\nbuilding failed, no mapping for ''",
                                    'NoneType',
                                    'KeyError'),
                                   ('raise',
                                    'MappingError',
                                    "Error in path (building)\nbuilding failed, no mapping for '0'",
                                    'NoneType',
                                    'KeyError'),
                                   ('raise',
                                    'MappingError',
                                    'Error in path (building)\n'
                                    "building failed, no mapping for '_SarChannelId'",
                                    'NoneType',
                                    'KeyError'),
                                   ('raise',
                                    'MappingError',
                                    'Error in path (building)\n'
                                    "building failed, no mapping for 'name'",
                                    'NoneType',
                                    'KeyError'),
                                   ('raise',
                                    'MappingError',
                                    'Error in path (building)\n'
                                    "building failed, no mapping for 'value'",
                                    'NoneType',
                                    'KeyError'),
                                   ('value', 'bytes', "b'\\x00\\x00'"),
                                   ('value', 'bytes', "b'\\x00\\x01'"),
                                   ('value', 'bytes', "b'\\x00\\x02'"),
                                   ('value', 'bytes', "b'\\x00\\x03'"),
                                   ('value', 'bytes', "b'\\x00\\x04'"),
                                   ('value', 'bytes', "b'\\x00\\x05'"),
                                   ('value', 'bytes', "b'\\x00\\x06'"),
                                   ('value', 'bytes', "b'\\xff\\xff'"),
                                   ('raise',
                                    'FormatFieldError',
                                    'Error in path (building)\n'
                                    "struct '>H' error during building, given value 65536",
                                    'NoneType',
                                    'error'),
                                   ('raise',
                                    'FormatFieldError',
                                    'Error in path (building)\n'
                                    "struct '>H' error during building, given value -1",
                                    'NoneType',
                                    'error'),
                                   ('raise',
                                    'MappingError',
                                    'Error in path (building)\nbuilding failed, no mapping for 1.0',
                                    'NoneType',
                                    'KeyError'),
                                   ('raise',
                                    'MappingError',
                                    'Error in path (building)\n'
                                    'building failed, no mapping for None',
                                    'NoneType',
                                    'KeyError'),
                                   ('value', 'bytes', "b'\\x00\\x01'"),
                                   ('raise',
                                    'MappingError',
                                    'Error in path (building)\n'
                                    "building failed, no mapping for b'L'",
                                    'NoneType',
                                    'KeyError')],
 'enum-getattr-pulse_polarization': [('raise', 'AttributeError', '', 'NoneType', 'NoneType'),
                                     ('raise', 'AttributeError', '', 'NoneType', 'NoneType'),
                                     ('raise', 'AttributeError', '', 'NoneType', 'NoneType'),
                                     ('raise', 'AttributeError', '', 'NoneType', 'NoneType'),
                                     ('raise', 'AttributeError', '', 'NoneType', 'NoneType'),
                                     ('raise', 'AttributeError', '', 'NoneType', 'NoneType'),
                                     ('raise', 'AttributeError', '', 'NoneType', 'NoneType'),
                                     ('raise', 'AttributeError', '', 'NoneType', 'NoneType'),
                                     ('raise', 'AttributeError', '', 'NoneType', 'NoneType'),
                                     ('value',
                                      'str',
                                      '"[EnumIntegerString.new(0, \'horizontal\'), 0]"'),
                                     ('value',
                                      'str',
                                      '"[EnumIntegerString.new(1, \'vertical\'), 1]"'),
                                     ('raise', 'AttributeError', '', 'NoneType', 'NoneType'),
                                     ('raise', 'AttributeError', '', 'NoneType', 'NoneType'),
                                     ('raise', 'AttributeError', '', 'NoneType', 'NoneType'),
                                     ('raise', 'AttributeError', '', 'NoneType', 'NoneType'),
                                     ('raise', 'AttributeError', '', 'NoneType', 'NoneType'),
                                     ('raise', 'AttributeError', '', 'NoneType', 'NoneType'),
                                     ('raise', 'AttributeError', '', 'NoneType', 'NoneType'),
                                     ('raise', 'AttributeError', '', 'NoneType', 'NoneType'),
                                     ('raise',
                                      'TypeError',
                                      'int() argument must be a string, a bytes-like object or a '
                                      "real number, not 'NoneType'",
                                      'NoneType',
                                      'NoneType'),
                                     ('raise', 'AttributeError', '', 'NoneType', 'NoneType')],
 'enum-roundtrip-pulse_polarization': [('value', 'bytes', "b'\\x00\\x00'"),
                                       ('value', 'bytes', "b'\\x00\\x01'"),
                                       ('value', 'bytes', "b'\\x00\\x02'"),
                                       ('value', 'bytes', "b'\\x00\\x04'"),
                                       ('value', 'bytes', "b'\\x00\\t'")],
 'enum-chirp_type_designator': "['Enum', 'Int16ub', [('EnumIntegerString', 'linear_fm_chirp', 0, "
                               "'int', 0), ('EnumIntegerString', 'phase_modulators', 1, 'int', "
                               "1)], [('int', 0, 'EnumIntegerString', 'linear_fm_chirp', 0), "
                               "('int', 1, 'EnumIntegerString', 'phase_modulators', 1)], [('int', "
                               "0, 'str', 'linear_fm_chirp'), ('int', 1, 'str', "
                               "'phase_modulators')], ['decmapping', 'encmapping', "
                               "'flagbuildnone', 'ksymapping', 'name', 'parsed', 'subcon']]",
 'enum-parse-chirp_type_designator': [('value',
                                       'str',
                                       '"[\'EnumIntegerString\', \'linear_fm_chirp\', 0, False, '
                                       'True, True]"'),
                                      ('value',
                                       'str',
                                       '"[\'EnumIntegerString\', \'phase_modulators\', 1, False, '
                                       'True, True]"'),
                                      ('value',
                                       'str',
                                       '"[\'EnumInteger\', \'2\', 2, True, False, False]"'),
                                      ('value',
                                       'str',
                                       '"[\'EnumInteger\', \'3\', 3, True, False, False]"'),
                                      ('value',
                                       'str',
                                       '"[\'EnumInteger\', \'4\', 4, True, False, False]"'),
                                      ('value',
                                       'str',
                                       '"[\'EnumInteger\', \'5\', 5, True, False, False]"'),
                                      ('value',
                                       'str',
                                       '"[\'EnumInteger\', \'6\', 6, True, False, False]"'),
                                      ('value',
                                       'str',
                                       '"[\'EnumInteger\', \'7\', 7, True, False, False]"'),
                                      ('value',
                                       'str',
                                       '"[\'EnumInteger\', \'8\', 8, True, False, False]"'),
                                      ('value',
                                       'str',
                                       '"[\'EnumInteger\', \'255\', 255, True, False, False]"'),
                                      ('value',
                                       'str',
                                       '"[\'EnumInteger\', \'256\', 256, True, False, False]"'),
                                      ('value',
                                       'str',
                                       '"[\'EnumInteger\', \'65535\', 65535, True, False, '
                                       'False]"')],
 'enum-parse-short-chirp_type_designator': [('raise',
                                             'StreamError',
                                             'Error in path (parsing)\n'
                                             'stream read less than specified amount, expected 2, '
                                             'found 0',
                                             'NoneType',
                                             'NoneType'),
                                            ('raise',
                                             'StreamError',
                                             'Error in path (parsing)\n'
                                             'stream read less than specified amount, expected 2, '
                                             'found 1',
                                             'NoneType',
                                             'NoneType'),
                                            ('value',
                                             'EnumIntegerString',
                                             "EnumIntegerString.new(0, 'linear_fm_chirp')")],
 'enum-build-chirp_type_designator': [('raise',
                                       'MappingError',
                                       'Error in path (building)\n'
                                       "building failed, no mapping for 'single_polarization'",
                                       'NoneType',
                                       'KeyError'),
                                      ('raise',
                                       'MappingError',
                                       'Error in path (building)\n'
                                       "building failed, no mapping for 'dual_polarization'",
                                       'NoneType',
                                       'KeyError'),
                                      ('raise',
                                       'MappingError',
                                       'Error in path (building)\n'
                                       "building failed, no mapping for 'full_polarization'",
                                       'NoneType',
                                       'KeyError'),
                                      ('raise',
                                       'MappingError',
                                       'Error in path (building)\n'
                                       "building failed, no mapping for 'L'",
                                       'NoneType',
                                       'KeyError'),
                                      ('raise',
                                       'MappingError',
                                       'Error in path (building)\n'
                                       "building failed, no mapping for 'S'",
                                       'NoneType',
                                       'KeyError'),
                                      ('raise',
                                       'MappingError',
                                       'Error in path (building)\n'
                                       "building failed, no mapping for 'C'",
                                       'NoneType',
                                       'KeyError'),
                                      ('raise',
                                       'MappingError',
                                       'Error in path (building)\n'
                                       "building failed, no mapping for 'X'",
                                       'NoneType',
                                       'KeyError'),
                                      ('raise',
                                       'MappingError',
                                       'Error in path (building)\n'
                                       "building failed, no mapping for 'KU'",
                                       'NoneType',
                                       'KeyError'),
                                      ('raise',
                                       'MappingError',
                                       'Error in path (building)\n'
                                       "building failed, no mapping for 'KA'",
                                       'NoneType',
                                       'KeyError'),
                                      ('raise',
                                       'MappingError',
                                       'Error in path (building)\n'
                                       "building failed, no mapping for 'horizontal'",
                                       'NoneType',
                                       'KeyError'),
                                      ('raise',
                                       'MappingError',
                                       'Error in path (building)\n'
                                       "building failed, no mapping for 'vertical'",
                                       'NoneType',
                                       'KeyError'),
                                      ('value', 'bytes', "b'\\x00\\x00'"),
                                      ('value', 'bytes', "b'\\x00\\x01'"),
                                      ('raise',
                                       'MappingError',
                                       'Error in path (building)\n'
                                       "building failed, no mapping for 'repeat'",
                                       'NoneType',
                                       'KeyError'),
                                      ('raise',
                                       'MappingError',
                                       'Error in path (building)\n'
                                       "building failed, no mapping for 'update'",
                                       'NoneType',
                                       'KeyError'),
                                      ('raise',
                                       'MappingError',
                                       'Error in path (building)\n'
                                       "building failed, no mapping for 'l'",
                                       'NoneType',
                                       'KeyError'),
                                      ('raise',
                                       'MappingError',
                                       'Error in path (building)\n'
                                       "building failed, no mapping for ''",
                                       'NoneType',
                                       'KeyError'),
                                      ('raise',
                                       'MappingError',
                                       'Error in path (building)\n'
                                       "building failed, no mapping for '0'",
                                       'NoneType',
                                       'KeyError'),
                                      ('raise',
                                       'MappingError',
                                       'Error in path (building)\n'
                                       "building failed, no mapping for '_SarChannelId'",
                                       'NoneType',
                                       'KeyError'),
                                      ('raise',
                                       'MappingError',
                                       'Error in path (building)\n'
                                       "building failed, no mapping for 'name'",
                                       'NoneType',
                                       'KeyError'),
                                      ('raise',
                                       'MappingError',
                                       'Error in path (building)\n'
                                       "building failed, no mapping for 'value'",
                                       'NoneType',
                                       'KeyError'),
                                      ('value', 'bytes', "b'\\x00\\x00'"),
                                      ('value', 'bytes', "b'\\x00\\x01'"),
                                      ('value', 'bytes', "b'\\x00\\x02'"),
                                      ('value', 'bytes', "b'\\x00\\x03'"),
                                      ('value', 'bytes', "b'\\x00\\x04'"),
                                      ('value', 'bytes', "b'\\x00\\x05'"),
                                      ('value', 'bytes', "b'\\x00\\x06'"),
                                      ('value', 'bytes', "b'\\xff\\xff'"),
                                      ('raise',
                                       'FormatFieldError',
                                       'Error in path (building)\n'
                                       "struct '>H' error during building, given value 65536",
                                       'NoneType',
                                       'error'),
                                      ('raise',
                                       'FormatFieldError',
                                       'Error in path (building)\n'
                                       "struct '>H' error during building, given value -1",
                                       'NoneType',
                                       'error'),
                                      ('raise',
                                       'MappingError',
                                       'Error in path (building)\n'
                                       'building failed, no mapping for 1.0',
                                       'NoneType',
                                       'KeyError'),
                                      ('raise',
                                       'MappingError',
                                       'Error in path (building)\n'
                                       'building failed, no mapping for None',
                                       'NoneType',
                                       'KeyError'),
                                      ('value', 'bytes', "b'\\x00\\x01'"),
                                      ('raise',
                                       'MappingError',
                                       'Error in path (building)\n'
                                       "building failed, no mapping for b'L'",
                                       'NoneType',
                                       'KeyError')],
 'enum-getattr-chirp_type_designator': [('raise', 'AttributeError', '', 'NoneType', 'NoneType'),
                                        ('raise', 'AttributeError', '', 'NoneType', 'NoneType'),
                                        ('raise', 'AttributeError', '', 'NoneType', 'NoneType'),
                                        ('raise', 'AttributeError', '', 'NoneType', 'NoneType'),
                                        ('raise', 'AttributeError', '', 'NoneType', 'NoneType'),
                                        ('raise', 'AttributeError', '', 'NoneType', 'NoneType'),
                                        ('raise', 'AttributeError', '', 'NoneType', 'NoneType'),
                                        ('raise', 'AttributeError', '', 'NoneType', 'NoneType'),
                                        ('raise', 'AttributeError', '', 'NoneType', 'NoneType'),
                                        ('raise', 'AttributeError', '', 'NoneType', 'NoneType'),
                                        ('raise', 'AttributeError', '', 'NoneType', 'NoneType'),
                                        ('value',
                                         'str',
                                         '"[EnumIntegerString.new(0, \'linear_fm_chirp\'), 0]"'),
                                        ('value',
                                         'str',
                                         '"[EnumIntegerString.new(1, \'phase_modulators\'), 1]"'),
                                        ('raise', 'AttributeError', '', 'NoneType', 'NoneType'),
                                        ('raise', 'AttributeError', '', 'NoneType', 'NoneType'),
                                        ('raise', 'AttributeError', '', 'NoneType', 'NoneType'),
                                        ('raise', 'AttributeError', '', 'NoneType', 'NoneType'),
                                        ('raise', 'AttributeError', '', 'NoneType', 'NoneType'),
                                        ('raise', 'AttributeError', '', 'NoneType', 'NoneType'),
                                        ('raise',
                                         'TypeError',
                                         'int() argument must be a string, a bytes-like object or '
                                         "a real number, not 'NoneType'",
                                         'NoneType',
                                         'NoneType'),
                                        ('raise', 'AttributeError', '', 'NoneType', 'NoneType')],
 'enum-roundtrip-chirp_type_designator': [('value', 'bytes', "b'\\x00\\x00'"),
                                          ('value', 'bytes', "b'\\x00\\x01'"),
                                          ('value', 'bytes', "b'\\x00\\x02'"),
                                          ('value', 'bytes', "b'\\x00\\x04'"),
                                          ('value', 'bytes', "b'\\x00\\t'")],
 'enum-platform_position_parameters_update': "['Enum', 'Int32ub', [('EnumIntegerString', 'repeat', "
                                             "0, 'int', 0), ('EnumIntegerString', 'update', 1, "
                                             "'int', 1)], [('int', 0, 'EnumIntegerString', "
                                             "'repeat', 0), ('int', 1, 'EnumIntegerString', "
                                             "'update', 1)], [('int', 0, 'str', 'repeat'), ('int', "
                                             "1, 'str', 'update')], ['decmapping', 'encmapping', "
                                             "'flagbuildnone', 'ksymapping', 'name', 'parsed', "
                                             "'subcon']]",
 'enum-parse-platform_position_parameters_update': [('value',
                                                     'str',
                                                     '"[\'EnumIntegerString\', \'repeat\', 0, '
                                                     'False, True, True]"'),
                                                    ('value',
                                                     'str',
                                                     '"[\'EnumIntegerString\', \'update\', 1, '
                                                     'False, True, True]"'),
                                                    ('value',
                                                     'str',
                                                     '"[\'EnumInteger\', \'2\', 2, True, False, '
                                                     'False]"'),
                                                    ('value',
                                                     'str',
                                                     '"[\'EnumInteger\', \'3\', 3, True, False, '
                                                     'False]"'),
                                                    ('value',
                                                     'str',
                                                     '"[\'EnumInteger\', \'4\', 4, True, False, '
                                                     'False]"'),
                                                    ('value',
                                                     'str',
                                                     '"[\'EnumInteger\', \'5\', 5, True, False, '
                                                     'False]"'),
                                                    ('value',
                                                     'str',
                                                     '"[\'EnumInteger\', \'6\', 6, True, False, '
                                                     'False]"'),
                                                    ('value',
                                                     'str',
                                                     '"[\'EnumInteger\', \'7\', 7, True, False, '
                                                     'False]"'),
                                                    ('value',
                                                     'str',
                                                     '"[\'EnumInteger\', \'8\', 8, True, False, '
                                                     'False]"'),
                                                    ('value',
                                                     'str',
                                                     '"[\'EnumInteger\', \'255\', 255, True, '
                                                     'False, False]"'),
                                                    ('value',
                                                     'str',
                                                     '"[\'EnumInteger\', \'256\', 256, True, '
                                                     'False, False]"'),
                                                    ('value',
                                                     'str',
                                                     '"[\'EnumInteger\', \'4294967295\', '
                                                     '4294967295, True, False, False]"')],
 'enum-parse-short-platform_position_parameters_update': [('raise',
                                                           'StreamError',
                                                           'Error in path (parsing)\n'
                                                           'stream read less than specified '
                                                           'amount, expected 4, found 0',
                                                           'NoneType',
                                                           'NoneType'),
                                                          ('raise',
                                                           'StreamError',
                                                           'Error in path (parsing)\n'
                                                           'stream read less than specified '
                                                           'amount, expected 4, found 1',
                                                           'NoneType',
                                                           'NoneType'),
                                                          ('raise',
                                                           'StreamError',
                                                           'Error in path (parsing)\n'
                                                           'stream read less than specified '
                                                           'amount, expected 4, found 3',
                                                           'NoneType',
                                                           'NoneType')],
 'enum-build-platform_position_parameters_update': [('raise',
                                                     'MappingError',
                                                     'Error in path (building)\n'
                                                     'building failed, no mapping for '
                                                     "'single_polarization'",
                                                     'NoneType',
                                                     'KeyError'),
                                                    ('raise',
                                                     'MappingError',
                                                     'Error in path (building)\n'
                                                     'building failed, no mapping for '
                                                     "'dual_polarization'",
                                                     'NoneType',
                                                     'KeyError'),
                                                    ('raise',
                                                     'MappingError',
                                                     'Error in path (building)\n'
                                                     'building failed, no mapping for '
                                                     "'full_polarization'",
                                                     'NoneType',
                                                     'KeyError'),
                                                    ('raise',
                                                     'MappingError',
                                                     'Error in path (building)\n'
                                                     "building failed, no mapping for 'L'",
                                                     'NoneType',
                                                     'KeyError'),
                                                    ('raise',
                                                     'MappingError',
                                                     'Error in path (building)\n'
                                                     "building failed, no mapping for 'S'",
                                                     'NoneType',
                                                     'KeyError'),
                                                    ('raise',
                                                     'MappingError',
                                                     'Error in path (building)\n'
                                                     "building failed, no mapping for 'C'",
                                                     'NoneType',
                                                     'KeyError'),
                                                    ('raise',
                                                     'MappingError',
                                                     'Error in path (building)\n'
                                                     "building failed, no mapping for 'X'",
                                                     'NoneType',
                                                     'KeyError'),
                                                    ('raise',
                                                     'MappingError',
                                                     'Error in path (building)\n'
                                                     "building failed, no mapping for 'KU'",
                                                     'NoneType',
                                                     'KeyError'),
                                                    ('raise',
                                                     'MappingError',
                                                     'Error in path (building)\n'
                                                     "building failed, no mapping for 'KA'",
                                                     'NoneType',
                                                     'KeyError'),
                                                    ('raise',
                                                     'MappingError',
                                                     'Error in path (building)\n'
                                                     "building failed, no mapping for 'horizontal'",
                                                     'NoneType',
                                                     'KeyError'),
                                                    ('raise',
                                                     'MappingError',
                                                     'Error in path (building)\n'
                                                     "building failed, no mapping for 'vertical'",
                                                     'NoneType',
                                                     'KeyError'),
                                                    ('raise',
                                                     'MappingError',
                                                     'Error in path (building)\n'
                                                     'building failed, no mapping for '
                                                     "'linear_fm_chirp'",
                                                     'NoneType',
                                                     'KeyError'),
                                                    ('raise',
                                                     'MappingError',
                                                     'Error in path (building)\n'
                                                     'building failed, no mapping for '
                                                     "'phase_modulators'",
                                                     'NoneType',
                                                     'KeyError'),
                                                    ('value', 'bytes', "b'\\x00\\x00\\x00\\x00'"),
                                                    ('value', 'bytes', "b'\\x00\\x00\\x00\\x01'"),
                                                    ('raise',
                                                     'MappingError',
                                                     'Error in path (building)\n'
                                                     "building failed, no mapping for 'l'",
                                                     'NoneType',
                                                     'KeyError'),
                                                    ('raise',
                                                     'MappingError',
                                                     'Error in path (building)\n'
                                                     "building failed, no mapping for ''",
                                                     'NoneType',
                                                     'KeyError'),
                                                    ('raise',
                                                     'MappingError',
                                                     'Error in path (building)\n'
                                                     "building failed, no mapping for '0'",
                                                     'NoneType',
                                                     'KeyError'),
                                                    ('raise',
                                                     'MappingError',
                                                     'Error in path (building)\n'
                                                     'building failed, no mapping for '
                                                     "'_SarChannelId'",
                                                     'NoneType',
                                                     'KeyError'),
                                                    ('raise',
                                                     'MappingError',
                                                     'Error in path (building)\n'
                                                     "building failed, no mapping for 'name'",
                                                     'NoneType',
                                                     'KeyError'),
                                                    ('raise',
                                                     'MappingError',
                                                     'Error in path (building)\n'
                                                     "building failed, no mapping for 'value'",
                                                     'NoneType',
                                                     'KeyError'),
                                                    ('value', 'bytes', "b'\\x00\\x00\\x00\\x00'"),
                                                    ('value', 'bytes', "b'\\x00\\x00\\x00\\x01'"),
                                                    ('value', 'bytes', "b'\\x00\\x00\\x00\\x02'"),
                                                    ('value', 'bytes', "b'\\x00\\x00\\x00\\x03'"),
                                                    ('value', 'bytes', "b'\\x00\\x00\\x00\\x04'"),
                                                    ('value', 'bytes', "b'\\x00\\x00\\x00\\x05'"),
                                                    ('value', 'bytes', "b'\\x00\\x00\\x00\\x06'"),
                                                    ('value', 'bytes', "b'\\x00\\x00\\xff\\xff'"),
                                                    ('value', 'bytes', "b'\\x00\\x01\\x00\\x00'"),
                                                    ('raise',
                                                     'FormatFieldError',
                                                     'Error in path (building)\n'
                                                     "struct '>L' error during building, given "
                                                     'value -1',
                                                     'NoneType',
                                                     'error'),
                                                    ('raise',
                                                     'MappingError',
                                                     'Error in path (building)\n'
                                                     'building failed, no mapping for 1.0',
                                                     'NoneType',
                                                     'KeyError'),
                                                    ('raise',
                                                     'MappingError',
                                                     'Error in path (building)\n'
                                                     'building failed, no mapping for None',
                                                     'NoneType',
                                                     'KeyError'),
                                                    ('value', 'bytes', "b'\\x00\\x00\\x00\\x01'"),
                                                    ('raise',
                                                     'MappingError',
                                                     'Error in path (building)\n'
                                                     "building failed, no mapping for b'L'",
                                                     'NoneType',
                                                     'KeyError')],
 'enum-getattr-platform_position_parameters_update': [('raise',
                                                       'AttributeError',
                                                       '',
                                                       'NoneType',
                                                       'NoneType'),
                                                      ('raise',
                                                       'AttributeError',
                                                       '',
                                                       'NoneType',
                                                       'NoneType'),
                                                      ('raise',
                                                       'AttributeError',
                                                       '',
                                                       'NoneType',
                                                       'NoneType'),
                                                      ('raise',
                                                       'AttributeError',
                                                       '',
                                                       'NoneType',
                                                       'NoneType'),
                                                      ('raise',
                                                       'AttributeError',
                                                       '',
                                                       'NoneType',
                                                       'NoneType'),
                                                      ('raise',
                                                       'AttributeError',
                                                       '',
                                                       'NoneType',
                                                       'NoneType'),
                                                      ('raise',
                                                       'AttributeError',
                                                       '',
                                                       'NoneType',
                                                       'NoneType'),
                                                      ('raise',
                                                       'AttributeError',
                                                       '',
                                                       'NoneType',
                                                       'NoneType'),
                                                      ('raise',
                                                       'AttributeError',
                                                       '',
                                                       'NoneType',
                                                       'NoneType'),
                                                      ('raise',
                                                       'AttributeError',
                                                       '',
                                                       'NoneType',
                                                       'NoneType'),
                                                      ('raise',
                                                       'AttributeError',
                                                       '',
                                                       'NoneType',
                                                       'NoneType'),
                                                      ('raise',
                                                       'AttributeError',
                                                       '',
                                                       'NoneType',
                                                       'NoneType'),
                                                      ('raise',
                                                       'AttributeError',
                                                       '',
                                                       'NoneType',
                                                       'NoneType'),
                                                      ('value',
                                                       'str',
                                                       '"[EnumIntegerString.new(0, \'repeat\'), '
                                                       '0]"'),
                                                      ('value',
                                                       'str',
                                                       '"[EnumIntegerString.new(1, \'update\'), '
                                                       '1]"'),
                                                      ('raise',
                                                       'AttributeError',
                                                       '',
                                                       'NoneType',
                                                       'NoneType'),
                                                      ('raise',
                                                       'AttributeError',
                                                       '',
                                                       'NoneType',
                                                       'NoneType'),
                                                      ('raise',
                                                       'AttributeError',
                                                       '',
                                                       'NoneType',
                                                       'NoneType'),
                                                      ('raise',
                                                       'AttributeError',
                                                       '',
                                                       'NoneType',
                                                       'NoneType'),
                                                      ('raise',
                                                       'TypeError',
                                                       'int() argument must be a string, a '
                                                       'bytes-like object or a real number, not '
                                                       "'NoneType'",
                                                       'NoneType',
                                                       'NoneType'),
                                                      ('raise',
                                                       'AttributeError',
                                                       '',
                                                       'NoneType',
                                                       'NoneType')],
 'enum-roundtrip-platform_position_parameters_update': [('value',
                                                         'bytes',
                                                         "b'\\x00\\x00\\x00\\x00'"),
                                                        ('value',
                                                         'bytes',
                                                         "b'\\x00\\x00\\x00\\x01'"),
                                                        ('value',
                                                         'bytes',
                                                         "b'\\x00\\x00\\x00\\x02'"),
                                                        ('value',
                                                         'bytes',
                                                         "b'\\x00\\x00\\x00\\x04'"),
                                                        ('value',
                                                         'bytes',
                                                         "b'\\x00\\x00\\x00\\t'")],
 'enum-distinct': 5,
 'records': [('value',
              'str',
              '"[[(\'sar_channel_id\', \'EnumIntegerString\', \'single_polarization\'), '
              "('sar_channel_code', 'EnumIntegerString', 'L'), ('transmitted_pulse_polarization', "
              "'EnumIntegerString', 'horizontal'), ('received_pulse_polarization', "
              "'EnumIntegerString', 'horizontal'), ('chirp_type_designator', 'EnumIntegerString', "
              "'linear_fm_chirp'), ('onboard_range_compressed_flag', 'bool', 'False'), "
              "('invalid_line_flag', 'bool', 'False'), "
              "('platform_position_parameters_update_flag', 'EnumIntegerString', 'repeat')], "
              "{'sar_channel_id': 'single_polarization', 'sar_channel_code': 'L', "
              "'transmitted_pulse_polarization': 'horizontal', 'received_pulse_polarization': "
              "'horizontal', 'chirp_type_designator': 'linear_fm_chirp', "
              "'onboard_range_compressed_flag': False, 'invalid_line_flag': False, "
              '\'platform_position_parameters_update_flag\': \'repeat\'}]"'),
             ('value',
              'str',
              '"[[(\'sar_channel_id\', \'EnumIntegerString\', \'single_polarization\'), '
              "('sar_channel_code', 'EnumIntegerString', 'L'), ('transmitted_pulse_polarization', "
              "'EnumIntegerString', 'horizontal'), ('received_pulse_polarization', "
              "'EnumIntegerString', 'horizontal'), ('chirp_type_designator', 'EnumIntegerString', "
              "'linear_fm_chirp'), ('onboard_range_compressed_flag', 'bool', 'True'), "
              "('invalid_line_flag', 'bool', 'True'), ('platform_position_parameters_update_flag', "
              "'EnumIntegerString', 'update')], {'sar_channel_id': 'single_polarization', "
              "'sar_channel_code': 'L', 'transmitted_pulse_polarization': 'horizontal', "
              "'received_pulse_polarization': 'horizontal', 'chirp_type_designator': "
              "'linear_fm_chirp', 'onboard_range_compressed_flag': True, 'invalid_line_flag': "
              'True, \'platform_position_parameters_update_flag\': \'update\'}]"'),
             ('value',
              'str',
              '"[[(\'sar_channel_id\', \'EnumIntegerString\', \'single_polarization\'), '
              "('sar_channel_code', 'EnumIntegerString', 'L'), ('transmitted_pulse_polarization', "
              "'EnumIntegerString', 'horizontal'), ('received_pulse_polarization', "
              "'EnumIntegerString', 'horizontal'), ('chirp_type_designator', 'EnumIntegerString', "
              "'linear_fm_chirp'), ('onboard_range_compressed_flag', 'bool', 'True'), "
              "('invalid_line_flag', 'bool', 'True'), ('platform_position_parameters_update_flag', "
              "'EnumInteger', '7')], {'sar_channel_id': 'single_polarization', 'sar_channel_code': "
              "'L', 'transmitted_pulse_polarization': 'horizontal', 'received_pulse_polarization': "
              "'horizontal', 'chirp_type_designator': 'linear_fm_chirp', "
              "'onboard_range_compressed_flag': True, 'invalid_line_flag': True, "
              '\'platform_position_parameters_update_flag\': 7}]"'),
             ('value',
              'str',
              '"[[(\'sar_channel_id\', \'EnumIntegerString\', \'single_polarization\'), '
              "('sar_channel_code', 'EnumIntegerString', 'L'), ('transmitted_pulse_polarization', "
              "'EnumIntegerString', 'horizontal'), ('received_pulse_polarization', "
              "'EnumIntegerString', 'horizontal')], {'sar_channel_id': 'single_polarization', "
              "'sar_channel_code': 'L', 'transmitted_pulse_polarization': 'horizontal', "
              '\'received_pulse_polarization\': \'horizontal\'}]"'),
             ('value',
              'str',
              '"[[(\'sar_channel_id\', \'EnumIntegerString\', \'single_polarization\'), '
              "('sar_channel_code', 'EnumIntegerString', 'L'), ('transmitted_pulse_polarization', "
              "'EnumIntegerString', 'horizontal'), ('received_pulse_polarization', "
              "'EnumIntegerString', 'horizontal')], {'sar_channel_id': 'single_polarization', "
              "'sar_channel_code': 'L', 'transmitted_pulse_polarization': 'horizontal', "
              '\'received_pulse_polarization\': \'horizontal\'}]"'),
             ('value',
              'str',
              '"[[(\'sar_channel_id\', \'EnumIntegerString\', \'single_polarization\'), '
              "('sar_channel_code', 'EnumIntegerString', 'L'), ('transmitted_pulse_polarization', "
              "'EnumIntegerString', 'horizontal'), ('received_pulse_polarization', "
              "'EnumIntegerString', 'horizontal')], {'sar_channel_id': 'single_polarization', "
              "'sar_channel_code': 'L', 'transmitted_pulse_polarization': 'horizontal', "
              '\'received_pulse_polarization\': \'horizontal\'}]"'),
             ('value',
              'str',
              '"[[(\'sar_channel_id\', \'EnumIntegerString\', \'dual_polarization\'), '
              "('sar_channel_code', 'EnumIntegerString', 'KA'), ('transmitted_pulse_polarization', "
              "'EnumIntegerString', 'vertical'), ('received_pulse_polarization', "
              "'EnumIntegerString', 'vertical'), ('chirp_type_designator', 'EnumIntegerString', "
              "'phase_modulators'), ('onboard_range_compressed_flag', 'bool', 'False'), "
              "('invalid_line_flag', 'bool', 'False'), "
              "('platform_position_parameters_update_flag', 'EnumIntegerString', 'repeat')], "
              "{'sar_channel_id': 'dual_polarization', 'sar_channel_code': 'KA', "
              "'transmitted_pulse_polarization': 'vertical', 'received_pulse_polarization': "
              "'vertical', 'chirp_type_designator': 'phase_modulators', "
              "'onboard_range_compressed_flag': False, 'invalid_line_flag': False, "
              '\'platform_position_parameters_update_flag\': \'repeat\'}]"'),
             ('value',
              'str',
              '"[[(\'sar_channel_id\', \'EnumIntegerString\', \'dual_polarization\'), '
              "('sar_channel_code', 'EnumIntegerString', 'KA'), ('transmitted_pulse_polarization', "
              "'EnumIntegerString', 'vertical'), ('received_pulse_polarization', "
              "'EnumIntegerString', 'vertical'), ('chirp_type_designator', 'EnumIntegerString', "
              "'phase_modulators'), ('onboard_range_compressed_flag', 'bool', 'True'), "
              "('invalid_line_flag', 'bool', 'True'), ('platform_position_parameters_update_flag', "
              "'EnumIntegerString', 'update')], {'sar_channel_id': 'dual_polarization', "
              "'sar_channel_code': 'KA', 'transmitted_pulse_polarization': 'vertical', "
              "'received_pulse_polarization': 'vertical', 'chirp_type_designator': "
              "'phase_modulators', 'onboard_range_compressed_flag': True, 'invalid_line_flag': "
              'True, \'platform_position_parameters_update_flag\': \'update\'}]"'),
             ('value',
              'str',
              '"[[(\'sar_channel_id\', \'EnumIntegerString\', \'dual_polarization\'), '
              "('sar_channel_code', 'EnumIntegerString', 'KA'), ('transmitted_pulse_polarization', "
              "'EnumIntegerString', 'vertical'), ('received_pulse_polarization', "
              "'EnumIntegerString', 'vertical'), ('chirp_type_designator', 'EnumIntegerString', "
              "'phase_modulators'), ('onboard_range_compressed_flag', 'bool', 'True'), "
              "('invalid_line_flag', 'bool', 'True'), ('platform_position_parameters_update_flag', "
              "'EnumInteger', '7')], {'sar_channel_id': 'dual_polarization', 'sar_channel_code': "
              "'KA', 'transmitted_pulse_polarization': 'vertical', 'received_pulse_polarization': "
              "'vertical', 'chirp_type_designator': 'phase_modulators', "
              "'onboard_range_compressed_flag': True, 'invalid_line_flag': True, "
              '\'platform_position_parameters_update_flag\': 7}]"'),
             ('value',
              'str',
              '"[[(\'sar_channel_id\', \'EnumIntegerString\', \'dual_polarization\'), '
              "('sar_channel_code', 'EnumIntegerString', 'KA'), ('transmitted_pulse_polarization', "
              "'EnumIntegerString', 'vertical'), ('received_pulse_polarization', "
              "'EnumIntegerString', 'vertical')], {'sar_channel_id': 'dual_polarization', "
              "'sar_channel_code': 'KA', 'transmitted_pulse_polarization': 'vertical', "
              '\'received_pulse_polarization\': \'vertical\'}]"'),
             ('value',
              'str',
              '"[[(\'sar_channel_id\', \'EnumIntegerString\', \'dual_polarization\'), '
              "('sar_channel_code', 'EnumIntegerString', 'KA'), ('transmitted_pulse_polarization', "
              "'EnumIntegerString', 'vertical'), ('received_pulse_polarization', "
              "'EnumIntegerString', 'vertical')], {'sar_channel_id': 'dual_polarization', "
              "'sar_channel_code': 'KA', 'transmitted_pulse_polarization': 'vertical', "
              '\'received_pulse_polarization\': \'vertical\'}]"'),
             ('value',
              'str',
              '"[[(\'sar_channel_id\', \'EnumIntegerString\', \'dual_polarization\'), '
              "('sar_channel_code', 'EnumIntegerString', 'KA'), ('transmitted_pulse_polarization', "
              "'EnumIntegerString', 'vertical'), ('received_pulse_polarization', "
              "'EnumIntegerString', 'vertical')], {'sar_channel_id': 'dual_polarization', "
              "'sar_channel_code': 'KA', 'transmitted_pulse_polarization': 'vertical', "
              '\'received_pulse_polarization\': \'vertical\'}]"'),
             ('value',
              'str',
              '"[[(\'sar_channel_id\', \'EnumIntegerString\', \'full_polarization\'), '
              "('sar_channel_code', 'EnumIntegerString', 'X'), ('transmitted_pulse_polarization', "
              "'EnumIntegerString', 'horizontal'), ('received_pulse_polarization', "
              "'EnumIntegerString', 'vertical'), ('chirp_type_designator', 'EnumIntegerString', "
              "'linear_fm_chirp'), ('onboard_range_compressed_flag', 'bool', 'False'), "
              "('invalid_line_flag', 'bool', 'False'), "
              "('platform_position_parameters_update_flag', 'EnumIntegerString', 'repeat')], "
              "{'sar_channel_id': 'full_polarization', 'sar_channel_code': 'X', "
              "'transmitted_pulse_polarization': 'horizontal', 'received_pulse_polarization': "
              "'vertical', 'chirp_type_designator': 'linear_fm_chirp', "
              "'onboard_range_compressed_flag': False, 'invalid_line_flag': False, "
              '\'platform_position_parameters_update_flag\': \'repeat\'}]"'),
             ('value',
              'str',
              '"[[(\'sar_channel_id\', \'EnumIntegerString\', \'full_polarization\'), '
              "('sar_channel_code', 'EnumIntegerString', 'X'), ('transmitted_pulse_polarization', "
              "'EnumIntegerString', 'horizontal'), ('received_pulse_polarization', "
              "'EnumIntegerString', 'vertical'), ('chirp_type_designator', 'EnumIntegerString', "
              "'linear_fm_chirp'), ('onboard_range_compressed_flag', 'bool', 'True'), "
              "('invalid_line_flag', 'bool', 'True'), ('platform_position_parameters_update_flag', "
              "'EnumIntegerString', 'update')], {'sar_channel_id': 'full_polarization', "
              "'sar_channel_code': 'X', 'transmitted_pulse_polarization': 'horizontal', "
              "'received_pulse_polarization': 'vertical', 'chirp_type_designator': "
              "'linear_fm_chirp', 'onboard_range_compressed_flag': True, 'invalid_line_flag': "
              'True, \'platform_position_parameters_update_flag\': \'update\'}]"'),
             ('value',
              'str',
              '"[[(\'sar_channel_id\', \'EnumIntegerString\', \'full_polarization\'), '
              "('sar_channel_code', 'EnumIntegerString', 'X'), ('transmitted_pulse_polarization', "
              "'EnumIntegerString', 'horizontal'), ('received_pulse_polarization', "
              "'EnumIntegerString', 'vertical'), ('chirp_type_designator', 'EnumIntegerString', "
              "'linear_fm_chirp'), ('onboard_range_compressed_flag', 'bool', 'True'), "
              "('invalid_line_flag', 'bool', 'True'), ('platform_position_parameters_update_flag', "
              "'EnumInteger', '7')], {'sar_channel_id': 'full_polarization', 'sar_channel_code': "
              "'X', 'transmitted_pulse_polarization': 'horizontal', 'received_pulse_polarization': "
              "'vertical', 'chirp_type_designator': 'linear_fm_chirp', "
              "'onboard_range_compressed_flag': True, 'invalid_line_flag': True, "
              '\'platform_position_parameters_update_flag\': 7}]"'),
             ('value',
              'str',
              '"[[(\'sar_channel_id\', \'EnumIntegerString\', \'full_polarization\'), '
              "('sar_channel_code', 'EnumIntegerString', 'X'), ('transmitted_pulse_polarization', "
              "'EnumIntegerString', 'horizontal'), ('received_pulse_polarization', "
              "'EnumIntegerString', 'vertical')], {'sar_channel_id': 'full_polarization', "
              "'sar_channel_code': 'X', 'transmitted_pulse_polarization': 'horizontal', "
              '\'received_pulse_polarization\': \'vertical\'}]"'),
             ('value',
              'str',
              '"[[(\'sar_channel_id\', \'EnumIntegerString\', \'full_polarization\'), '
              "('sar_channel_code', 'EnumIntegerString', 'X'), ('transmitted_pulse_polarization', "
              "'EnumIntegerString', 'horizontal'), ('received_pulse_polarization', "
              "'EnumIntegerString', 'vertical')], {'sar_channel_id': 'full_polarization', "
              "'sar_channel_code': 'X', 'transmitted_pulse_polarization': 'horizontal', "
              '\'received_pulse_polarization\': \'vertical\'}]"'),
             ('value',
              'str',
              '"[[(\'sar_channel_id\', \'EnumIntegerString\', \'full_polarization\'), '
              "('sar_channel_code', 'EnumIntegerString', 'X'), ('transmitted_pulse_polarization', "
              "'EnumIntegerString', 'horizontal'), ('received_pulse_polarization', "
              "'EnumIntegerString', 'vertical')], {'sar_channel_id': 'full_polarization', "
              "'sar_channel_code': 'X', 'transmitted_pulse_polarization': 'horizontal', "
              '\'received_pulse_polarization\': \'vertical\'}]"'),
             ('value',
              'str',
              '"[[(\'sar_channel_id\', \'EnumInteger\', \'3\'), (\'sar_channel_code\', '
              "'EnumInteger', '6'), ('transmitted_pulse_polarization', 'EnumInteger', '2'), "
              "('received_pulse_polarization', 'EnumInteger', '9'), ('chirp_type_designator', "
              "'EnumInteger', '2'), ('onboard_range_compressed_flag', 'bool', 'False'), "
              "('invalid_line_flag', 'bool', 'False'), "
              "('platform_position_parameters_update_flag', 'EnumIntegerString', 'repeat')], "
              "{'sar_channel_id': 3, 'sar_channel_code': 6, 'transmitted_pulse_polarization': 2, "
              "'received_pulse_polarization': 9, 'chirp_type_designator': 2, "
              "'onboard_range_compressed_flag': False, 'invalid_line_flag': False, "
              '\'platform_position_parameters_update_flag\': \'repeat\'}]"'),
             ('value',
              'str',
              '"[[(\'sar_channel_id\', \'EnumInteger\', \'3\'), (\'sar_channel_code\', '
              "'EnumInteger', '6'), ('transmitted_pulse_polarization', 'EnumInteger', '2'), "
              "('received_pulse_polarization', 'EnumInteger', '9'), ('chirp_type_designator', "
              "'EnumInteger', '2'), ('onboard_range_compressed_flag', 'bool', 'True'), "
              "('invalid_line_flag', 'bool', 'True'), ('platform_position_parameters_update_flag', "
              "'EnumIntegerString', 'update')], {'sar_channel_id': 3, 'sar_channel_code': 6, "
              "'transmitted_pulse_polarization': 2, 'received_pulse_polarization': 9, "
              "'chirp_type_designator': 2, 'onboard_range_compressed_flag': True, "
              "'invalid_line_flag': True, 'platform_position_parameters_update_flag': "
              '\'update\'}]"'),
             ('value',
              'str',
              '"[[(\'sar_channel_id\', \'EnumInteger\', \'3\'), (\'sar_channel_code\', '
              "'EnumInteger', '6'), ('transmitted_pulse_polarization', 'EnumInteger', '2'), "
              "('received_pulse_polarization', 'EnumInteger', '9'), ('chirp_type_designator', "
              "'EnumInteger', '2'), ('onboard_range_compressed_flag', 'bool', 'True'), "
              "('invalid_line_flag', 'bool', 'True'), ('platform_position_parameters_update_flag', "
              "'EnumInteger', '7')], {'sar_channel_id': 3, 'sar_channel_code': 6, "
              "'transmitted_pulse_polarization': 2, 'received_pulse_polarization': 9, "
              "'chirp_type_designator': 2, 'onboard_range_compressed_flag': True, "
              '\'invalid_line_flag\': True, \'platform_position_parameters_update_flag\': 7}]"'),
             ('value',
              'str',
              '"[[(\'sar_channel_id\', \'EnumInteger\', \'3\'), (\'sar_channel_code\', '
              "'EnumInteger', '6'), ('transmitted_pulse_polarization', 'EnumInteger', '2'), "
              "('received_pulse_polarization', 'EnumInteger', '9')], {'sar_channel_id': 3, "
              "'sar_channel_code': 6, 'transmitted_pulse_polarization': 2, "
              '\'received_pulse_polarization\': 9}]"'),
             ('value',
              'str',
              '"[[(\'sar_channel_id\', \'EnumInteger\', \'3\'), (\'sar_channel_code\', '
              "'EnumInteger', '6'), ('transmitted_pulse_polarization', 'EnumInteger', '2'), "
              "('received_pulse_polarization', 'EnumInteger', '9')], {'sar_channel_id': 3, "
              "'sar_channel_code': 6, 'transmitted_pulse_polarization': 2, "
              '\'received_pulse_polarization\': 9}]"'),
             ('value',
              'str',
              '"[[(\'sar_channel_id\', \'EnumInteger\', \'3\'), (\'sar_channel_code\', '
              "'EnumInteger', '6'), ('transmitted_pulse_polarization', 'EnumInteger', '2'), "
              "('received_pulse_polarization', 'EnumInteger', '9')], {'sar_channel_id': 3, "
              "'sar_channel_code': 6, 'transmitted_pulse_polarization': 2, "
              '\'received_pulse_polarization\': 9}]"'),
             ('value',
              'str',
              '"[[(\'sar_channel_id\', \'EnumInteger\', \'65535\'), (\'sar_channel_code\', '
              "'EnumInteger', '65535'), ('transmitted_pulse_polarization', 'EnumInteger', "
              "'65535'), ('received_pulse_polarization', 'EnumInteger', '65535'), "
              "('chirp_type_designator', 'EnumInteger', '65535'), "
              "('onboard_range_compressed_flag', 'bool', 'False'), ('invalid_line_flag', 'bool', "
              "'False'), ('platform_position_parameters_update_flag', 'EnumIntegerString', "
              "'repeat')], {'sar_channel_id': 65535, 'sar_channel_code': 65535, "
              "'transmitted_pulse_polarization': 65535, 'received_pulse_polarization': 65535, "
              "'chirp_type_designator': 65535, 'onboard_range_compressed_flag': False, "
              "'invalid_line_flag': False, 'platform_position_parameters_update_flag': "
              '\'repeat\'}]"'),
             ('value',
              'str',
              '"[[(\'sar_channel_id\', \'EnumInteger\', \'65535\'), (\'sar_channel_code\', '
              "'EnumInteger', '65535'), ('transmitted_pulse_polarization', 'EnumInteger', "
              "'65535'), ('received_pulse_polarization', 'EnumInteger', '65535'), "
              "('chirp_type_designator', 'EnumInteger', '65535'), "
              "('onboard_range_compressed_flag', 'bool', 'True'), ('invalid_line_flag', 'bool', "
              "'True'), ('platform_position_parameters_update_flag', 'EnumIntegerString', "
              "'update')], {'sar_channel_id': 65535, 'sar_channel_code': 65535, "
              "'transmitted_pulse_polarization': 65535, 'received_pulse_polarization': 65535, "
              "'chirp_type_designator': 65535, 'onboard_range_compressed_flag': True, "
              "'invalid_line_flag': True, 'platform_position_parameters_update_flag': "
              '\'update\'}]"'),
             ('value',
              'str',
              '"[[(\'sar_channel_id\', \'EnumInteger\', \'65535\'), (\'sar_channel_code\', '
              "'EnumInteger', '65535'), ('transmitted_pulse_polarization', 'EnumInteger', "
              "'65535'), ('received_pulse_polarization', 'EnumInteger', '65535'), "
              "('chirp_type_designator', 'EnumInteger', '65535'), "
              "('onboard_range_compressed_flag', 'bool', 'True'), ('invalid_line_flag', 'bool', "
              "'True'), ('platform_position_parameters_update_flag', 'EnumInteger', '7')], "
              "{'sar_channel_id': 65535, 'sar_channel_code': 65535, "
              "'transmitted_pulse_polarization': 65535, 'received_pulse_polarization': 65535, "
              "'chirp_type_designator': 65535, 'onboard_range_compressed_flag': True, "
              '\'invalid_line_flag\': True, \'platform_position_parameters_update_flag\': 7}]"'),
             ('value',
              'str',
              '"[[(\'sar_channel_id\', \'EnumInteger\', \'65535\'), (\'sar_channel_code\', '
              "'EnumInteger', '65535'), ('transmitted_pulse_polarization', 'EnumInteger', "
              "'65535'), ('received_pulse_polarization', 'EnumInteger', '65535')], "
              "{'sar_channel_id': 65535, 'sar_channel_code': 65535, "
              "'transmitted_pulse_polarization': 65535, 'received_pulse_polarization': "
              '65535}]"'),
             ('value',
              'str',
              '"[[(\'sar_channel_id\', \'EnumInteger\', \'65535\'), (\'sar_channel_code\', '
              "'EnumInteger', '65535'), ('transmitted_pulse_polarization', 'EnumInteger', "
              "'65535'), ('received_pulse_polarization', 'EnumInteger', '65535')], "
              "{'sar_channel_id': 65535, 'sar_channel_code': 65535, "
              "'transmitted_pulse_polarization': 65535, 'received_pulse_polarization': "
              '65535}]"'),
             ('value',
              'str',
              '"[[(\'sar_channel_id\', \'EnumInteger\', \'65535\'), (\'sar_channel_code\', '
              "'EnumInteger', '65535'), ('transmitted_pulse_polarization', 'EnumInteger', "
              "'65535'), ('received_pulse_polarization', 'EnumInteger', '65535')], "
              "{'sar_channel_id': 65535, 'sar_channel_code': 65535, "
              "'transmitted_pulse_polarization': 65535, 'received_pulse_polarization': "
              '65535}]"')],
 'importable': [True, True, True, True, True, True, True, True, True, True, True, True]}


def flag_summary(cls, size):
    flag = cls(size)
    return repr(
        [
            type(flag).__name__,
            BASE_NAMES.get(id(flag.subcon), repr(flag.subcon)),
            sorted(k for k in vars(flag) if k != "docs"),
            flag.name,
            flag.flagbuildnone,
        ]
    )


def enum_summary(con):
    return repr(
        [
            type(con).__name__,
            BASE_NAMES.get(id(con.subcon), repr(con.subcon)),
            [(type(k).__name__, str(k), int(k), type(v).__name__, v) for k, v in con.encmapping.items()],
            [(type(k).__name__, k, type(v).__name__, str(v), int(v)) for k, v in con.decmapping.items()],
            [(type(k).__name__, k, type(v).__name__, v) for k, v in con.ksymapping.items()],
            sorted(k for k in vars(con) if k != "docs"),
        ]
    )


def record_bytes(kind, codes, flags=(0, 0), update=0):
    """A signal (10) or processed (11) data record with the given codes."""
    size = {10: 544, 11: 192}[kind]
    pixels = b"\x01\x02\x03\x04"
    body = bytearray(size)
    body[0:12] = struct.pack(">IBBBBI", 1, 50, kind, 18, 20, size + len(pixels))
    body[36:48] = struct.pack(">III", 2014, 217, 40669000)
    body[48:56] = struct.pack(">HHHH", *codes[:4])
    if kind == 10:
        body[64:68] = struct.pack(">HH", flags[0], codes[4])
        body[96:100] = struct.pack(">I", flags[1])
        body[128:132] = struct.pack(">I", update)
    return bytes(body) + pixels


def collect():
    results = {}

    # Flag: construction
    for cls in (enums.Flag, Custom, Extended):
        results[f"flag-init-{cls.__name__}"] = [
            outcome(flag_summary, cls, size) for size in SIZES
        ]
    log = []
    results["flag-init-loud"] = [outcome(flag_summary, enums.Flag, Loud(log)), list(log)]
    log = []
    results["flag-init-loud-missing"] = [outcome(flag_summary, Custom, Loud(log)), list(log)]
    results["flag-init-arguments"] = [
        outcome(enums.Flag),
        outcome(enums.Flag, 1, 2),
        outcome(lambda: enums.Flag(size=4).subcon is Int32ub),
        outcome(enums.Flag, n_bytes=4),
    ]
    # instance attributes do not shadow the table
    flag = enums.Flag(1)
    flag.bases = {}
    results["flag-instance-table"] = outcome(flag_summary, type(flag), 1)
    results["flag-table"] = repr(
        [(k, BASE_NAMES[id(v)]) for k, v in enums.Flag.bases.items()]
    )
    results["flag-members"] = sorted(vars(enums.Flag))
    results["flag-bases"] = [base.__name__ for base in enums.Flag.__mro__]
    results["flag-doc"] = enums.Flag.__doc__
    results["flag-signatures"] = [
        list(inspect.signature(getattr(enums.Flag, name)).parameters)
        for name in ("__init__", "_decode", "_encode")
    ]

    # Flag: parsing and building
    samples = {
        1: [b"\x00", b"\x01", b"\x0f", b"\xff", b"", b"\x00\x01"],
        2: [b"\x00\x00", b"\x00\x01", b"\x01\x00", b"\xff\xff", b"\x00"],
        4: [b"\x00\x00\x00\x00", b"\x00\x00\x01\x00", b"\x80\x00\x00\x00", b"\x00\x00\x00"],
        8: [b"\x00" * 8, b"\x00" * 7 + b"\x02", b"\xff" * 8, b"\x00" * 7],
    }
    results["flag-parse"] = {
        size: [outcome(enums.Flag(size).parse, data) for data in datas]
        for size, datas in samples.items()
    }
    values = [False, True, 0, 1, 2, 255, 256, -1, 1.0, 0.4, 1.9, "1", "0", "", "yes", None, b"1",
              [], [0], 2**64, float("nan"), float("inf")]
    results["flag-build"] = {
        size: [outcome(enums.Flag(size).build, value) for value in values]
        for size in (1, 2, 4, 8)
    }
    results["flag-sizeof"] = [outcome(enums.Flag(size).sizeof) for size in (1, 2, 4, 8)]
    results["flag-custom"] = [
        outcome(Custom(3).parse, b"\x00\x00\x01"),
        outcome(Custom(3).build, True),
        outcome(Custom("word").parse, b"\x00\x00"),
        outcome(Extended(3).parse, b"\x00\x00\x00"),
        outcome(Extended(8).build, 1),
    ]
    results["flag-decode-direct"] = [
        outcome(enums.Flag(1)._decode, obj, None, "path")
        for obj in (0, 1, -1, "", "0", None, [], [0], 0.0, float("nan"))
    ]
    results["flag-encode-direct"] = [
        outcome(enums.Flag(1)._encode, obj, None, "path")
        for obj in (False, True, 7, "12", " 3 ", 2.9, None, "x")
    ]
    framed = Struct("a" / enums.Flag(1), "b" / enums.Flag(2), "c" / enums.Flag(4))
    results["flag-struct"] = [
        outcome(lambda data=data: repr([(k, v) for k, v in framed.parse(data).items() if k != "_io"]))
        for data in (b"\x00\x00\x01\x00\x00\x00\x00", b"\x05\x00\x00\x00\x00\x00\x09", b"\x01\x00")
    ] + [
        outcome(framed.build, dict(a=True, b=False, c=1)),
        outcome(framed.build, dict(a=True, b=False)),
    ]

    # the enumerations
    for name in ENUMS:
        con = getattr(enums, name)
        width = con.sizeof()
        fmt = {2: ">H", 4: ">I"}[width]
        results[f"enum-{name}"] = enum_summary(con)
        parsed = []
        for code in (0, 1, 2, 3, 4, 5, 6, 7, 8, 255, 256, 2 ** (8 * width) - 1):
            def parse(code=code):
                value = con.parse(struct.pack(fmt, code))
                return repr([type(value).__name__, str(value), int(value), value == code,
                             value == str(value), hash(value) == hash(str(value))])
            parsed.append(outcome(parse))
        results[f"enum-parse-{name}"] = parsed
        results[f"enum-parse-short-{name}"] = [outcome(con.parse, b"\x00" * n) for n in (0, 1, 3)]
        symbols = ["single_polarization", "dual_polarization", "full_polarization", "L", "S", "C",
                   "X", "KU", "KA", "horizontal", "vertical", "linear_fm_chirp",
                   "phase_modulators", "repeat", "update", "l", "", "0", "_SarChannelId", "name",
                   "value", 0, 1, 2, 3, 4, 5, 6, 65535, 65536, -1, 1.0, None, True, b"L"]
        results[f"enum-build-{name}"] = [outcome(con.build, symbol) for symbol in symbols]
        results[f"enum-getattr-{name}"] = [
            outcome(lambda symbol=symbol: repr([getattr(con, symbol), int(getattr(con, symbol))]))
            for symbol in symbols
            if isinstance(symbol, str)
        ]
        results[f"enum-roundtrip-{name}"] = [
            outcome(lambda code=code: con.build(con.parse(struct.pack(fmt, code))))
            for code in (0, 1, 2, 4, 9)
        ]
    results["enum-distinct"] = len({id(getattr(enums, name)) for name in ENUMS})

    # in the records
    records = []
    for codes in [(1, 0, 0, 0, 0), (2, 5, 1, 1, 1), (4, 3, 0, 1, 0), (3, 6, 2, 9, 2),
                  (65535, 65535, 65535, 65535, 65535)]:
        for kind, record in ((10, signal_data_record), (11, processed_data_record)):
            for flags, update in (((0, 0), 0), ((1, 1), 1), ((256, 2**31), 7)):
                def parse(record=record, kind=kind, codes=codes, flags=flags, update=update):
                    parsed = record.parse(record_bytes(kind, codes, flags, update))
                    names = ["sar_channel_id", "sar_channel_code", "transmitted_pulse_polarization",
                             "received_pulse_polarization", "chirp_type_designator",
                             "onboard_range_compressed_flag", "invalid_line_flag",
                             "platform_position_parameters_update_flag"]
                    picked = {n: parsed[n] for n in names if n in parsed}
                    return repr([[(n, type(v).__name__, str(v)) for n, v in picked.items()],
                                 to_dict(picked)])
                records.append(outcome(parse))
    results["records"] = records
    results["importable"] = [hasattr(enums, name) for name in
                             ["Adapter", "Enum", "Int8ub", "Int16ub", "Int32ub", "Int64ub", "Flag",
                              *ENUMS]]
    return results


def test_equivalent():
    results = collect()
    assert sorted(map(str, results)) == sorted(map(str, EXPECTED))
    for key, expected in EXPECTED.items():
        assert results[key] == expected, key


if __name__ == "__main__":
    import sys

    if sys.argv[1:] == ["--record"]:
        import pprint

        pprint.pprint(collect(), width=100, sort_dicts=False)
    else:
        test_equivalent()
        print("ok")
