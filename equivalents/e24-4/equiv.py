"""Equivalence check for refactoring 4 (ceos_alos2/sar_leader/map_projection.py).

Run as

    cd /tmp/wt4/e24 && PYTHONPATH=/tmp/wt4/e24 /venv/bin/python _eq/4/equiv.py

(or through pytest).  Covers ``filter_map_projection``,
``transform_general_info``, ``transform_corner_points`` and, end to end,
``transform_map_projection`` on records parsed from synthesised bytes with every
projection designator.  Every case renders the result (or the exception type
and message) together with the state of the arguments after the call into a
type-, order- and value-sensitive string and compares it with the string
recorded from the unchanged code.
"""
# --------------------------------------------------------------------------
# generic harness: canonical, type-aware rendering of results + byte synthesis
# --------------------------------------------------------------------------
import math
import os
import struct as _struct
import sys

import construct
import numpy as np

HERE = os.path.dirname(os.path.abspath(__file__))
ROOT = os.path.dirname(os.path.dirname(HERE))
if ROOT not in sys.path:
    sys.path.insert(0, ROOT)

from ceos_alos2 import datatypes  # noqa: E402
from ceos_alos2.hierarchy import Group, Variable  # noqa: E402
from ceos_alos2.utils import to_dict  # noqa: E402


def canon(obj):
    """Render ``obj`` as a string that is sensitive to types, order and values."""
    if isinstance(obj, Group):
        return (
            f"Group(path={obj.path!r}, url={obj.url!r},"
            f" attrs={canon(obj.attrs)}, data={canon(obj.data)})"
        )
    if isinstance(obj, Variable):
        return f"Variable(dims={canon(obj.dims)}, data={canon(obj.data)}, attrs={canon(obj.attrs)})"
    if isinstance(obj, np.ndarray):
        if obj.dtype.kind in "mM":
            values = obj.astype("int64").tolist()
        else:
            values = obj.tolist()
        return f"ndarray[{obj.dtype.str}, {obj.shape}]({canon(values)})"
    if isinstance(obj, np.generic):
        return f"{type(obj).__name__}({obj!r})"
    if isinstance(obj, dict):
        items = ", ".join(f"{canon(k)}: {canon(v)}" for k, v in obj.items())
        return f"{type(obj).__name__}{{{items}}}"
    if isinstance(obj, (list, tuple)):
        items = ", ".join(canon(v) for v in obj)
        return f"{type(obj).__name__}[{items}]"
    if isinstance(obj, float):
        if math.isnan(obj):
            return "float(nan)"
        return f"float({obj!r})"
    if isinstance(obj, complex):
        return f"complex({canon(obj.real)}, {canon(obj.imag)})"
    if isinstance(obj, BaseException):
        return f"raised {type(obj).__module__}.{type(obj).__qualname__}({str(obj)!r})"
    if obj is None or isinstance(obj, (bool, int, str, bytes)):
        return f"{type(obj).__name__}({obj!r})"
    return f"<{type(obj).__module__}.{type(obj).__qualname__}>"


def outcome(func, *args, **kwargs):
    """Call ``func`` and render result (or exception) and the arguments afterwards."""
    try:
        result = func(*args, **kwargs)
    except Exception as e:  # noqa: BLE001
        result = e
    return f"{canon(result)} || args after: {canon(list(args))} {canon(kwargs)}"


# --- byte synthesis for the fixed-width construct definitions -------------


def _width(con):
    return con.sizeof()


def synth(con, counter, overrides=None, path=""):
    """Build bytes that ``con`` parses, numbering the fields with ``counter``."""
    overrides = overrides or {}
    if isinstance(con, construct.Renamed):
        new_path = f"{path}.{con.name}" if path else con.name
        if new_path in overrides:
            return overrides[new_path]
        return synth(con.subcon, counter, overrides, new_path)
    if isinstance(con, construct.Struct):
        return b"".join(synth(sub, counter, overrides, path) for sub in con.subcons)
    if isinstance(con, construct.Array):
        return b"".join(
            synth(con.subcon, counter, overrides, f"{path}[{i}]") for i in range(con.count)
        )
    if isinstance(con, construct.Enum):
        choices = list(con.encmapping.values())
        value = choices[next(counter) % len(choices)]
        n = _width(con.subcon)
        if isinstance(value, int):
            return str(value).rjust(n).encode("ascii")
        return str(value).ljust(n).encode("ascii")
    if isinstance(con, (datatypes.Metadata, datatypes.Factor)):
        return synth(con.subcon, counter, overrides, path)
    if isinstance(con, datatypes.AsciiComplex):
        return synth(con.subcon, counter, overrides, path)
    if isinstance(con, datatypes.AsciiInteger):
        n = _width(con)
        i = next(counter)
        if i % 11 == 10:
            return b" " * n
        return str(i % 10 ** min(n, 6)).rjust(n).encode("ascii")
    if isinstance(con, datatypes.AsciiFloat):
        n = _width(con)
        i = next(counter)
        if i % 13 == 12:
            return b" " * n
        text = f"{(-1) ** i * (i + 0.25) * 1.5:.{max(n - 9, 1)}E}" if n >= 14 else f"{i % 90}.5"
        return text.rjust(n).encode("ascii")[:n]
    if isinstance(con, datatypes.PaddedString):
        n = _width(con)
        i = next(counter)
        return f"s{i}".ljust(n).encode("ascii")[:n]
    if isinstance(con, construct.FormatField):
        return _struct.pack(con.fmtstr, next(counter) % 200)
    raise TypeError(f"cannot synthesise {con!r} at {path}")


def describe(con, depth=0):
    """Structural fingerprint of a construct definition (names, classes, sizes, attrs)."""
    if isinstance(con, construct.Renamed):
        return f"{con.name!r}/" + describe(con.subcon, depth)
    if isinstance(con, construct.Struct):
        inner = ", ".join(describe(sub, depth + 1) for sub in con.subcons)
        return f"Struct({inner})"
    if isinstance(con, construct.Array):
        count = con.count if isinstance(con.count, int) else "<expr>"
        return f"Array[{count}]({describe(con.subcon, depth + 1)})"
    if isinstance(con, construct.Enum):
        return f"Enum({describe(con.subcon)}, {sorted(con.encmapping.items(), key=repr)!r})"
    if isinstance(con, datatypes.Metadata):
        return f"Metadata({describe(con.subcon)}, {con.attrs!r})"
    if isinstance(con, datatypes.Factor):
        return f"Factor({describe(con.subcon)}, {con.factor!r})"
    if isinstance(con, datatypes.AsciiComplex):
        return f"AsciiComplex({describe(con.subcon)})"
    if isinstance(con, (datatypes.AsciiInteger, datatypes.AsciiFloat, datatypes.PaddedString)):
        try:
            size = con.sizeof()
        except Exception:  # noqa: BLE001 - size depends on the parsing context
            size = "<expr>"
        return f"{type(con).__name__}({size})"
    if isinstance(con, construct.FormatField):
        return f"FormatField({con.fmtstr!r})"
    return f"<{type(con).__name__}>"


def counter_from(start):
    import itertools

    return itertools.count(start)


def shorten(text, limit=400):
    """Keep the recording small: long renderings become head + length + sha256."""
    if len(text) <= limit:
        return text
    import hashlib

    digest = hashlib.sha256(text.encode("utf-8")).hexdigest()
    return f"{text[:limit]} ... [{len(text)} chars, sha256 {digest}]"


def report(cases, expected):
    """Evaluate ``cases`` (name -> thunk returning str) against ``expected``."""
    actual = {name: shorten(thunk()) for name, thunk in cases.items()}
    if "--record" in sys.argv:
        import pprint

        with open(os.path.join(HERE, "expected.txt"), "w") as f:
            f.write("EXPECTED = " + pprint.pformat(actual, width=110, sort_dicts=False) + "\n")
        print(f"recorded {len(actual)} cases")
        return []

    failures = []
    if list(actual) != list(expected):
        failures.append(f"case names differ: {sorted(set(actual) ^ set(expected))}")
    for name, value in actual.items():
        if expected.get(name) != value:
            failures.append(f"{name}:\n  expected {expected.get(name)}\n  actual   {value}")
    return failures


# --------------------------------------------------------------------------
# cases: ceos_alos2.sar_leader.map_projection
# --------------------------------------------------------------------------
import collections  # noqa: E402

from ceos_alos2.sar_leader import map_projection as mp  # noqa: E402

CASES = {}

# --- filter_map_projection ---------------------------------------------------------


def sections(designator, keys=("utm_projection", "ups_projection", "national_system_projection")):
    mapping = {"general": {"a": 1}}
    if designator is not ...:
        mapping["map_projection_designator"] = designator
    for index, key in enumerate(keys):
        mapping[key] = {"type": key, "index": index}
    mapping["corner_points"] = {"b": 2}
    return mapping


def filter_case(mapping):
    def thunk():
        try:
            result = mp.filter_map_projection(mapping)
        except Exception as e:  # noqa: BLE001
            return f"{canon(e)} || mapping after: {canon(mapping)}"
        return f"same object: {result is mapping} || {canon(result)} || mapping after: {canon(mapping)}"

    return thunk


for _designator in [
    "UTM-PROJECTION",
    "UPS-PROJECTION",
    "LCC-PROJECTION",
    "MER-PROJECTION",
    "utm-x",
    "Ups-",
    "lCc-a-b-c",
    "mer--",
    "XYZ-PROJECTION",
    "-",
    "-utm",
    " utm-x",
    "utm -x",
    "utmx-y",
    "ut-m",
    "UTM",
    "",
    "GEOREF",
    "UTM_PROJECTION",
    "ＵＴＭ-fullwidth",
    "projection-utm",
    "none-x",
]:
    CASES[f"filter/designator {_designator!r}"] = filter_case(sections(_designator))
CASES["filter/no designator"] = filter_case(sections(...))
CASES["filter/designator None"] = filter_case(sections(None))
CASES["filter/empty mapping"] = filter_case({})
CASES["filter/only designator"] = filter_case({"map_projection_designator": "UPS-X"})
CASES["filter/integer designator"] = filter_case(sections(5))
CASES["filter/bytes designator"] = filter_case(sections(b"UTM-X"))
CASES["filter/list designator"] = filter_case(sections(["UTM-X"]))
CASES["filter/tuple metadata designator"] = filter_case(sections(("UTM-X", {})))
for _keys in [
    ("utm_projection",),
    ("ups_projection", "utm_projection"),
    ("national_system_projection", "ups_projection", "utm_projection"),
    (),
]:
    for _designator in ["UTM-A", "UPS-A", "LCC-A", "MER-A", "ABC-A"]:
        CASES[f"filter/{_designator} with sections {_keys}"] = filter_case(
            sections(_designator, _keys)
        )
CASES["filter/designator last"] = filter_case(
    {"utm_projection": {"a": 1}, "ups_projection": {"b": 1}, "map_projection_designator": "UPS-1"}
)
CASES["filter/existing projection key before"] = filter_case(
    {"projection": "old", "map_projection_designator": "UTM-1", "utm_projection": "new"}
)
CASES["filter/existing projection key after"] = filter_case(
    {"map_projection_designator": "UTM-1", "utm_projection": "new", "projection": "old"}
)
CASES["filter/None key with unknown designator"] = filter_case(
    {"map_projection_designator": "ABC-1", None: "none-value", "utm_projection": 1}
)
CASES["filter/None key with known designator"] = filter_case(
    {"map_projection_designator": "UTM-1", None: "none-value", "utm_projection": 1}
)
CASES["filter/non-string keys"] = filter_case(
    {"map_projection_designator": "LCC-1", 1: 2, ("a", "b"): 3, "national_system_projection": 4}
)
CASES["filter/ordered dict"] = filter_case(
    collections.OrderedDict(sections("MER-1", ("national_system_projection", "utm_projection")))
)
CASES["filter/list instead of mapping"] = filter_case(["map_projection_designator"])
CASES["filter/None instead of mapping"] = filter_case(None)


# --- transform_general_info -------------------------------------------------------

for _name, _mapping in {
    "typical": {
        "map_projection_type": "GEOREFERENCE",
        "number_of_pixels_per_line": 100,
        "number_of_lines": 200,
        "inter_line_distance_in_output_scene": (2.5, {"units": "m"}),
    },
    "empty": {},
    "unrelated": {"a": 1, "b": 2},
    "only lines": {"number_of_lines": -1},
    "clash, new name first": {"n_columns": "old", "number_of_pixels_per_line": "new"},
    "clash, new name last": {"number_of_lines": "new", "n_rows": "old"},
    "non-string keys": {1: 2, None: 3, ("number_of_lines",): 4},
    "ordered dict": collections.OrderedDict(number_of_lines=1, z=2, number_of_pixels_per_line=3),
}.items():
    CASES[f"general/{_name}"] = lambda m=_mapping: outcome(mp.transform_general_info, m)
CASES["general/list"] = lambda: outcome(mp.transform_general_info, [("number_of_lines", 1)])
CASES["general/None"] = lambda: outcome(mp.transform_general_info, None)
CASES["general/unhashable check"] = lambda: canon(
    mp.transform_general_info({"number_of_lines": [1, 2]})
)


# --- transform_corner_points --------------------------------------------------------

CORNERS = ["top_left_corner", "top_right_corner", "bottom_right_corner", "bottom_left_corner"]


def corner_section(names, units, offset=0, corners=CORNERS):
    return {
        corner: {
            name: (float(offset + 10 * i + j), {"units": unit})
            for j, (name, unit) in enumerate(zip(names, units))
        }
        for i, corner in enumerate(corners)
    }


def corner_mapping(**kwargs):
    return {
        "projected": corner_section(["northing", "easting"], ["km", "km"], **kwargs),
        "geographic": corner_section(["latitude", "longitude"], ["deg", "deg"], 100, **kwargs),
        "terrain_heights_relative_to_ellipsoid": {
            corner: (float(i), {"units": "deg"}) for i, corner in enumerate(CORNERS)
        },
    }


def corners_case(mapping):
    return lambda: outcome(mp.transform_corner_points, mapping)


CASES["corners/typical"] = corners_case(corner_mapping())
CASES["corners/reversed corner order in input"] = corners_case(
    corner_mapping(corners=list(reversed(CORNERS)))
)
CASES["corners/extra corner keys are ignored"] = corners_case(
    corner_mapping(corners=["center"] + CORNERS + ["other_corner"])
)
CASES["corners/missing corner"] = corners_case(corner_mapping(corners=CORNERS[:3]))
CASES["corners/without terrain heights"] = corners_case(
    {k: v for k, v in corner_mapping().items() if k != "terrain_heights_relative_to_ellipsoid"}
)
CASES["corners/only terrain heights"] = corners_case(
    {"terrain_heights_relative_to_ellipsoid": {"a": 1}}
)
CASES["corners/empty"] = corners_case({})
CASES["corners/only geographic"] = corners_case({"geographic": corner_mapping()["geographic"]})
CASES["corners/geographic before projected"] = corners_case(
    dict(reversed(list(corner_mapping().items())))
)
CASES["corners/other sections get no corner coordinate"] = corners_case(
    {
        "geocentric": corner_section(["x", "y", "z"], ["m", "m", "m"]),
        "projected": corner_section(["northing"], ["km"]),
    }
)
CASES["corners/component named corner wins over the coordinate"] = corners_case(
    {"projected": corner_section(["northing", "corner"], ["km", "-"])}
)
CASES["corners/component named corner first"] = corners_case(
    {"geographic": corner_section(["corner", "latitude"], ["-", "deg"])}
)
CASES["corners/components differ between corners"] = corners_case(
    {
        "projected": {
            "top_left_corner": {"northing": (1.0, {"units": "km"})},
            "top_right_corner": {"northing": (2.0, {"units": "m"}), "easting": (3.0, {"units": "km"})},
            "bottom_right_corner": {"easting": (4.0, {"units": "cm"})},
            "bottom_left_corner": {},
        }
    }
)
CASES["corners/empty corners"] = corners_case({"projected": {corner: {} for corner in CORNERS}})
CASES["corners/values without metadata"] = corners_case(
    {"projected": {corner: {"northing": 1.0} for corner in CORNERS}}
)
CASES["corners/values are three-tuples"] = corners_case(
    {"projected": {corner: {"northing": (1.0, {"u": 1}, "x")} for corner in CORNERS}}
)
CASES["corners/values are empty tuples"] = corners_case(
    {"projected": {corner: {"northing": ()} for corner in CORNERS}}
)
CASES["corners/values are strings"] = corners_case(
    {"projected": {corner: {"northing": "ab"} for corner in CORNERS}}
)
CASES["corners/corner is a scalar"] = corners_case(
    {"projected": {corner: 1.0 for corner in CORNERS}}
)
CASES["corners/section is a scalar"] = corners_case({"projected": 1})
CASES["corners/section is a list"] = corners_case({"projected": [1, 2, 3, 4]})
CASES["corners/section is a long list"] = corners_case({"other": list(range(40))})
CASES["corners/section is None"] = corners_case({"geographic": None})
CASES["corners/not a mapping"] = corners_case([1])
CASES["corners/None"] = corners_case(None)
CASES["corners/ordered dict"] = corners_case(collections.OrderedDict(corner_mapping()))


def corners_identity():
    mapping = corner_mapping()
    first_metadata = mapping["projected"]["top_left_corner"]["northing"][1]
    result = mp.transform_corner_points(mapping)
    other = mp.transform_corner_points(mapping)
    p, g = result["projected"]["corner"], result["geographic"]["corner"]
    return canon(
        {
            "coordinate list shared between sections": p[1] is g[1],
            "coordinate list fresh per call": other["projected"]["corner"][1] is not p[1],
            "tuples distinct": p is not g,
            "dims distinct": p[0] is not g[0],
            "attrs distinct": p[2] is not g[2],
            "variable dims distinct": result["projected"]["northing"][0]
            is not result["projected"]["easting"][0],
            "metadata is first corner's": result["projected"]["northing"][2] is first_metadata,
            "types": [type(result).__name__, type(result["projected"]).__name__, type(p).__name__],
            "input untouched": canon(mapping),
        }
    )


CASES["corners/identity"] = corners_identity


# --- transform_map_projection (end to end) -----------------------------------------------


def record(start, designator, overrides=None):
    overrides = {"map_projection_designator": designator.ljust(32).encode()} | (overrides or {})
    data = synth(mp.map_projection_record, counter_from(start), overrides)
    return to_dict(mp.map_projection_record.parse(data))


def projection_case(mapping):
    return lambda: outcome(mp.transform_map_projection, mapping)


CASES["record/describe"] = lambda: describe(mp.map_projection_record)
CASES["record/sizeof"] = lambda: canon(mp.map_projection_record.sizeof())
for _start, _designator in [
    (1, "UTM-PROJECTION"),
    (2, "UPS-PROJECTION"),
    (3, "LCC-PROJECTION"),
    (4, "MER-PROJECTION"),
    (5, "utm-lower"),
    (60, "XXX-UNKNOWN"),
    (700, "NODASH"),
    (8000, ""),
    (9, "-"),
]:
    CASES[f"record/parsed {_designator!r} from {_start}"] = lambda s=_start, d=_designator: canon(
        record(s, d)
    )
    CASES[f"projection/parsed {_designator!r} from {_start}"] = projection_case(
        record(_start, _designator)
    )
    CASES[f"filter/parsed {_designator!r} from {_start}"] = filter_case(record(_start, _designator))
    CASES[f"corners/parsed {_designator!r} from {_start}"] = corners_case(
        record(_start, _designator)["corner_points"]
    )
CASES["projection/empty"] = projection_case({})
CASES["projection/only preamble and blanks"] = projection_case({"preamble": {"a": 1}, "blanks": ""})
CASES["projection/without designator keeps all projections"] = projection_case(
    {k: v for k, v in record(1, "UTM-X").items() if k != "map_projection_designator"}
)
CASES["projection/without corner points"] = projection_case(
    {k: v for k, v in record(2, "UPS-X").items() if k != "corner_points"}
)
CASES["projection/minimal"] = projection_case(
    {
        "map_projection_designator": "LCC-X",
        "national_system_projection": {"projection_descriptor": "abc", "map_origin": {"a": 1}},
        "map_projection_general_information": {"number_of_lines": 3},
    }
)
CASES["projection/not a mapping"] = projection_case([1])


# --------------------------------------------------------------------------
# expectations recorded from the UNCHANGED code (git HEAD 405b008), `--record`
# --------------------------------------------------------------------------
# fmt: off
EXPECTED = {"filter/designator 'UTM-PROJECTION'": "same object: False || dict{str('general'): dict{str('a'): int(1)}, "
                                       "str('projection'): dict{str('type'): str('utm_projection'), "
                                       "str('index'): int(0)}, str('corner_points'): dict{str('b'): int(2)}} "
                                       "|| mapping after: dict{str('general'): dict{str('a'): int(1)}, "
                                       "str('map_projection_designator'): str('UTM-PROJECTION'), "
                                       "str('utm_projection'): dict{str('type'): str('utm_projection'), "
                                       "str('index'): int(0) ... [646 chars, sha256 "
                                       '2b3a1e65193e19408838c61830f1917e186237b5b3d9011d6f7cd2f729d9e946]',
 "filter/designator 'UPS-PROJECTION'": "same object: False || dict{str('general'): dict{str('a'): int(1)}, "
                                       "str('projection'): dict{str('type'): str('ups_projection'), "
                                       "str('index'): int(1)}, str('corner_points'): dict{str('b'): int(2)}} "
                                       "|| mapping after: dict{str('general'): dict{str('a'): int(1)}, "
                                       "str('map_projection_designator'): str('UPS-PROJECTION'), "
                                       "str('utm_projection'): dict{str('type'): str('utm_projection'), "
                                       "str('index'): int(0) ... [646 chars, sha256 "
                                       'fcf798df5565d125f6d727b9995c78194336000096113acc640138e5d1c8ee02]',
 "filter/designator 'LCC-PROJECTION'": "same object: False || dict{str('general'): dict{str('a'): int(1)}, "
                                       "str('projection'): dict{str('type'): "
                                       "str('national_system_projection'), str('index'): int(2)}, "
                                       "str('corner_points'): dict{str('b'): int(2)}} || mapping after: "
                                       "dict{str('general'): dict{str('a'): int(1)}, "
                                       "str('map_projection_designator'): str('LCC-PROJECTION'), "
                                       "str('utm_projection'): dict{str('type'): str('utm_projection'), "
                                       "str('ind ... [658 chars, sha256 "
                                       'c64414d22ba6b50ee5a4d5fbc1cf0a9f9f3d0381241ad58fdef983b3ea43f121]',
 "filter/designator 'MER-PROJECTION'": "same object: False || dict{str('general'): dict{str('a'): int(1)}, "
                                       "str('projection'): dict{str('type'): "
                                       "str('national_system_projection'), str('index'): int(2)}, "
                                       "str('corner_points'): dict{str('b'): int(2)}} || mapping after: "
                                       "dict{str('general'): dict{str('a'): int(1)}, "
                                       "str('map_projection_designator'): str('MER-PROJECTION'), "
                                       "str('utm_projection'): dict{str('type'): str('utm_projection'), "
                                       "str('ind ... [658 chars, sha256 "
                                       'dfa43755706030670ce7a8d9cdd6d8d8dd59b2cf63b9420018afa0c824ba3fce]',
 "filter/designator 'utm-x'": "same object: False || dict{str('general'): dict{str('a'): int(1)}, "
                              "str('projection'): dict{str('type'): str('utm_projection'), str('index'): "
                              "int(0)}, str('corner_points'): dict{str('b'): int(2)}} || mapping after: "
                              "dict{str('general'): dict{str('a'): int(1)}, "
                              "str('map_projection_designator'): str('utm-x'), str('utm_projection'): "
                              "dict{str('type'): str('utm_projection'), str('index'): int(0)}, str('u ... "
                              '[637 chars, sha256 '
                              '5519ca82322f810d330f52523603005994ba94a836a96eb53cdf825fff6f8b18]',
 "filter/designator 'Ups-'": "same object: False || dict{str('general'): dict{str('a'): int(1)}, "
                             "str('projection'): dict{str('type'): str('ups_projection'), str('index'): "
                             "int(1)}, str('corner_points'): dict{str('b'): int(2)}} || mapping after: "
                             "dict{str('general'): dict{str('a'): int(1)}, str('map_projection_designator'): "
                             "str('Ups-'), str('utm_projection'): dict{str('type'): str('utm_projection'), "
                             "str('index'): int(0)}, str('up ... [636 chars, sha256 "
                             '38a3187ca66fc02cb13a024f341636f086c707e0358ea4f4a06bf65de9c42324]',
 "filter/designator 'lCc-a-b-c'": "same object: False || dict{str('general'): dict{str('a'): int(1)}, "
                                  "str('projection'): dict{str('type'): str('national_system_projection'), "
                                  "str('index'): int(2)}, str('corner_points'): dict{str('b'): int(2)}} || "
                                  "mapping after: dict{str('general'): dict{str('a'): int(1)}, "
                                  "str('map_projection_designator'): str('lCc-a-b-c'), "
                                  "str('utm_projection'): dict{str('type'): str('utm_projection'), "
                                  "str('index'): ... [653 chars, sha256 "
                                  '795380f79a498cc8220f0a4eff5d7ea4ec57ad74ba4971f9e0e4fe82d72521fe]',
 "filter/designator 'mer--'": "same object: False || dict{str('general'): dict{str('a'): int(1)}, "
                              "str('projection'): dict{str('type'): str('national_system_projection'), "
                              "str('index'): int(2)}, str('corner_points'): dict{str('b'): int(2)}} || "
                              "mapping after: dict{str('general'): dict{str('a'): int(1)}, "
                              "str('map_projection_designator'): str('mer--'), str('utm_projection'): "
                              "dict{str('type'): str('utm_projection'), str('index'): int ... [649 chars, "
                              'sha256 8671c2a9a7e70f0ebadfed662267d3dd91eb53725c29b79ccc87a9925b3cdee7]',
 "filter/designator 'XYZ-PROJECTION'": "same object: False || dict{str('general'): dict{str('a'): int(1)}, "
                                       "str('corner_points'): dict{str('b'): int(2)}} || mapping after: "
                                       "dict{str('general'): dict{str('a'): int(1)}, "
                                       "str('map_projection_designator'): str('XYZ-PROJECTION'), "
                                       "str('utm_projection'): dict{str('type'): str('utm_projection'), "
                                       "str('index'): int(0)}, str('ups_projection'): dict{str('type'): "
                                       "str('ups_projection'), str('index'): in ... [563 chars, sha256 "
                                       '298fd2fd41c0ba5b7f0a01f0cfe1d51464f49fa0302d04d7de5efb3e2c0ac022]',
 "filter/designator '-'": "same object: False || dict{str('general'): dict{str('a'): int(1)}, "
                          "str('corner_points'): dict{str('b'): int(2)}} || mapping after: "
                          "dict{str('general'): dict{str('a'): int(1)}, str('map_projection_designator'): "
                          "str('-'), str('utm_projection'): dict{str('type'): str('utm_projection'), "
                          "str('index'): int(0)}, str('ups_projection'): dict{str('type'): "
                          "str('ups_projection'), str('index'): int(1)}, str('n ... [550 chars, sha256 "
                          '3c0c4a916065965affe7fa2b19886c3e8c7d6820287d20efdaad03c54b09a3e4]',
 "filter/designator '-utm'": "same object: False || dict{str('general'): dict{str('a'): int(1)}, "
                             "str('corner_points'): dict{str('b'): int(2)}} || mapping after: "
                             "dict{str('general'): dict{str('a'): int(1)}, str('map_projection_designator'): "
                             "str('-utm'), str('utm_projection'): dict{str('type'): str('utm_projection'), "
                             "str('index'): int(0)}, str('ups_projection'): dict{str('type'): "
                             "str('ups_projection'), str('index'): int(1)}, str ... [553 chars, sha256 "
                             '4b1608c851e5ab89461aa2546f2e346db3887f471fa2d53fe91932eb250b12af]',
 "filter/designator ' utm-x'": "same object: False || dict{str('general'): dict{str('a'): int(1)}, "
                               "str('corner_points'): dict{str('b'): int(2)}} || mapping after: "
                               "dict{str('general'): dict{str('a'): int(1)}, "
                               "str('map_projection_designator'): str(' utm-x'), str('utm_projection'): "
                               "dict{str('type'): str('utm_projection'), str('index'): int(0)}, "
                               "str('ups_projection'): dict{str('type'): str('ups_projection'), "
                               "str('index'): int(1)}, s ... [555 chars, sha256 "
                               '1fd2764b8bebfdc456110d17436d316c8a54c147b48f2cdf369d041628d12274]',
 "filter/designator 'utm -x'": "same object: False || dict{str('general'): dict{str('a'): int(1)}, "
                               "str('corner_points'): dict{str('b'): int(2)}} || mapping after: "
                               "dict{str('general'): dict{str('a'): int(1)}, "
                               "str('map_projection_designator'): str('utm -x'), str('utm_projection'): "
                               "dict{str('type'): str('utm_projection'), str('index'): int(0)}, "
                               "str('ups_projection'): dict{str('type'): str('ups_projection'), "
                               "str('index'): int(1)}, s ... [555 chars, sha256 "
                               '2eea235c427c1d3e875028c82bd4a3f353f19095f119d74bb1a1deac3c3cad58]',
 "filter/designator 'utmx-y'": "same object: False || dict{str('general'): dict{str('a'): int(1)}, "
                               "str('corner_points'): dict{str('b'): int(2)}} || mapping after: "
                               "dict{str('general'): dict{str('a'): int(1)}, "
                               "str('map_projection_designator'): str('utmx-y'), str('utm_projection'): "
                               "dict{str('type'): str('utm_projection'), str('index'): int(0)}, "
                               "str('ups_projection'): dict{str('type'): str('ups_projection'), "
                               "str('index'): int(1)}, s ... [555 chars, sha256 "
                               'da949242ed3b90fec1db05511b9dfe64ab84c0d312a91193e9cda85280aff68c]',
 "filter/designator 'ut-m'": "same object: False || dict{str('general'): dict{str('a'): int(1)}, "
                             "str('corner_points'): dict{str('b'): int(2)}} || mapping after: "
                             "dict{str('general'): dict{str('a'): int(1)}, str('map_projection_designator'): "
                             "str('ut-m'), str('utm_projection'): dict{str('type'): str('utm_projection'), "
                             "str('index'): int(0)}, str('ups_projection'): dict{str('type'): "
                             "str('ups_projection'), str('index'): int(1)}, str ... [553 chars, sha256 "
                             '15e6eba0a14a394ecdb2622b54a550fca3b4ee7540a4ef7f921eacd0cc09e200]',
 "filter/designator 'UTM'": "raised builtins.ValueError('not enough values to unpack (expected 2, got 1)') "
                            "|| mapping after: dict{str('general'): dict{str('a'): int(1)}, "
                            "str('map_projection_designator'): str('UTM'), str('utm_projection'): "
                            "dict{str('type'): str('utm_projection'), str('index'): int(0)}, "
                            "str('ups_projection'): dict{str('type'): str('ups_projection'), str('index'): "
                            "int(1)}, str('national_system_projection'): dict ... [517 chars, sha256 "
                            '86f31230029e5a2f3330e39f1fea1731bdea62e6a650f9502859faae07a5fea8]',
 "filter/designator ''": "raised builtins.ValueError('not enough values to unpack (expected 2, got 1)') || "
                         "mapping after: dict{str('general'): dict{str('a'): int(1)}, "
                         "str('map_projection_designator'): str(''), str('utm_projection'): "
                         "dict{str('type'): str('utm_projection'), str('index'): int(0)}, "
                         "str('ups_projection'): dict{str('type'): str('ups_projection'), str('index'): "
                         "int(1)}, str('national_system_projection'): dict{st ... [514 chars, sha256 "
                         'e03c5581e03835a7ba30f5b4a0e8ceca3da6a8fc6345a99ffc6f457f6a605176]',
 "filter/designator 'GEOREF'": "raised builtins.ValueError('not enough values to unpack (expected 2, got "
                               "1)') || mapping after: dict{str('general'): dict{str('a'): int(1)}, "
                               "str('map_projection_designator'): str('GEOREF'), str('utm_projection'): "
                               "dict{str('type'): str('utm_projection'), str('index'): int(0)}, "
                               "str('ups_projection'): dict{str('type'): str('ups_projection'), "
                               "str('index'): int(1)}, str('national_system_projection'): d ... [520 chars, "
                               'sha256 07237acfa6ea8fab5bbd9ee4323c3811613fb649df255176409e08049581e266]',
 "filter/designator 'UTM_PROJECTION'": "raised builtins.ValueError('not enough values to unpack (expected 2, "
                                       "got 1)') || mapping after: dict{str('general'): dict{str('a'): "
                                       "int(1)}, str('map_projection_designator'): str('UTM_PROJECTION'), "
                                       "str('utm_projection'): dict{str('type'): str('utm_projection'), "
                                       "str('index'): int(0)}, str('ups_projection'): dict{str('type'): "
                                       "str('ups_projection'), str('index'): int(1)}, "
                                       "str('national_system_project ... [528 chars, sha256 "
                                       'bbcd2fe2946c06d175de3c22096535addb66c6f741d1d3efe01f9f417966d35d]',
 "filter/designator 'ＵＴＭ-fullwidth'": "same object: False || dict{str('general'): dict{str('a'): int(1)}, "
                                      "str('corner_points'): dict{str('b'): int(2)}} || mapping after: "
                                      "dict{str('general'): dict{str('a'): int(1)}, "
                                      "str('map_projection_designator'): str('ＵＴＭ-fullwidth'), "
                                      "str('utm_projection'): dict{str('type'): str('utm_projection'), "
                                      "str('index'): int(0)}, str('ups_projection'): dict{str('type'): "
                                      "str('ups_projection'), str('index'): int ... [562 chars, sha256 "
                                      '72553517767d3b301ae446186cc48c4e0cda32e7a571a98c07ac2ae7243c393f]',
 "filter/designator 'projection-utm'": "same object: False || dict{str('general'): dict{str('a'): int(1)}, "
                                       "str('corner_points'): dict{str('b'): int(2)}} || mapping after: "
                                       "dict{str('general'): dict{str('a'): int(1)}, "
                                       "str('map_projection_designator'): str('projection-utm'), "
                                       "str('utm_projection'): dict{str('type'): str('utm_projection'), "
                                       "str('index'): int(0)}, str('ups_projection'): dict{str('type'): "
                                       "str('ups_projection'), str('index'): in ... [563 chars, sha256 "
                                       '0e5da772b231aa7acd420db3e2ab953baa06fc9ae53911e90d24c527ae3df6b6]',
 "filter/designator 'none-x'": "same object: False || dict{str('general'): dict{str('a'): int(1)}, "
                               "str('corner_points'): dict{str('b'): int(2)}} || mapping after: "
                               "dict{str('general'): dict{str('a'): int(1)}, "
                               "str('map_projection_designator'): str('none-x'), str('utm_projection'): "
                               "dict{str('type'): str('utm_projection'), str('index'): int(0)}, "
                               "str('ups_projection'): dict{str('type'): str('ups_projection'), "
                               "str('index'): int(1)}, s ... [555 chars, sha256 "
                               '6aa8153dc4d683e4c351e30b325b8bcb2527a94e9af0927f087c29a43840520c]',
 'filter/no designator': "same object: True || dict{str('general'): dict{str('a'): int(1)}, "
                         "str('utm_projection'): dict{str('type'): str('utm_projection'), str('index'): "
                         "int(0)}, str('ups_projection'): dict{str('type'): str('ups_projection'), "
                         "str('index'): int(1)}, str('national_system_projection'): dict{str('type'): "
                         "str('national_system_projection'), str('index'): int(2)}, str('corner_points'): "
                         "dict{str('b'): int(2)}} ||  ... [790 chars, sha256 "
                         '718135e24bc016fda6e8e11eea5162b6046e36665aa6a1232f9f18e245c4f464]',
 'filter/designator None': "same object: True || dict{str('general'): dict{str('a'): int(1)}, "
                           "str('map_projection_designator'): NoneType(None), str('utm_projection'): "
                           "dict{str('type'): str('utm_projection'), str('index'): int(0)}, "
                           "str('ups_projection'): dict{str('type'): str('ups_projection'), str('index'): "
                           "int(1)}, str('national_system_projection'): dict{str('type'): "
                           "str('national_system_projection'), str('index'): int(2)}, ... [890 chars, sha256 "
                           '09199686d07ae55b23bbae07db1d29551182330b7f8bb1b3f3b854b76f5c6389]',
 'filter/empty mapping': 'same object: True || dict{} || mapping after: dict{}',
 'filter/only designator': 'same object: False || dict{} || mapping after: '
                           "dict{str('map_projection_designator'): str('UPS-X')}",
 'filter/integer designator': 'raised builtins.AttributeError("\'int\' object has no attribute \'lower\'") '
                              "|| mapping after: dict{str('general'): dict{str('a'): int(1)}, "
                              "str('map_projection_designator'): int(5), str('utm_projection'): "
                              "dict{str('type'): str('utm_projection'), str('index'): int(0)}, "
                              "str('ups_projection'): dict{str('type'): str('ups_projection'), str('index'): "
                              "int(1)}, str('national_system_projection'): dict{str('type ... [507 chars, "
                              'sha256 bddd57a82d07e4c3d218f289c72c05858177f75038b56439be1703b66267df61]',
 'filter/bytes designator': 'raised builtins.TypeError("a bytes-like object is required, not \'str\'") || '
                            "mapping after: dict{str('general'): dict{str('a'): int(1)}, "
                            "str('map_projection_designator'): bytes(b'UTM-X'), str('utm_projection'): "
                            "dict{str('type'): str('utm_projection'), str('index'): int(0)}, "
                            "str('ups_projection'): dict{str('type'): str('ups_projection'), str('index'): "
                            "int(1)}, str('national_system_projection'): dict{ ... [516 chars, sha256 "
                            '3b0888ac7d1625bb69e6bc868aa89295cc21dbe7227a351fe0c34a8b698fa74d]',
 'filter/list designator': 'raised builtins.AttributeError("\'list\' object has no attribute \'lower\'") || '
                           "mapping after: dict{str('general'): dict{str('a'): int(1)}, "
                           "str('map_projection_designator'): list[str('UTM-X')], str('utm_projection'): "
                           "dict{str('type'): str('utm_projection'), str('index'): int(0)}, "
                           "str('ups_projection'): dict{str('type'): str('ups_projection'), str('index'): "
                           "int(1)}, str('national_system_projection'): d ... [520 chars, sha256 "
                           'e2b8a19de77a3253cfc429c8b90dac08f7d84ac836a86c17a94ed1f14a3d5e65]',
 'filter/tuple metadata designator': 'raised builtins.AttributeError("\'tuple\' object has no attribute '
                                     '\'lower\'") || mapping after: dict{str(\'general\'): dict{str(\'a\'): '
                                     "int(1)}, str('map_projection_designator'): tuple[str('UTM-X'), "
                                     "dict{}], str('utm_projection'): dict{str('type'): "
                                     "str('utm_projection'), str('index'): int(0)}, str('ups_projection'): "
                                     "dict{str('type'): str('ups_projection'), str('index'): int(1)}, "
                                     "str('national_system_proje ... [530 chars, sha256 "
                                     'c05d8e9e28d66ede45ae67ca3c7115cbfce3b74e4ed0c9160bc29e252531cf25]',
 "filter/UTM-A with sections ('utm_projection',)": "same object: False || dict{str('general'): "
                                                   "dict{str('a'): int(1)}, str('projection'): "
                                                   "dict{str('type'): str('utm_projection'), str('index'): "
                                                   "int(0)}, str('corner_points'): dict{str('b'): int(2)}} "
                                                   "|| mapping after: dict{str('general'): dict{str('a'): "
                                                   "int(1)}, str('map_projection_designator'): str('UTM-A'), "
                                                   "str('utm_projection'): dict{str('type'): "
                                                   "str('utm_projection'), str('index'): int(0)}, str('c ... "
                                                   '[439 chars, sha256 '
                                                   '59d230b970e16ce4de6dd839de1041af96a923e6b9f66b2e27293380ae4cd245]',
 "filter/UPS-A with sections ('utm_projection',)": "same object: False || dict{str('general'): "
                                                   "dict{str('a'): int(1)}, str('corner_points'): "
                                                   "dict{str('b'): int(2)}} || mapping after: "
                                                   "dict{str('general'): dict{str('a'): int(1)}, "
                                                   "str('map_projection_designator'): str('UPS-A'), "
                                                   "str('utm_projection'): dict{str('type'): "
                                                   "str('utm_projection'), str('index'): int(0)}, "
                                                   "str('corner_points'): dict{str('b'): int(2)}}",
 "filter/LCC-A with sections ('utm_projection',)": "same object: False || dict{str('general'): "
                                                   "dict{str('a'): int(1)}, str('corner_points'): "
                                                   "dict{str('b'): int(2)}} || mapping after: "
                                                   "dict{str('general'): dict{str('a'): int(1)}, "
                                                   "str('map_projection_designator'): str('LCC-A'), "
                                                   "str('utm_projection'): dict{str('type'): "
                                                   "str('utm_projection'), str('index'): int(0)}, "
                                                   "str('corner_points'): dict{str('b'): int(2)}}",
 "filter/MER-A with sections ('utm_projection',)": "same object: False || dict{str('general'): "
                                                   "dict{str('a'): int(1)}, str('corner_points'): "
                                                   "dict{str('b'): int(2)}} || mapping after: "
                                                   "dict{str('general'): dict{str('a'): int(1)}, "
                                                   "str('map_projection_designator'): str('MER-A'), "
                                                   "str('utm_projection'): dict{str('type'): "
                                                   "str('utm_projection'), str('index'): int(0)}, "
                                                   "str('corner_points'): dict{str('b'): int(2)}}",
 "filter/ABC-A with sections ('utm_projection',)": "same object: False || dict{str('general'): "
                                                   "dict{str('a'): int(1)}, str('corner_points'): "
                                                   "dict{str('b'): int(2)}} || mapping after: "
                                                   "dict{str('general'): dict{str('a'): int(1)}, "
                                                   "str('map_projection_designator'): str('ABC-A'), "
                                                   "str('utm_projection'): dict{str('type'): "
                                                   "str('utm_projection'), str('index'): int(0)}, "
                                                   "str('corner_points'): dict{str('b'): int(2)}}",
 "filter/UTM-A with sections ('ups_projection', 'utm_projection')": 'same object: False || '
                                                                    "dict{str('general'): dict{str('a'): "
                                                                    "int(1)}, str('projection'): "
                                                                    "dict{str('type'): "
                                                                    "str('utm_projection'), str('index'): "
                                                                    "int(1)}, str('corner_points'): "
                                                                    "dict{str('b'): int(2)}} || mapping "
                                                                    "after: dict{str('general'): "
                                                                    "dict{str('a'): int(1)}, "
                                                                    "str('map_projection_designator'): "
                                                                    "str('UTM-A'), str('ups_projection'): "
                                                                    "dict{str('type'): "
                                                                    "str('ups_projection'), str('index'): "
                                                                    "int(0)}, str('u ... [526 chars, sha256 "
                                                                    '454635fe5e204cf44b06615602d813daa84d02906a88d776f21a8fb1408bb722]',
 "filter/UPS-A with sections ('ups_projection', 'utm_projection')": 'same object: False || '
                                                                    "dict{str('general'): dict{str('a'): "
                                                                    "int(1)}, str('projection'): "
                                                                    "dict{str('type'): "
                                                                    "str('ups_projection'), str('index'): "
                                                                    "int(0)}, str('corner_points'): "
                                                                    "dict{str('b'): int(2)}} || mapping "
                                                                    "after: dict{str('general'): "
                                                                    "dict{str('a'): int(1)}, "
                                                                    "str('map_projection_designator'): "
                                                                    "str('UPS-A'), str('ups_projection'): "
                                                                    "dict{str('type'): "
                                                                    "str('ups_projection'), str('index'): "
                                                                    "int(0)}, str('u ... [526 chars, sha256 "
                                                                    'f42f8e1aa18143baf12fa5c2899761386123ebc09bf2bded186d676f5b5cf551]',
 "filter/LCC-A with sections ('ups_projection', 'utm_projection')": 'same object: False || '
                                                                    "dict{str('general'): dict{str('a'): "
                                                                    "int(1)}, str('corner_points'): "
                                                                    "dict{str('b'): int(2)}} || mapping "
                                                                    "after: dict{str('general'): "
                                                                    "dict{str('a'): int(1)}, "
                                                                    "str('map_projection_designator'): "
                                                                    "str('LCC-A'), str('ups_projection'): "
                                                                    "dict{str('type'): "
                                                                    "str('ups_projection'), str('index'): "
                                                                    "int(0)}, str('utm_projection'): "
                                                                    "dict{str('type'): "
                                                                    "str('utm_projection'), str('index'): "
                                                                    'int(1)}, st ... [443 chars, sha256 '
                                                                    '4690aff527a469c5e76c28ee4d54d43fc9de06867c88200adfe16124849f9cc5]',
 "filter/MER-A with sections ('ups_projection', 'utm_projection')": 'same object: False || '
                                                                    "dict{str('general'): dict{str('a'): "
                                                                    "int(1)}, str('corner_points'): "
                                                                    "dict{str('b'): int(2)}} || mapping "
                                                                    "after: dict{str('general'): "
                                                                    "dict{str('a'): int(1)}, "
                                                                    "str('map_projection_designator'): "
                                                                    "str('MER-A'), str('ups_projection'): "
                                                                    "dict{str('type'): "
                                                                    "str('ups_projection'), str('index'): "
                                                                    "int(0)}, str('utm_projection'): "
                                                                    "dict{str('type'): "
                                                                    "str('utm_projection'), str('index'): "
                                                                    'int(1)}, st ... [443 chars, sha256 '
                                                                    '12d3f9653650fd5221ad044166efdd3800d4908dd09f107d0cec64394d81de4d]',
 "filter/ABC-A with sections ('ups_projection', 'utm_projection')": 'same object: False || '
                                                                    "dict{str('general'): dict{str('a'): "
                                                                    "int(1)}, str('corner_points'): "
                                                                    "dict{str('b'): int(2)}} || mapping "
                                                                    "after: dict{str('general'): "
                                                                    "dict{str('a'): int(1)}, "
                                                                    "str('map_projection_designator'): "
                                                                    "str('ABC-A'), str('ups_projection'): "
                                                                    "dict{str('type'): "
                                                                    "str('ups_projection'), str('index'): "
                                                                    "int(0)}, str('utm_projection'): "
                                                                    "dict{str('type'): "
                                                                    "str('utm_projection'), str('index'): "
                                                                    'int(1)}, st ... [443 chars, sha256 '
                                                                    '5c0d8b37e1f014a48f37b5d34fe2ef4cce8cbb95cc9528d9bb68391a3f970624]',
 "filter/UTM-A with sections ('national_system_projection', 'ups_projection', 'utm_projection')": 'same '
                                                                                                  'object: '
                                                                                                  'False || '
                                                                                                  "dict{str('general'): "
                                                                                                  "dict{str('a'): "
                                                                                                  'int(1)}, '
                                                                                                  "str('projection'): "
                                                                                                  "dict{str('type'): "
                                                                                                  "str('utm_projection'), "
                                                                                                  "str('index'): "
                                                                                                  'int(2)}, '
                                                                                                  "str('corner_points'): "
                                                                                                  "dict{str('b'): "
                                                                                                  'int(2)}} '
                                                                                                  '|| '
                                                                                                  'mapping '
                                                                                                  'after: '
                                                                                                  "dict{str('general'): "
                                                                                                  "dict{str('a'): "
                                                                                                  'int(1)}, '
                                                                                                  "str('map_projection_designator'): "
                                                                                                  "str('UTM-A'), "
                                                                                                  "str('national_system_projection'): "
                                                                                                  "dict{str('type'): "
                                                                                                  "str('national_system_projection'), "
                                                                                                  "str(' ... "
                                                                                                  '[637 '
                                                                                                  'chars, '
                                                                                                  'sha256 '
                                                                                                  '8b1ba2e1f3392e41f8c2f9987a1e85c480f0540eb83fc91833cfee7a3bc2b123]',
 "filter/UPS-A with sections ('national_system_projection', 'ups_projection', 'utm_projection')": 'same '
                                                                                                  'object: '
                                                                                                  'False || '
                                                                                                  "dict{str('general'): "
                                                                                                  "dict{str('a'): "
                                                                                                  'int(1)}, '
                                                                                                  "str('projection'): "
                                                                                                  "dict{str('type'): "
                                                                                                  "str('ups_projection'), "
                                                                                                  "str('index'): "
                                                                                                  'int(1)}, '
                                                                                                  "str('corner_points'): "
                                                                                                  "dict{str('b'): "
                                                                                                  'int(2)}} '
                                                                                                  '|| '
                                                                                                  'mapping '
                                                                                                  'after: '
                                                                                                  "dict{str('general'): "
                                                                                                  "dict{str('a'): "
                                                                                                  'int(1)}, '
                                                                                                  "str('map_projection_designator'): "
                                                                                                  "str('UPS-A'), "
                                                                                                  "str('national_system_projection'): "
                                                                                                  "dict{str('type'): "
                                                                                                  "str('national_system_projection'), "
                                                                                                  "str(' ... "
                                                                                                  '[637 '
                                                                                                  'chars, '
                                                                                                  'sha256 '
                                                                                                  '276296dab020c168e54d340bb9c242316345a30fc4651c61c8fa59b82e6fe8bb]',
 "filter/LCC-A with sections ('national_system_projection', 'ups_projection', 'utm_projection')": 'same '
                                                                                                  'object: '
                                                                                                  'False || '
                                                                                                  "dict{str('general'): "
                                                                                                  "dict{str('a'): "
                                                                                                  'int(1)}, '
                                                                                                  "str('projection'): "
                                                                                                  "dict{str('type'): "
                                                                                                  "str('national_system_projection'), "
                                                                                                  "str('index'): "
                                                                                                  'int(0)}, '
                                                                                                  "str('corner_points'): "
                                                                                                  "dict{str('b'): "
                                                                                                  'int(2)}} '
                                                                                                  '|| '
                                                                                                  'mapping '
                                                                                                  'after: '
                                                                                                  "dict{str('general'): "
                                                                                                  "dict{str('a'): "
                                                                                                  'int(1)}, '
                                                                                                  "str('map_projection_designator'): "
                                                                                                  "str('LCC-A'), "
                                                                                                  "str('national_system_projection'): "
                                                                                                  "dict{str('type'): "
                                                                                                  "str('national_system_project "
                                                                                                  '... [649 '
                                                                                                  'chars, '
                                                                                                  'sha256 '
                                                                                                  '552f1978f639c68846ea0e4d1aba6367b4468c464ed22977b244520096118db9]',
 "filter/MER-A with sections ('national_system_projection', 'ups_projection', 'utm_projection')": 'same '
                                                                                                  'object: '
                                                                                                  'False || '
                                                                                                  "dict{str('general'): "
                                                                                                  "dict{str('a'): "
                                                                                                  'int(1)}, '
                                                                                                  "str('projection'): "
                                                                                                  "dict{str('type'): "
                                                                                                  "str('national_system_projection'), "
                                                                                                  "str('index'): "
                                                                                                  'int(0)}, '
                                                                                                  "str('corner_points'): "
                                                                                                  "dict{str('b'): "
                                                                                                  'int(2)}} '
                                                                                                  '|| '
                                                                                                  'mapping '
                                                                                                  'after: '
                                                                                                  "dict{str('general'): "
                                                                                                  "dict{str('a'): "
                                                                                                  'int(1)}, '
                                                                                                  "str('map_projection_designator'): "
                                                                                                  "str('MER-A'), "
                                                                                                  "str('national_system_projection'): "
                                                                                                  "dict{str('type'): "
                                                                                                  "str('national_system_project "
                                                                                                  '... [649 '
                                                                                                  'chars, '
                                                                                                  'sha256 '
                                                                                                  '02099d272ee81762eaceded8ca37251caa7922c137a696b0488c9548509d5351]',
 "filter/ABC-A with sections ('national_system_projection', 'ups_projection', 'utm_projection')": 'same '
                                                                                                  'object: '
                                                                                                  'False || '
                                                                                                  "dict{str('general'): "
                                                                                                  "dict{str('a'): "
                                                                                                  'int(1)}, '
                                                                                                  "str('corner_points'): "
                                                                                                  "dict{str('b'): "
                                                                                                  'int(2)}} '
                                                                                                  '|| '
                                                                                                  'mapping '
                                                                                                  'after: '
                                                                                                  "dict{str('general'): "
                                                                                                  "dict{str('a'): "
                                                                                                  'int(1)}, '
                                                                                                  "str('map_projection_designator'): "
                                                                                                  "str('ABC-A'), "
                                                                                                  "str('national_system_projection'): "
                                                                                                  "dict{str('type'): "
                                                                                                  "str('national_system_projection'), "
                                                                                                  "str('index'): "
                                                                                                  'int(0)}, '
                                                                                                  "str('ups_projection'): "
                                                                                                  "dict{str('type'): "
                                                                                                  "str('ups_projection'), "
                                                                                                  's ... '
                                                                                                  '[554 '
                                                                                                  'chars, '
                                                                                                  'sha256 '
                                                                                                  '08884e6b5c21da7557890f112939eb62b0759f0ea02d9bc7ad22ccfb62ad0ad6]',
 'filter/UTM-A with sections ()': "same object: False || dict{str('general'): dict{str('a'): int(1)}, "
                                  "str('corner_points'): dict{str('b'): int(2)}} || mapping after: "
                                  "dict{str('general'): dict{str('a'): int(1)}, "
                                  "str('map_projection_designator'): str('UTM-A'), str('corner_points'): "
                                  "dict{str('b'): int(2)}}",
 'filter/UPS-A with sections ()': "same object: False || dict{str('general'): dict{str('a'): int(1)}, "
                                  "str('corner_points'): dict{str('b'): int(2)}} || mapping after: "
                                  "dict{str('general'): dict{str('a'): int(1)}, "
                                  "str('map_projection_designator'): str('UPS-A'), str('corner_points'): "
                                  "dict{str('b'): int(2)}}",
 'filter/LCC-A with sections ()': "same object: False || dict{str('general'): dict{str('a'): int(1)}, "
                                  "str('corner_points'): dict{str('b'): int(2)}} || mapping after: "
                                  "dict{str('general'): dict{str('a'): int(1)}, "
                                  "str('map_projection_designator'): str('LCC-A'), str('corner_points'): "
                                  "dict{str('b'): int(2)}}",
 'filter/MER-A with sections ()': "same object: False || dict{str('general'): dict{str('a'): int(1)}, "
                                  "str('corner_points'): dict{str('b'): int(2)}} || mapping after: "
                                  "dict{str('general'): dict{str('a'): int(1)}, "
                                  "str('map_projection_designator'): str('MER-A'), str('corner_points'): "
                                  "dict{str('b'): int(2)}}",
 'filter/ABC-A with sections ()': "same object: False || dict{str('general'): dict{str('a'): int(1)}, "
                                  "str('corner_points'): dict{str('b'): int(2)}} || mapping after: "
                                  "dict{str('general'): dict{str('a'): int(1)}, "
                                  "str('map_projection_designator'): str('ABC-A'), str('corner_points'): "
                                  "dict{str('b'): int(2)}}",
 'filter/designator last': "same object: False || dict{str('projection'): dict{str('b'): int(1)}} || mapping "
                           "after: dict{str('utm_projection'): dict{str('a'): int(1)}, "
                           "str('ups_projection'): dict{str('b'): int(1)}, str('map_projection_designator'): "
                           "str('UPS-1')}",
 'filter/existing projection key before': "same object: False || dict{str('projection'): str('new')} || "
                                          "mapping after: dict{str('projection'): str('old'), "
                                          "str('map_projection_designator'): str('UTM-1'), "
                                          "str('utm_projection'): str('new')}",
 'filter/existing projection key after': "same object: False || dict{str('projection'): str('old')} || "
                                         "mapping after: dict{str('map_projection_designator'): "
                                         "str('UTM-1'), str('utm_projection'): str('new'), "
                                         "str('projection'): str('old')}",
 'filter/None key with unknown designator': "same object: False || dict{str('projection'): "
                                            "str('none-value')} || mapping after: "
                                            "dict{str('map_projection_designator'): str('ABC-1'), "
                                            "NoneType(None): str('none-value'), str('utm_projection'): "
                                            'int(1)}',
 'filter/None key with known designator': "same object: False || dict{NoneType(None): str('none-value'), "
                                          "str('projection'): int(1)} || mapping after: "
                                          "dict{str('map_projection_designator'): str('UTM-1'), "
                                          "NoneType(None): str('none-value'), str('utm_projection'): int(1)}",
 'filter/non-string keys': "same object: False || dict{int(1): int(2), tuple[str('a'), str('b')]: int(3), "
                           "str('projection'): int(4)} || mapping after: "
                           "dict{str('map_projection_designator'): str('LCC-1'), int(1): int(2), "
                           "tuple[str('a'), str('b')]: int(3), str('national_system_projection'): int(4)}",
 'filter/ordered dict': "same object: False || dict{str('general'): dict{str('a'): int(1)}, "
                        "str('projection'): dict{str('type'): str('national_system_projection'), "
                        "str('index'): int(0)}, str('corner_points'): dict{str('b'): int(2)}} || mapping "
                        "after: OrderedDict{str('general'): dict{str('a'): int(1)}, "
                        "str('map_projection_designator'): str('MER-1'), str('national_system_projection'): "
                        "dict{str('type'): str('national_system_ ... [569 chars, sha256 "
                        'fab14f59ca7fa3984700a7a9447e68ab00fd6283998c5718f89baaf366c091af]',
 'filter/list instead of mapping': 'raised builtins.AttributeError("\'list\' object has no attribute '
                                   '\'get\'") || mapping after: list[str(\'map_projection_designator\')]',
 'filter/None instead of mapping': 'raised builtins.AttributeError("\'NoneType\' object has no attribute '
                                   '\'get\'") || mapping after: NoneType(None)',
 'general/typical': "dict{str('map_projection_type'): str('GEOREFERENCE'), str('n_columns'): int(100), "
                    "str('n_rows'): int(200), str('inter_line_distance_in_output_scene'): tuple[float(2.5), "
                    "dict{str('units'): str('m')}]} || args after: list[dict{str('map_projection_type'): "
                    "str('GEOREFERENCE'), str('number_of_pixels_per_line'): int(100), "
                    "str('number_of_lines'): int(200), str('inter_line_distance_in_output_scene'): tupl ... "
                    '[452 chars, sha256 c239ca5733444be4a9433c7a21ecdd0a8cd64c3cfce9f45e0846a53e310912b8]',
 'general/empty': 'dict{} || args after: list[dict{}] dict{}',
 'general/unrelated': "dict{str('a'): int(1), str('b'): int(2)} || args after: list[dict{str('a'): int(1), "
                      "str('b'): int(2)}] dict{}",
 'general/only lines': "dict{str('n_rows'): int(-1)} || args after: list[dict{str('number_of_lines'): "
                       'int(-1)}] dict{}',
 'general/clash, new name first': "dict{str('n_columns'): str('new')} || args after: "
                                  "list[dict{str('n_columns'): str('old'), str('number_of_pixels_per_line'): "
                                  "str('new')}] dict{}",
 'general/clash, new name last': "dict{str('n_rows'): str('old')} || args after: "
                                 "list[dict{str('number_of_lines'): str('new'), str('n_rows'): str('old')}] "
                                 'dict{}',
 'general/non-string keys': "dict{int(1): int(2), NoneType(None): int(3), tuple[str('number_of_lines')]: "
                            'int(4)} || args after: list[dict{int(1): int(2), NoneType(None): int(3), '
                            "tuple[str('number_of_lines')]: int(4)}] dict{}",
 'general/ordered dict': "dict{str('n_rows'): int(1), str('z'): int(2), str('n_columns'): int(3)} || args "
                         "after: list[OrderedDict{str('number_of_lines'): int(1), str('z'): int(2), "
                         "str('number_of_pixels_per_line'): int(3)}] dict{}",
 'general/list': 'raised builtins.AttributeError("\'list\' object has no attribute \'keys\'") || args after: '
                 "list[list[tuple[str('number_of_lines'), int(1)]]] dict{}",
 'general/None': 'raised builtins.AttributeError("\'NoneType\' object has no attribute \'keys\'") || args '
                 'after: list[NoneType(None)] dict{}',
 'general/unhashable check': "dict{str('n_rows'): list[int(1), int(2)]}",
 'corners/typical': "dict{str('projected'): dict{str('corner'): tuple[list[str('corner')], "
                    "list[str('top_left'), str('top_right'), str('bottom_right'), str('bottom_left')], "
                    "dict{}], str('northing'): tuple[list[str('corner')], list[float(0.0), float(10.0), "
                    "float(20.0), float(30.0)], dict{str('units'): str('km')}], str('easting'): "
                    "tuple[list[str('corner')], list[float(1.0), float(11.0), float(21.0), float(31.0)], "
                    'dict{s ... [2663 chars, sha256 '
                    '760875db8724e3f388559bd8059c34cf9a79e5639c378687a0dfec38c1f47490]',
 'corners/reversed corner order in input': "dict{str('projected'): dict{str('corner'): "
                                           "tuple[list[str('corner')], list[str('top_left'), "
                                           "str('top_right'), str('bottom_right'), str('bottom_left')], "
                                           "dict{}], str('northing'): tuple[list[str('corner')], "
                                           'list[float(30.0), float(20.0), float(10.0), float(0.0)], '
                                           "dict{str('units'): str('km')}], str('easting'): "
                                           "tuple[list[str('corner')], list[float(31.0), float(21.0), "
                                           'float(11.0), float(1.0)], dict{s ... [2663 chars, sha256 '
                                           '1fbbe573d19b7f9fece8d0ab1c9ff435f7ff0aed3ac1b33c5785ad26afd6c3bf]',
 'corners/extra corner keys are ignored': "dict{str('projected'): dict{str('corner'): "
                                          "tuple[list[str('corner')], list[str('top_left'), "
                                          "str('top_right'), str('bottom_right'), str('bottom_left')], "
                                          "dict{}], str('northing'): tuple[list[str('corner')], "
                                          'list[float(10.0), float(20.0), float(30.0), float(40.0)], '
                                          "dict{str('units'): str('km')}], str('easting'): "
                                          "tuple[list[str('corner')], list[float(11.0), float(21.0), "
                                          'float(31.0), float(41.0)], dict ... [3313 chars, sha256 '
                                          'eb4d3f4bb5151a33b63534c87ab8523eb6824a71b71d7cd1fa78c8369f7777eb]',
 'corners/missing corner': 'raised builtins.KeyError("\'bottom_left_corner\'") || args after: '
                           "list[dict{str('projected'): dict{str('top_left_corner'): dict{str('northing'): "
                           "tuple[float(0.0), dict{str('units'): str('km')}], str('easting'): "
                           "tuple[float(1.0), dict{str('units'): str('km')}]}, str('top_right_corner'): "
                           "dict{str('northing'): tuple[float(10.0), dict{str('units'): str('km')}], "
                           "str('easting'): tuple[float(11.0), dict{st ... [1506 chars, sha256 "
                           '4aef5ff1c5123b4cd1ce78211939b9516b57906145ef0a096c953613a9a5365d]',
 'corners/without terrain heights': "dict{str('projected'): dict{str('corner'): tuple[list[str('corner')], "
                                    "list[str('top_left'), str('top_right'), str('bottom_right'), "
                                    "str('bottom_left')], dict{}], str('northing'): "
                                    "tuple[list[str('corner')], list[float(0.0), float(10.0), float(20.0), "
                                    "float(30.0)], dict{str('units'): str('km')}], str('easting'): "
                                    "tuple[list[str('corner')], list[float(1.0), float(11.0), float(21.0), "
                                    'float(31.0)], dict{s ... [2303 chars, sha256 '
                                    '06060f268351ec61b2244f8d6ab359eed5e2308c72cd5f6491bdb83028a8c220]',
 'corners/only terrain heights': 'dict{} || args after: '
                                 "list[dict{str('terrain_heights_relative_to_ellipsoid'): dict{str('a'): "
                                 'int(1)}}] dict{}',
 'corners/empty': 'dict{} || args after: list[dict{}] dict{}',
 'corners/only geographic': "dict{str('geographic'): dict{str('corner'): tuple[list[str('corner')], "
                            "list[str('top_left'), str('top_right'), str('bottom_right'), "
                            "str('bottom_left')], dict{}], str('latitude'): tuple[list[str('corner')], "
                            'list[float(100.0), float(110.0), float(120.0), float(130.0)], '
                            "dict{str('units'): str('deg')}], str('longitude'): tuple[list[str('corner')], "
                            'list[float(101.0), float(111.0), float(121.0), float(1 ... [1191 chars, sha256 '
                            '360f816557366b19e465e2c37182fd11417c0252f443006981e4cefaec05ecfc]',
 'corners/geographic before projected': "dict{str('geographic'): dict{str('corner'): "
                                        "tuple[list[str('corner')], list[str('top_left'), str('top_right'), "
                                        "str('bottom_right'), str('bottom_left')], dict{}], str('latitude'): "
                                        "tuple[list[str('corner')], list[float(100.0), float(110.0), "
                                        "float(120.0), float(130.0)], dict{str('units'): str('deg')}], "
                                        "str('longitude'): tuple[list[str('corner')], list[float(101.0), "
                                        'float(111.0), float(121.0), float(1 ... [2663 chars, sha256 '
                                        'a89a2265ade69ea3c8c595af7b8c1a0218a7c7aa8a31a0fd8fd54f9c1550bb14]',
 'corners/other sections get no corner coordinate': "dict{str('geocentric'): dict{str('x'): "
                                                    "tuple[list[str('corner')], list[float(0.0), "
                                                    'float(10.0), float(20.0), float(30.0)], '
                                                    "dict{str('units'): str('m')}], str('y'): "
                                                    "tuple[list[str('corner')], list[float(1.0), "
                                                    'float(11.0), float(21.0), float(31.0)], '
                                                    "dict{str('units'): str('m')}], str('z'): "
                                                    "tuple[list[str('corner')], list[float(2.0), "
                                                    'float(12.0), float(22.0), float(32.0)], '
                                                    "dict{str('units'): str('m') ... [2020 chars, sha256 "
                                                    'cf9dffd87282e838f43f8db8c0d090560f2d7dd70c7fc3f48d9a84f28fad7d5c]',
 'corners/component named corner wins over the coordinate': "dict{str('projected'): dict{str('corner'): "
                                                            "tuple[list[str('corner')], list[float(1.0), "
                                                            'float(11.0), float(21.0), float(31.0)], '
                                                            "dict{str('units'): str('-')}], str('northing'): "
                                                            "tuple[list[str('corner')], list[float(0.0), "
                                                            'float(10.0), float(20.0), float(30.0)], '
                                                            "dict{str('units'): str('km')}]}} || args after: "
                                                            "list[dict{str('projected'): "
                                                            "dict{str('top_left_corner'): "
                                                            "dict{str('northing'): tuple[float(0. ... [1006 "
                                                            'chars, sha256 '
                                                            '1e2a34614cfa18073cf06c41232740113f908e877da854f926fd4ec1b6059c68]',
 'corners/component named corner first': "dict{str('geographic'): dict{str('corner'): "
                                         "tuple[list[str('corner')], list[float(0.0), float(10.0), "
                                         "float(20.0), float(30.0)], dict{str('units'): str('-')}], "
                                         "str('latitude'): tuple[list[str('corner')], list[float(1.0), "
                                         "float(11.0), float(21.0), float(31.0)], dict{str('units'): "
                                         "str('deg')}]}} || args after: list[dict{str('geographic'): "
                                         "dict{str('top_left_corner'): dict{str('corner'): tuple[float(0 ... "
                                         '[1013 chars, sha256 '
                                         '186983b53a2452c45774f1d53e624b1af821fcbbbbec3676c2461452df1558df]',
 'corners/components differ between corners': "dict{str('projected'): dict{str('corner'): "
                                              "tuple[list[str('corner')], list[str('top_left'), "
                                              "str('top_right'), str('bottom_right'), str('bottom_left')], "
                                              "dict{}], str('northing'): tuple[list[str('corner')], "
                                              "list[float(1.0), float(2.0)], dict{str('units'): str('km')}], "
                                              "str('easting'): tuple[list[str('corner')], list[float(3.0), "
                                              "float(4.0)], dict{str('units'): str('km')}]}} || args after: "
                                              'list[dict{st ... [824 chars, sha256 '
                                              '5182c653267949bd022e0ea0e2be6cc97df7804a0326de0b2c1eb4d4395abb79]',
 'corners/empty corners': "dict{str('projected'): dict{str('corner'): tuple[list[str('corner')], "
                          "list[str('top_left'), str('top_right'), str('bottom_right'), str('bottom_left')], "
                          "dict{}]}} || args after: list[dict{str('projected'): dict{str('top_left_corner'): "
                          "dict{}, str('top_right_corner'): dict{}, str('bottom_right_corner'): dict{}, "
                          "str('bottom_left_corner'): dict{}}}] dict{}",
 'corners/values without metadata': 'raised builtins.TypeError("\'float\' object is not iterable") || args '
                                    "after: list[dict{str('projected'): dict{str('top_left_corner'): "
                                    "dict{str('northing'): float(1.0)}, str('top_right_corner'): "
                                    "dict{str('northing'): float(1.0)}, str('bottom_right_corner'): "
                                    "dict{str('northing'): float(1.0)}, str('bottom_left_corner'): "
                                    "dict{str('northing'): float(1.0)}}}] dict{}",
 'corners/values are three-tuples': "raised builtins.ValueError('too many values to unpack (expected 2)') || "
                                    "args after: list[dict{str('projected'): dict{str('top_left_corner'): "
                                    "dict{str('northing'): tuple[float(1.0), dict{str('u'): int(1)}, "
                                    "str('x')]}, str('top_right_corner'): dict{str('northing'): "
                                    "tuple[float(1.0), dict{str('u'): int(1)}, str('x')]}, "
                                    "str('bottom_right_corner'): dict{str('northing'): tuple[float(1.0), "
                                    "dict{str('u'): ... [533 chars, sha256 "
                                    'bf59f46de20dcb91c93c4df3167851691c12ca6900a9d57a198077ab91627a53]',
 'corners/values are empty tuples': "raised builtins.ValueError('not enough values to unpack (expected 2, "
                                    "got 0)') || args after: list[dict{str('projected'): "
                                    "dict{str('top_left_corner'): dict{str('northing'): tuple[]}, "
                                    "str('top_right_corner'): dict{str('northing'): tuple[]}, "
                                    "str('bottom_right_corner'): dict{str('northing'): tuple[]}, "
                                    "str('bottom_left_corner'): dict{str('northing'): tuple[]}}}] dict{}",
 'corners/values are strings': "dict{str('projected'): dict{str('corner'): tuple[list[str('corner')], "
                               "list[str('top_left'), str('top_right'), str('bottom_right'), "
                               "str('bottom_left')], dict{}], str('northing'): tuple[list[str('corner')], "
                               "list[str('a'), str('a'), str('a'), str('a')], str('b')]}} || args after: "
                               "list[dict{str('projected'): dict{str('top_left_corner'): "
                               "dict{str('northing'): str('ab')}, str('top_right_corner'): dict{s ... [559 "
                               'chars, sha256 '
                               'b561a14389b181731f419c753f56dd603894b0fedbef486a5a35153fe31e51a6]',
 'corners/corner is a scalar': 'raised builtins.AttributeError("\'float\' object has no attribute '
                               '\'items\'") || args after: list[dict{str(\'projected\'): '
                               "dict{str('top_left_corner'): float(1.0), str('top_right_corner'): "
                               "float(1.0), str('bottom_right_corner'): float(1.0), "
                               "str('bottom_left_corner'): float(1.0)}}] dict{}",
 'corners/section is a scalar': 'raised builtins.TypeError("\'int\' object is not subscriptable") || args '
                                "after: list[dict{str('projected'): int(1)}] dict{}",
 'corners/section is a list': "raised builtins.TypeError('list indices must be integers or slices, not str') "
                              "|| args after: list[dict{str('projected'): list[int(1), int(2), int(3), "
                              'int(4)]}] dict{}',
 'corners/section is a long list': "raised builtins.TypeError('list indices must be integers or slices, not "
                                   "str') || args after: list[dict{str('other'): list[int(0), int(1), "
                                   'int(2), int(3), int(4), int(5), int(6), int(7), int(8), int(9), int(10), '
                                   'int(11), int(12), int(13), int(14), int(15), int(16), int(17), int(18), '
                                   'int(19), int(20), int(21), int(22), int(23), int(24), int(25), int(26), '
                                   'int(27), int(28), int(29), int(30), int(31),  ... [480 chars, sha256 '
                                   'c8c32ec4e511fc9f792e3b7eb37e2923614bfbc52654fc38b3c437708876f1b2]',
 'corners/section is None': 'raised builtins.TypeError("\'NoneType\' object is not subscriptable") || args '
                            "after: list[dict{str('geographic'): NoneType(None)}] dict{}",
 'corners/not a mapping': 'raised builtins.AttributeError("\'list\' object has no attribute \'items\'") || '
                          'args after: list[list[int(1)]] dict{}',
 'corners/None': 'raised builtins.AttributeError("\'NoneType\' object has no attribute \'items\'") || args '
                 'after: list[NoneType(None)] dict{}',
 'corners/ordered dict': "dict{str('projected'): dict{str('corner'): tuple[list[str('corner')], "
                         "list[str('top_left'), str('top_right'), str('bottom_right'), str('bottom_left')], "
                         "dict{}], str('northing'): tuple[list[str('corner')], list[float(0.0), float(10.0), "
                         "float(20.0), float(30.0)], dict{str('units'): str('km')}], str('easting'): "
                         "tuple[list[str('corner')], list[float(1.0), float(11.0), float(21.0), "
                         'float(31.0)], dict{s ... [2670 chars, sha256 '
                         '5f7bdcc83eea0ce6f2d39642167e20daa09a779c39a56431aed4abb4c67166d0]',
 'corners/identity': "dict{str('coordinate list shared between sections'): bool(True), str('coordinate list "
                     "fresh per call'): bool(True), str('tuples distinct'): bool(True), str('dims "
                     "distinct'): bool(True), str('attrs distinct'): bool(True), str('variable dims "
                     'distinct\'): bool(True), str("metadata is first corner\'s"): bool(True), '
                     "str('types'): list[str('dict'), str('dict'), str('tuple')], str('input untouched'): "
                     'str(" ... [2174 chars, sha256 '
                     '7c2e882968051f82cdd75cd50572cac40953ff4072198c1b95fc88be1962452f]',
 'record/describe': "Struct('preamble'/Struct('record_sequence_number'/FormatField('>L'), "
                    "'first_record_subtype'/FormatField('>B'), 'record_type'/FormatField('>B'), "
                    "'second_record_subtype'/FormatField('>B'), 'third_record_subtype'/FormatField('>B'), "
                    "'record_length'/FormatField('>L')), 'blanks'/PaddedString(16), "
                    "'map_projection_general_information'/Struct('map_projection_type'/PaddedString(32), "
                    "'number_of_pixels_per_li ... [5741 chars, sha256 "
                    'c54b35a7f955862bce7546fd7880379cb62a9b8956c2c43e3fe7889881e1948a]',
 'record/sizeof': 'int(1620)',
 "record/parsed 'UTM-PROJECTION' from 1": "dict{str('preamble'): dict{str('record_sequence_number'): int(1), "
                                          "str('first_record_subtype'): int(2), str('record_type'): int(3), "
                                          "str('second_record_subtype'): int(4), "
                                          "str('third_record_subtype'): int(5), str('record_length'): "
                                          "int(6)}, str('blanks'): str('s92'), "
                                          "str('map_projection_general_information'): "
                                          "dict{str('map_projection_type'): str('s8'), "
                                          "str('number_of_pixels_per_line'): int(9), str('nu ... [6902 "
                                          'chars, sha256 '
                                          'cecb41bce033d89bef80556b136c7bae56ca4ebe4586b1d1e413e63cbadab507]',
 "projection/parsed 'UTM-PROJECTION' from 1": "Group(path='/', url=None, attrs=dict{}, "
                                              "data=dict{str('general_information'): "
                                              "Group(path='/general_information', url=None, "
                                              "attrs=dict{str('map_projection_type'): str('s8'), "
                                              "str('n_columns'): int(9), str('n_rows'): int(-1)}, "
                                              "data=dict{str('inter_line_distance_in_output_scene'): "
                                              'Variable(dims=tuple[], data=float(-16.875), '
                                              "attrs=dict{str('units'): str('m')}), "
                                              "str('inter_pixel_distance_in_output_scene ... [11988 chars, "
                                              'sha256 '
                                              'eb7ccce10ea5966fc365d8b7de8eb3a0edd9386d4ab06ced2f87410aa6499448]',
 "filter/parsed 'UTM-PROJECTION' from 1": "same object: False || dict{str('preamble'): "
                                          "dict{str('record_sequence_number'): int(1), "
                                          "str('first_record_subtype'): int(2), str('record_type'): int(3), "
                                          "str('second_record_subtype'): int(4), "
                                          "str('third_record_subtype'): int(5), str('record_length'): "
                                          "int(6)}, str('blanks'): str('s92'), "
                                          "str('map_projection_general_information'): "
                                          "dict{str('map_projection_type'): str('s8'), "
                                          "str('number_of_pixels_per_l ... [12477 chars, sha256 "
                                          '463107b4d12145fcfdbbbaf3582181d74996306b240110db7ed71d5edf56b581]',
 "corners/parsed 'UTM-PROJECTION' from 1": "dict{str('projected'): dict{str('corner'): "
                                           "tuple[list[str('corner')], list[str('top_left'), "
                                           "str('top_right'), str('bottom_right'), str('bottom_left')], "
                                           "dict{}], str('northing'): tuple[list[str('corner')], "
                                           'list[float(84.375), float(87.375), float(90.375), '
                                           "float(93.375)], dict{str('units'): str('km')}], str('easting'): "
                                           "tuple[list[str('corner')], list[float(-85.875), float(-88.875), "
                                           'float(-91.875), f ... [2753 chars, sha256 '
                                           '2490afb82c2fcc3e61a1b0ec70a7314e0f03ba6f811654ec82622c089dbb8d02]',
 "record/parsed 'UPS-PROJECTION' from 2": "dict{str('preamble'): dict{str('record_sequence_number'): int(2), "
                                          "str('first_record_subtype'): int(3), str('record_type'): int(4), "
                                          "str('second_record_subtype'): int(5), "
                                          "str('third_record_subtype'): int(6), str('record_length'): "
                                          "int(7)}, str('blanks'): str('s93'), "
                                          "str('map_projection_general_information'): "
                                          "dict{str('map_projection_type'): str('s9'), "
                                          "str('number_of_pixels_per_line'): int(-1), str('n ... [6908 "
                                          'chars, sha256 '
                                          '7786221d0eea2d815fd4daeac9f0a43f43c16bfb981434cfa7d7cbc8286f4db9]',
 "projection/parsed 'UPS-PROJECTION' from 2": "Group(path='/', url=None, attrs=dict{}, "
                                              "data=dict{str('general_information'): "
                                              "Group(path='/general_information', url=None, "
                                              "attrs=dict{str('map_projection_type'): str('s9'), "
                                              "str('n_columns'): int(-1), str('n_rows'): int(11)}, "
                                              "data=dict{str('inter_line_distance_in_output_scene'): "
                                              'Variable(dims=tuple[], data=float(nan), '
                                              "attrs=dict{str('units'): str('m')}), "
                                              "str('inter_pixel_distance_in_output_scene'): ... [11967 "
                                              'chars, sha256 '
                                              '5a48afa93f6cc7ecc492291a5b4d0f9167781e932f010b512ff35dadd667a41f]',
 "filter/parsed 'UPS-PROJECTION' from 2": "same object: False || dict{str('preamble'): "
                                          "dict{str('record_sequence_number'): int(2), "
                                          "str('first_record_subtype'): int(3), str('record_type'): int(4), "
                                          "str('second_record_subtype'): int(5), "
                                          "str('third_record_subtype'): int(6), str('record_length'): "
                                          "int(7)}, str('blanks'): str('s93'), "
                                          "str('map_projection_general_information'): "
                                          "dict{str('map_projection_type'): str('s9'), "
                                          "str('number_of_pixels_per_l ... [12224 chars, sha256 "
                                          '87f7a44de95cf296b05944498ebea9114ce6ed041a98fa7e71df0ed22019b9ea]',
 "corners/parsed 'UPS-PROJECTION' from 2": "dict{str('projected'): dict{str('corner'): "
                                           "tuple[list[str('corner')], list[str('top_left'), "
                                           "str('top_right'), str('bottom_right'), str('bottom_left')], "
                                           "dict{}], str('northing'): tuple[list[str('corner')], "
                                           'list[float(-85.875), float(-88.875), float(-91.875), '
                                           "float(-94.875)], dict{str('units'): str('km')}], str('easting'): "
                                           "tuple[list[str('corner')], list[float(87.375), float(90.375), "
                                           'float(93.375),  ... [2755 chars, sha256 '
                                           '689ba0b437be4d8c165dda4d5e17f71891fff572b4b51f1c48a2623eae040602]',
 "record/parsed 'LCC-PROJECTION' from 3": "dict{str('preamble'): dict{str('record_sequence_number'): int(3), "
                                          "str('first_record_subtype'): int(4), str('record_type'): int(5), "
                                          "str('second_record_subtype'): int(6), "
                                          "str('third_record_subtype'): int(7), str('record_length'): "
                                          "int(8)}, str('blanks'): str('s94'), "
                                          "str('map_projection_general_information'): "
                                          "dict{str('map_projection_type'): str('s10'), "
                                          "str('number_of_pixels_per_line'): int(11), str(' ... [6912 chars, "
                                          'sha256 '
                                          '2624373bad8d40a5ebde774e2e2ae448253135020a68759547b3e7c9385882d4]',
 "projection/parsed 'LCC-PROJECTION' from 3": "Group(path='/', url=None, attrs=dict{}, "
                                              "data=dict{str('general_information'): "
                                              "Group(path='/general_information', url=None, "
                                              "attrs=dict{str('map_projection_type'): str('s10'), "
                                              "str('n_columns'): int(11), str('n_rows'): int(12)}, "
                                              "data=dict{str('inter_line_distance_in_output_scene'): "
                                              'Variable(dims=tuple[], data=float(-19.875), '
                                              "attrs=dict{str('units'): str('m')}), "
                                              "str('inter_pixel_distance_in_output_sce ... [12255 chars, "
                                              'sha256 '
                                              'ed1ad6b29fb534cc958df053cd4f299406d882502166d3524c3f91aadb644937]',
 "filter/parsed 'LCC-PROJECTION' from 3": "same object: False || dict{str('preamble'): "
                                          "dict{str('record_sequence_number'): int(3), "
                                          "str('first_record_subtype'): int(4), str('record_type'): int(5), "
                                          "str('second_record_subtype'): int(6), "
                                          "str('third_record_subtype'): int(7), str('record_length'): "
                                          "int(8)}, str('blanks'): str('s94'), "
                                          "str('map_projection_general_information'): "
                                          "dict{str('map_projection_type'): str('s10'), "
                                          "str('number_of_pixels_per_ ... [12991 chars, sha256 "
                                          '3751f4e565d3e7119f0ad9020f297c69ea1f890b2e09fbd85e11bf4c6eaf7129]',
 "corners/parsed 'LCC-PROJECTION' from 3": "dict{str('projected'): dict{str('corner'): "
                                           "tuple[list[str('corner')], list[str('top_left'), "
                                           "str('top_right'), str('bottom_right'), str('bottom_left')], "
                                           "dict{}], str('northing'): tuple[list[str('corner')], "
                                           'list[float(87.375), float(90.375), float(93.375), float(nan)], '
                                           "dict{str('units'): str('km')}], str('easting'): "
                                           "tuple[list[str('corner')], list[float(-88.875), float(-91.875), "
                                           'float(-94.875), floa ... [2752 chars, sha256 '
                                           'c7d03582a570218ae8c391dd2b73d32358768e84fe8b3f4f22f9610fe3ccb5e9]',
 "record/parsed 'MER-PROJECTION' from 4": "dict{str('preamble'): dict{str('record_sequence_number'): int(4), "
                                          "str('first_record_subtype'): int(5), str('record_type'): int(6), "
                                          "str('second_record_subtype'): int(7), "
                                          "str('third_record_subtype'): int(8), str('record_length'): "
                                          "int(9)}, str('blanks'): str('s95'), "
                                          "str('map_projection_general_information'): "
                                          "dict{str('map_projection_type'): str('s11'), "
                                          "str('number_of_pixels_per_line'): int(12), str(' ... [6911 chars, "
                                          'sha256 '
                                          '1fdf658ffaf2c3e7009a1d3b0c0bef97402d43ed26ae6a6877c0c1162c7e20ac]',
 "projection/parsed 'MER-PROJECTION' from 4": "Group(path='/', url=None, attrs=dict{}, "
                                              "data=dict{str('general_information'): "
                                              "Group(path='/general_information', url=None, "
                                              "attrs=dict{str('map_projection_type'): str('s11'), "
                                              "str('n_columns'): int(12), str('n_rows'): int(13)}, "
                                              "data=dict{str('inter_line_distance_in_output_scene'): "
                                              'Variable(dims=tuple[], data=float(21.375), '
                                              "attrs=dict{str('units'): str('m')}), "
                                              "str('inter_pixel_distance_in_output_scen ... [12250 chars, "
                                              'sha256 '
                                              '20b9631d5a94c4307dc74bcc603a9d139e878aa24e10a3b4d64f36e41527c03b]',
 "filter/parsed 'MER-PROJECTION' from 4": "same object: False || dict{str('preamble'): "
                                          "dict{str('record_sequence_number'): int(4), "
                                          "str('first_record_subtype'): int(5), str('record_type'): int(6), "
                                          "str('second_record_subtype'): int(7), "
                                          "str('third_record_subtype'): int(8), str('record_length'): "
                                          "int(9)}, str('blanks'): str('s95'), "
                                          "str('map_projection_general_information'): "
                                          "dict{str('map_projection_type'): str('s11'), "
                                          "str('number_of_pixels_per_ ... [12990 chars, sha256 "
                                          'b41a09e327274f9418e51b22c891ad75f95bcf45e5a595f447396a6e102cef58]',
 "corners/parsed 'MER-PROJECTION' from 4": "dict{str('projected'): dict{str('corner'): "
                                           "tuple[list[str('corner')], list[str('top_left'), "
                                           "str('top_right'), str('bottom_right'), str('bottom_left')], "
                                           "dict{}], str('northing'): tuple[list[str('corner')], "
                                           'list[float(-88.875), float(-91.875), float(-94.875), '
                                           "float(-97.875)], dict{str('units'): str('km')}], str('easting'): "
                                           "tuple[list[str('corner')], list[float(90.375), float(93.375), "
                                           'float(nan), flo ... [2754 chars, sha256 '
                                           '4edcd58e4267f370088998a2092d3cbaf6b67883b587aee9dc9c71e383abfc03]',
 "record/parsed 'utm-lower' from 5": "dict{str('preamble'): dict{str('record_sequence_number'): int(5), "
                                     "str('first_record_subtype'): int(6), str('record_type'): int(7), "
                                     "str('second_record_subtype'): int(8), str('third_record_subtype'): "
                                     "int(9), str('record_length'): int(10)}, str('blanks'): str('s96'), "
                                     "str('map_projection_general_information'): "
                                     "dict{str('map_projection_type'): str('s12'), "
                                     "str('number_of_pixels_per_line'): int(13), str( ... [6907 chars, "
                                     'sha256 '
                                     'ed11d15cd3e0dae0bd335954d1cf61888cca81f1850a7e70aea8eac3cb714d33]',
 "projection/parsed 'utm-lower' from 5": "Group(path='/', url=None, attrs=dict{}, "
                                         "data=dict{str('general_information'): "
                                         "Group(path='/general_information', url=None, "
                                         "attrs=dict{str('map_projection_type'): str('s12'), "
                                         "str('n_columns'): int(13), str('n_rows'): int(14)}, "
                                         "data=dict{str('inter_line_distance_in_output_scene'): "
                                         'Variable(dims=tuple[], data=float(-22.875), '
                                         "attrs=dict{str('units'): str('m')}), "
                                         "str('inter_pixel_distance_in_output_sce ... [12003 chars, sha256 "
                                         '2494b7ee104caabfe86126ca8a19226a50231b924429c17a93829d8ce366e9e1]',
 "filter/parsed 'utm-lower' from 5": "same object: False || dict{str('preamble'): "
                                     "dict{str('record_sequence_number'): int(5), "
                                     "str('first_record_subtype'): int(6), str('record_type'): int(7), "
                                     "str('second_record_subtype'): int(8), str('third_record_subtype'): "
                                     "int(9), str('record_length'): int(10)}, str('blanks'): str('s96'), "
                                     "str('map_projection_general_information'): "
                                     "dict{str('map_projection_type'): str('s12'), str('number_of_pixels_per "
                                     '... [12492 chars, sha256 '
                                     'b68cce935609c12fbb94b0a26f28cdc79a3f70896535a4398cc5a453244e0fd3]',
 "corners/parsed 'utm-lower' from 5": "dict{str('projected'): dict{str('corner'): tuple[list[str('corner')], "
                                      "list[str('top_left'), str('top_right'), str('bottom_right'), "
                                      "str('bottom_left')], dict{}], str('northing'): "
                                      "tuple[list[str('corner')], list[float(90.375), float(93.375), "
                                      "float(nan), float(99.375)], dict{str('units'): str('km')}], "
                                      "str('easting'): tuple[list[str('corner')], list[float(-91.875), "
                                      'float(-94.875), float(-97.875), floa ... [2756 chars, sha256 '
                                      'aeb9bdfa10c7efd99c7d9ec4baf4fced7a8e432c8e6b8890b26685ffa66fdf5a]',
 "record/parsed 'XXX-UNKNOWN' from 60": "dict{str('preamble'): dict{str('record_sequence_number'): int(60), "
                                        "str('first_record_subtype'): int(61), str('record_type'): int(62), "
                                        "str('second_record_subtype'): int(63), str('third_record_subtype'): "
                                        "int(64), str('record_length'): int(65)}, str('blanks'): "
                                        "str('s151'), str('map_projection_general_information'): "
                                        "dict{str('map_projection_type'): str('s67'), "
                                        "str('number_of_pixels_per_line'): int(68) ... [6962 chars, sha256 "
                                        'bc23e74887d3c0dc17eca56df57c20cb23e6a8aad7a5ad3c9feec96081e1dd35]',
 "projection/parsed 'XXX-UNKNOWN' from 60": "Group(path='/', url=None, attrs=dict{}, "
                                            "data=dict{str('general_information'): "
                                            "Group(path='/general_information', url=None, "
                                            "attrs=dict{str('map_projection_type'): str('s67'), "
                                            "str('n_columns'): int(68), str('n_rows'): int(69)}, "
                                            "data=dict{str('inter_line_distance_in_output_scene'): "
                                            'Variable(dims=tuple[], data=float(105.375), '
                                            "attrs=dict{str('units'): str('m')}), "
                                            "str('inter_pixel_distance_in_output_sce ... [11587 chars, "
                                            'sha256 '
                                            '5c408aed033fecf38a3cdf3a938434be7f3fb7bdc1e2939b5a869a5cc74010d7]',
 "filter/parsed 'XXX-UNKNOWN' from 60": "same object: False || dict{str('preamble'): "
                                        "dict{str('record_sequence_number'): int(60), "
                                        "str('first_record_subtype'): int(61), str('record_type'): int(62), "
                                        "str('second_record_subtype'): int(63), str('third_record_subtype'): "
                                        "int(64), str('record_length'): int(65)}, str('blanks'): "
                                        "str('s151'), str('map_projection_general_information'): "
                                        "dict{str('map_projection_type'): str('s67'), str('number_of_pixe "
                                        '... [12049 chars, sha256 '
                                        '4db06e0c0323b65914d4cfc7f538e1885d120d84fe749dbc594202ef2d4777aa]',
 "corners/parsed 'XXX-UNKNOWN' from 60": "dict{str('projected'): dict{str('corner'): "
                                         "tuple[list[str('corner')], list[str('top_left'), str('top_right'), "
                                         "str('bottom_right'), str('bottom_left')], dict{}], "
                                         "str('northing'): tuple[list[str('corner')], list[float(-172.875), "
                                         'float(-175.875), float(-178.875), float(-181.875)], '
                                         "dict{str('units'): str('km')}], str('easting'): "
                                         "tuple[list[str('corner')], list[float(nan), float(177.375), "
                                         'float(180.375 ... [2763 chars, sha256 '
                                         'a19737e91ddb50c121e95fbc99487ff1fa2b31ec22bb8e63a27acc673933f184]',
 "record/parsed 'NODASH' from 700": "dict{str('preamble'): dict{str('record_sequence_number'): int(100), "
                                    "str('first_record_subtype'): int(101), str('record_type'): int(102), "
                                    "str('second_record_subtype'): int(103), str('third_record_subtype'): "
                                    "int(104), str('record_length'): int(105)}, str('blanks'): str('s791'), "
                                    "str('map_projection_general_information'): "
                                    "dict{str('map_projection_type'): str('s707'), "
                                    "str('number_of_pixels_per_line'):  ... [7035 chars, sha256 "
                                    '4a72f197df3d0f40d3897c392ecda29c6a7bc7872612ee4617a5a53b9dfcfaa5]',
 "projection/parsed 'NODASH' from 700": "raised builtins.ValueError('not enough values to unpack (expected "
                                        "2, got 1)') || args after: list[dict{str('preamble'): "
                                        "dict{str('record_sequence_number'): int(100), "
                                        "str('first_record_subtype'): int(101), str('record_type'): "
                                        "int(102), str('second_record_subtype'): int(103), "
                                        "str('third_record_subtype'): int(104), str('record_length'): "
                                        "int(105)}, str('blanks'): str('s791'), str('map_projection_gener "
                                        '... [7141 chars, sha256 '
                                        'a88acb8cdc4fb6810b29e7a37e7419d3d71745c31e22edb8c4ee68563f5c2c3a]',
 "filter/parsed 'NODASH' from 700": "raised builtins.ValueError('not enough values to unpack (expected 2, "
                                    "got 1)') || mapping after: dict{str('preamble'): "
                                    "dict{str('record_sequence_number'): int(100), "
                                    "str('first_record_subtype'): int(101), str('record_type'): int(102), "
                                    "str('second_record_subtype'): int(103), str('third_record_subtype'): "
                                    "int(104), str('record_length'): int(105)}, str('blanks'): str('s791'), "
                                    "str('map_projection_general ... [7131 chars, sha256 "
                                    '1e39560bc3d506a3e779ff34a44e206ace4caebb6c9aad1c5d301a0c77cae700]',
 "corners/parsed 'NODASH' from 700": "dict{str('projected'): dict{str('corner'): tuple[list[str('corner')], "
                                     "list[str('top_left'), str('top_right'), str('bottom_right'), "
                                     "str('bottom_left')], dict{}], str('northing'): "
                                     "tuple[list[str('corner')], list[float(-1132.875), float(-1135.875), "
                                     "float(-1138.875), float(-1141.875)], dict{str('units'): str('km')}], "
                                     "str('easting'): tuple[list[str('corner')], list[float(1134.375), "
                                     'float(1137.375), flo ... [2807 chars, sha256 '
                                     'd8633706b279fe361410081fba677ce645aa8cefd31c6cc42dfcecbd0a02137a]',
 "record/parsed '' from 8000": "dict{str('preamble'): dict{str('record_sequence_number'): int(0), "
                               "str('first_record_subtype'): int(1), str('record_type'): int(2), "
                               "str('second_record_subtype'): int(3), str('third_record_subtype'): int(4), "
                               "str('record_length'): int(5)}, str('blanks'): str('s8091'), "
                               "str('map_projection_general_information'): dict{str('map_projection_type'): "
                               "str('s8007'), str('number_of_pixels_per_line'): int(8008), ... [7095 chars, "
                               'sha256 a58dd01d8b52d93059b53db75340b1f6d087ecbff806eac20e83a599b04a6422]',
 "projection/parsed '' from 8000": "raised builtins.ValueError('not enough values to unpack (expected 2, got "
                                   "1)') || args after: list[dict{str('preamble'): "
                                   "dict{str('record_sequence_number'): int(0), str('first_record_subtype'): "
                                   "int(1), str('record_type'): int(2), str('second_record_subtype'): "
                                   "int(3), str('third_record_subtype'): int(4), str('record_length'): "
                                   "int(5)}, str('blanks'): str('s8091'), "
                                   "str('map_projection_general_informat ... [7201 chars, sha256 "
                                   '4b73d8fbd9e52a5bbf3cad9e7fb1f77f945a5c7c01f46d013656562c00f95110]',
 "filter/parsed '' from 8000": "raised builtins.ValueError('not enough values to unpack (expected 2, got "
                               "1)') || mapping after: dict{str('preamble'): "
                               "dict{str('record_sequence_number'): int(0), str('first_record_subtype'): "
                               "int(1), str('record_type'): int(2), str('second_record_subtype'): int(3), "
                               "str('third_record_subtype'): int(4), str('record_length'): int(5)}, "
                               "str('blanks'): str('s8091'), str('map_projection_general_informatio ... "
                               '[7191 chars, sha256 '
                               '8a1c9835afd3195d2652ba0c194a902f5b73fd34d98d8a4d0676f9fdbf71e14f]',
 "corners/parsed '' from 8000": "dict{str('projected'): dict{str('corner'): tuple[list[str('corner')], "
                                "list[str('top_left'), str('top_right'), str('bottom_right'), "
                                "str('bottom_left')], dict{}], str('northing'): tuple[list[str('corner')], "
                                'list[float(-12082.875), float(-12085.875), float(nan), float(-12091.875)], '
                                "dict{str('units'): str('km')}], str('easting'): tuple[list[str('corner')], "
                                'list[float(12084.375), float(12087.375), floa ... [2833 chars, sha256 '
                                'b76c662a514dd4659cc112a014a317c2c2a11a342a4b48cfdf2560a81dc62939]',
 "record/parsed '-' from 9": "dict{str('preamble'): dict{str('record_sequence_number'): int(9), "
                             "str('first_record_subtype'): int(10), str('record_type'): int(11), "
                             "str('second_record_subtype'): int(12), str('third_record_subtype'): int(13), "
                             "str('record_length'): int(14)}, str('blanks'): str('s100'), "
                             "str('map_projection_general_information'): dict{str('map_projection_type'): "
                             "str('s16'), str('number_of_pixels_per_line'): int(17), ... [6915 chars, sha256 "
                             'e558287df27d7c8b4b1ad0d6cd6ed13bade5f86a015d2b7c4bc5874a7a49dc38]',
 "projection/parsed '-' from 9": "Group(path='/', url=None, attrs=dict{}, "
                                 "data=dict{str('general_information'): Group(path='/general_information', "
                                 "url=None, attrs=dict{str('map_projection_type'): str('s16'), "
                                 "str('n_columns'): int(17), str('n_rows'): int(18)}, "
                                 "data=dict{str('inter_line_distance_in_output_scene'): "
                                 "Variable(dims=tuple[], data=float(-28.875), attrs=dict{str('units'): "
                                 "str('m')}), str('inter_pixel_distance_in_output_sce ... [11529 chars, "
                                 'sha256 530a79a9e0f5121c9d81f60cca0e9b0939d9f6c9ccf2fb111a91ddcce2d11ce8]',
 "filter/parsed '-' from 9": "same object: False || dict{str('preamble'): "
                             "dict{str('record_sequence_number'): int(9), str('first_record_subtype'): "
                             "int(10), str('record_type'): int(11), str('second_record_subtype'): int(12), "
                             "str('third_record_subtype'): int(13), str('record_length'): int(14)}, "
                             "str('blanks'): str('s100'), str('map_projection_general_information'): "
                             "dict{str('map_projection_type'): str('s16'), str('number_of_pixel ... [11984 "
                             'chars, sha256 '
                             '49cdaca95a3e11c56326f6df85ace9489f6d58130cb29d5b0573750409041cb5]',
 "corners/parsed '-' from 9": "dict{str('projected'): dict{str('corner'): tuple[list[str('corner')], "
                              "list[str('top_left'), str('top_right'), str('bottom_right'), "
                              "str('bottom_left')], dict{}], str('northing'): tuple[list[str('corner')], "
                              'list[float(nan), float(99.375), float(102.375), float(105.375)], '
                              "dict{str('units'): str('km')}], str('easting'): tuple[list[str('corner')], "
                              'list[float(-97.875), float(-100.875), float(-103.875),  ... [2759 chars, '
                              'sha256 94d0b79067bce1c0448bf7ff06c87e3eeee10ff282829c953b95593a00cd1f4f]',
 'projection/empty': "Group(path='/', url=None, attrs=dict{}, data=dict{}) || args after: list[dict{}] "
                     'dict{}',
 'projection/only preamble and blanks': "Group(path='/', url=None, attrs=dict{}, data=dict{}) || args after: "
                                        "list[dict{str('preamble'): dict{str('a'): int(1)}, str('blanks'): "
                                        "str('')}] dict{}",
 'projection/without designator keeps all projections': "Group(path='/', url=None, attrs=dict{}, "
                                                        "data=dict{str('general_information'): "
                                                        "Group(path='/general_information', url=None, "
                                                        "attrs=dict{str('map_projection_type'): str('s8'), "
                                                        "str('n_columns'): int(9), str('n_rows'): int(-1)}, "
                                                        "data=dict{str('inter_line_distance_in_output_scene'): "
                                                        'Variable(dims=tuple[], data=float(-16.875), '
                                                        "attrs=dict{str('units'): str('m')}), "
                                                        "str('inter_pixel_distance_in_output_scene ... "
                                                        '[14544 chars, sha256 '
                                                        'b786ce8ba9a2c78bfbae3d5fc4d1b9ecb35a84bc6fc09688c14a2117a786116b]',
 'projection/without corner points': "Group(path='/', url=None, attrs=dict{}, "
                                     "data=dict{str('general_information'): "
                                     "Group(path='/general_information', url=None, "
                                     "attrs=dict{str('map_projection_type'): str('s9'), str('n_columns'): "
                                     "int(-1), str('n_rows'): int(11)}, "
                                     "data=dict{str('inter_line_distance_in_output_scene'): "
                                     "Variable(dims=tuple[], data=float(nan), attrs=dict{str('units'): "
                                     "str('m')}), str('inter_pixel_distance_in_output_scene'): ... [8872 "
                                     'chars, sha256 '
                                     '3b7afc2dfdeb7ac3638bb0d9a825b68a3bff112d2c2bd174ce7e44365637f489]',
 'projection/minimal': "Group(path='/', url=None, attrs=dict{}, data=dict{str('projection'): "
                       "Group(path='/projection', url=None, attrs=dict{str('projection_descriptor'): "
                       "str('abc')}, data=dict{}), str('general_information'): "
                       "Group(path='/general_information', url=None, attrs=dict{str('n_rows'): int(3)}, "
                       "data=dict{})}) || args after: list[dict{str('map_projection_designator'): "
                       "str('LCC-X'), str('national_system_projection ... [583 chars, sha256 "
                       'b7c42a381159406f13b30e705e3179ca23f2020a2ec6d0cade79f4aae41b552c]',
 'projection/not a mapping': 'raised builtins.AttributeError("\'list\' object has no attribute \'items\'") '
                             '|| args after: list[list[int(1)]] dict{}'}
# fmt: on


def test_equivalence():
    failures = report(CASES, EXPECTED)
    assert not failures, "\n".join(failures)


if __name__ == "__main__":
    import ceos_alos2

    print("ceos_alos2 from", ceos_alos2.__file__)
    failures = report(CASES, EXPECTED)
    if "--record" not in sys.argv:
        for failure in failures:
            print("MISMATCH", failure)
        print(f"{len(CASES) - len(failures)} of {len(CASES)} cases identical to the recording")
        sys.exit(1 if failures else 0)
