"""Equivalence check for refactoring 4: sar_leader/platform_position.py (struct definitions: orbit_point, platform_position_record)

Self-contained.  Run as a script

    cd /tmp/wt3/e15 && PYTHONPATH=/tmp/wt3/e15 /venv/bin/python _eq/4/equiv.py

(exit status 0 = all cases equal the recorded outcomes) or through pytest

    cd /tmp/wt3/e15 && PYTHONPATH=/tmp/wt3/e15 /venv/bin/python -m pytest -q -p no:cacheprovider _eq/4/equiv.py

``EXPECTED`` at the bottom was recorded with ``equiv.py --record`` from the UNCHANGED code
(clean HEAD).  Every case stores either the canonical text of the result (types, order and
values of everything reachable, optionally also which containers are shared) or, if that text
is long, its sha256; raising cases store exception type and message.
"""
# ruff: noqa
# fmt: off
import hashlib
import io as _io
import pprint
import random
import struct as _struct
import sys

import construct as C
import numpy as np

import ceos_alos2
from ceos_alos2 import datatypes as D
from ceos_alos2.hierarchy import Group, Variable

# --------------------------------------------------------------------------
# canonical, type-preserving text form of arbitrary results
# --------------------------------------------------------------------------


def canon(obj):
    """Convert a result into plain nested tuples that record types, order and values."""
    if isinstance(obj, Group):
        return (
            "Group",
            ("path", obj.path),
            ("url", obj.url),
            ("attrs", canon(obj.attrs)),
            ("data", [(name, canon(value)) for name, value in obj.data.items()]),
        )
    if isinstance(obj, Variable):
        return ("Variable", canon(obj.dims), canon(obj.data), canon(obj.attrs))
    if isinstance(obj, np.ndarray):
        if obj.dtype.kind in "mM":
            values = obj.astype("int64").tolist()
        else:
            values = obj.tolist()
        return ("ndarray", str(obj.dtype), tuple(obj.shape), repr(values))
    if isinstance(obj, np.generic):
        return ("npscalar", type(obj).__name__, str(obj.dtype), repr(obj.item()))
    if isinstance(obj, dict):
        return (type(obj).__name__, [(canon(k), canon(v)) for k, v in obj.items()])
    if isinstance(obj, (list, tuple)):
        return (type(obj).__name__, [canon(v) for v in obj])
    if isinstance(obj, (bool, int, float, complex, str, bytes, type(None))):
        return (type(obj).__name__, repr(obj))
    if callable(obj):
        return ("callable", type(obj).__name__)
    return ("object", type(obj).__name__, repr(obj))


def aliasing(obj):
    """Record which mutable containers inside a result are the same object.

    Returns the list of groups (as lists of paths) of dict / list objects that occur more
    than once in the result.
    """
    seen = {}

    def visit(value, path):
        if isinstance(value, Group):
            visit(value.attrs, path + ("@attrs",))
            visit(value.data, path + ("@data",))
        elif isinstance(value, Variable):
            visit(value.dims, path + ("@dims",))
            visit(value.data, path + ("@vdata",))
            visit(value.attrs, path + ("@attrs",))
        elif isinstance(value, dict):
            seen.setdefault(id(value), []).append(path)
            for k, v in value.items():
                visit(v, path + (k,))
        elif isinstance(value, (list, tuple)):
            if isinstance(value, list):
                seen.setdefault(id(value), []).append(path)
            for i, v in enumerate(value):
                visit(v, path + (i,))
        elif isinstance(value, np.ndarray):
            seen.setdefault(id(value), []).append(path)

    visit(obj, ())
    return sorted(paths for paths in seen.values() if len(paths) > 1)


def outcome(thunk, with_aliasing=False):
    """Run a case and describe what happened: the result or the exception."""
    try:
        result = thunk()
    except Exception as e:  # noqa: BLE001
        text = pprint.pformat(("raises", type(e).__name__, str(e)), width=100)
    else:
        described = ("returns", canon(result))
        if with_aliasing:
            described += (("aliasing", aliasing(result)),)
        text = pprint.pformat(described, width=100)
    if len(text) > 700:
        digest = hashlib.sha256(text.encode()).hexdigest()
        return f"sha256:{digest}:len={len(text)}"
    return text


# --------------------------------------------------------------------------
# synthetic CEOS bytes for any of the library's construct definitions
# --------------------------------------------------------------------------


def _evaluate(value, ctx):
    return value(ctx) if callable(value) else value


class Synth:
    """Generate bytes which the given construct definition parses.

    Walks the definition; leaves are filled with seeded pseudo random ASCII text of the
    declared width.  ``overrides`` maps a path suffix (tuple of member names) to the value to
    write. ``blank`` is the probability of leaving a numeric / text leaf blank.
    """

    def __init__(self, seed, overrides=None, blank=0.0):
        self.rng = random.Random(seed)
        self.overrides = dict(overrides or {})
        self.blank = blank

    def lookup(self, path):
        names = tuple(p for p in path if isinstance(p, str))
        for n in range(len(names)):
            if names[n:] in self.overrides:
                return True, self.overrides[names[n:]]
        return False, None

    @staticmethod
    def _width(sc, ctx):
        # datatypes.* adapters wrap construct.PaddedString = StringEncoded(FixedSized(n, ...))
        return _evaluate(sc.subcon.subcon.length, ctx)

    def _fit(self, text, n, right=False):
        if len(text) > n:
            text = text[:n]
        return (text.rjust(n) if right else text.ljust(n)).encode("ascii")

    def integer(self, n, path):
        found, value = self.lookup(path)
        if found:
            return self._fit(str(value), n, right=True)
        if self.rng.random() < self.blank:
            return b" " * n
        digits = self.rng.randint(1, max(1, min(n, 5)))
        return self._fit(str(self.rng.randrange(10**digits)), n, right=True)

    def floating(self, n, path):
        found, value = self.lookup(path)
        if found:
            if isinstance(value, str):
                return self._fit(value, n, right=True)
        elif self.rng.random() < self.blank:
            return b" " * n
        else:
            value = self.rng.uniform(-1000, 1000)
        if n >= 14:
            text = f"{value:.{n - 9}E}"
        else:
            text = f"{value:.2f}"
        if len(text) > n:
            text = f"{value:.0f}"
        return self._fit(text, n, right=True)

    def text(self, n, path):
        found, value = self.lookup(path)
        if found:
            return self._fit(str(value), n)
        if self.rng.random() < self.blank or n <= 0:
            return b" " * max(n, 0)
        length = self.rng.randint(1, min(n, 12))
        letters = "".join(self.rng.choice("ABCDEFGHIJKLMNOPQRSTUVWXYZ0123456789") for _ in range(length))
        return self._fit(letters, n)

    def build(self, sc, ctx=None, path=()):
        if ctx is None:
            ctx = C.Container(_parsing=True, _building=False, _sizing=False, _params=C.Container())
        if isinstance(sc, C.Renamed):
            return self.build(sc.subcon, ctx, path)
        if isinstance(sc, C.Struct):
            inner = C.Container(
                _=ctx,
                _params=ctx._params,
                _root=None,
                _parsing=True,
                _building=False,
                _sizing=False,
                _io=None,
                _index=ctx.get("_index", None),
            )
            inner._root = inner._.get("_root", ctx)
            out = b""
            for member in sc.subcons:
                chunk = self.build(member, inner, path + (member.name,))
                inner[member.name] = member._parsereport(_io.BytesIO(chunk), inner, "synth")
                out += chunk
            return out
        if isinstance(sc, C.Array):
            count = _evaluate(sc.count, ctx)
            return b"".join(self.build(sc.subcon, ctx, path + (i,)) for i in range(count))
        if isinstance(sc, C.Enum):
            found, value = self.lookup(path)
            if not found:
                value = self.rng.choice(sorted(sc.encmapping.values(), key=str))
            n = self._width(sc.subcon, ctx)
            return self._fit(str(value), n, right=isinstance(sc.subcon, D.AsciiInteger))
        if isinstance(sc, D.AsciiInteger):
            return self.integer(self._width(sc, ctx), path)
        if isinstance(sc, D.AsciiFloat):
            return self.floating(self._width(sc, ctx), path)
        if isinstance(sc, D.PaddedString):
            return self.text(self._width(sc, ctx), path)
        if isinstance(sc, C.FormatField):
            found, value = self.lookup(path)
            if not found:
                value = self.rng.randrange(1, 200)
            return _struct.pack(sc.fmtstr, value)
        if isinstance(sc, C.Adapter):  # Metadata, Factor, AsciiComplex
            return self.build(sc.subcon, ctx, path)
        raise NotImplementedError(f"{type(sc).__name__} at {path}")


# --------------------------------------------------------------------------
# driver
# --------------------------------------------------------------------------


def run_cases(cases):
    results = {}
    for name, thunk, *flags in cases:
        if name in results:
            raise RuntimeError(f"duplicate case name {name}")
        results[name] = outcome(thunk, with_aliasing=bool(flags and flags[0]))
    return results


def check(cases, expected):
    actual = run_cases(cases)
    problems = []
    for name in sorted(set(actual) | set(expected)):
        if actual.get(name) != expected.get(name):
            problems.append(
                f"--- case {name!r}\n    expected: {expected.get(name)}\n    actual:   {actual.get(name)}"
            )
    return actual, problems


def main(cases, expected):
    print("library under test:", ceos_alos2.__file__)
    if "--record" in sys.argv:
        print("EXPECTED = " + pprint.pformat(run_cases(cases), width=110, sort_dicts=False))
        return 0
    actual, problems = check(cases, expected)
    for problem in problems:
        print(problem)
    n_raise = sum(1 for v in actual.values() if v.startswith("('raises'"))
    print(f"{len(actual)} cases ({n_raise} raising), {len(problems)} mismatches")
    return 1 if problems else 0


# --------------------------------------------------------------------------
# cases
# --------------------------------------------------------------------------

import copy

from ceos_alos2.sar_leader import platform_position as pp
from ceos_alos2.sar_leader.metadata import transform_metadata
from ceos_alos2.sar_leader.platform_position import orbit_point, platform_position_record
from ceos_alos2.sar_leader.structure import sar_leader_record
from ceos_alos2.utils import to_dict

OVERRIDES = {
    ("datetime_of_first_point", "date"): "2011 07 16",
    ("datetime_of_first_point", "seconds_of_day"): 4321.5,
}


def record_bytes(seed, blank=0.0, overrides=None):
    return Synth(seed, OVERRIDES | (overrides or {}), blank=blank).build(platform_position_record)


def describe(sc):
    """Structural dump of a construct definition: classes, names, widths, counts, attrs."""
    kind = type(sc).__name__
    if isinstance(sc, C.Renamed):
        return ("Renamed", sc.name, sc.docs, describe(sc.subcon))
    if isinstance(sc, C.Struct):
        return ("Struct", [describe(member) for member in sc.subcons])
    if isinstance(sc, C.Array):
        return ("Array", sc.count if not callable(sc.count) else "callable", describe(sc.subcon))
    if isinstance(sc, C.Enum):
        return ("Enum", sorted(sc.encmapping.items()), describe(sc.subcon))
    if isinstance(sc, D.Metadata):
        return ("Metadata", sorted(sc.attrs.items()), describe(sc.subcon))
    if isinstance(sc, (D.AsciiInteger, D.AsciiFloat, D.PaddedString)):
        return (kind, sc.subcon.subcon.length, sc.subcon.encoding)
    if isinstance(sc, C.FormatField):
        return (kind, sc.fmtstr, sc.length)
    raise NotImplementedError(kind)


def metadata_instances(sc, found=None):
    found = [] if found is None else found
    if isinstance(sc, D.Metadata):
        found.append(sc)
    for child in getattr(sc, "subcons", None) or [getattr(sc, "subcon", None)]:
        if child is not None and isinstance(child, C.Construct):
            metadata_instances(child, found)
    return found


def structure_cases():
    yield "structure/record", lambda: describe(platform_position_record)
    yield "structure/orbit-point", lambda: describe(orbit_point)
    yield "structure/sizes", lambda: {
        "record": platform_position_record.sizeof(),
        "orbit_point": orbit_point.sizeof(),
        "positions": platform_position_record.positions.sizeof(),
        "orbital_elements": platform_position_record.orbital_elements.sizeof(),
        "nominal_error": platform_position_record.nominal_error.sizeof(),
    }
    yield "structure/names", lambda: {
        "record": [member.name for member in platform_position_record.subcons],
        "orbit_point": [member.name for member in orbit_point.subcons],
        "position": [member.name for member in orbit_point.position.subcons],
        "nominal_error.velocity": [
            member.name for member in platform_position_record.nominal_error.velocity.subcons
        ],
    }

    def sharing():
        instances = metadata_instances(platform_position_record)
        positions = platform_position_record.positions
        return {
            "positions_use_orbit_point": positions.subcon.subcon is orbit_point,
            "n_metadata_fields": len(instances),
            "n_distinct_metadata_fields": len({id(i) for i in instances}),
            "n_distinct_attrs_dicts": len({id(i.attrs) for i in instances}),
            "types": sorted({type(i.attrs).__name__ for i in instances}),
        }

    yield "structure/sharing", sharing
    yield "structure/public-names", lambda: sorted(
        name
        for name in ("orbit_point", "platform_position_record", "orbital_elements_designator",
                     "transform_composite_datetime", "transform_positions",
                     "transform_platform_position")
        if hasattr(pp, name)
    )


def parse_cases():
    def parse(data, definition=platform_position_record):
        return lambda: to_dict(definition.parse(data))

    for seed in (1, 2, 3, 4):
        yield f"parse/record/{seed}", parse(record_bytes(seed)), True
    yield "parse/record/blanks-some", parse(record_bytes(5, blank=0.3)), True
    yield "parse/record/blanks-most", parse(record_bytes(6, blank=0.9)), True
    yield "parse/record/all-spaces", parse(b" " * 12 + b"0" + b" " * (platform_position_record.sizeof() - 13))
    for designator in ("0", "1", "2"):
        yield f"parse/record/designator/{designator}", parse(
            record_bytes(7, overrides={("orbital_elements_designator",): designator})
        )
    yield "parse/record/trailing", parse(record_bytes(8) + b"more bytes")
    yield "parse/record/zeros", parse(b"\x00" * platform_position_record.sizeof())

    full = record_bytes(9)
    size = platform_position_record.sizeof()
    # truncation inside every part of the record: the error names the failing field
    offsets = [0, 5, 12, 30, 44, 44 + 16 * 2 + 3, 44 + 16 * 5 + 15, 140, 144, 150, 160, 182,
               204, 268, 290, 290 + 16 * 2 + 1, 290 + 16 * 4, 386, 386 + 22 * 3 + 1,
               386 + 132 * 27 + 22 * 5 + 21, 386 + 132 * 28, 386 + 132 * 28 + 18, size - 579,
               size - 1]
    for offset in offsets:
        yield f"parse/truncated/{offset}", parse(full[:offset])

    def corrupt(offset, replacement):
        data = bytearray(full)
        data[offset:offset + len(replacement)] = replacement
        return bytes(data)

    # not a number / not ascii inside helper-built and hand-written fields
    spots = {
        "orbital_elements.position.x": 44,
        "orbital_elements.velocity.z": 44 + 16 * 5,
        "number_of_data_points": 140,
        "nominal_error.position.along_track": 290,
        "nominal_error.velocity.radial": 290 + 16 * 5,
        "positions[0].position.x": 386,
        "positions[27].velocity.z": 386 + 132 * 27 + 22 * 5,
    }
    for name, offset in spots.items():
        yield f"parse/not-a-number/{name}", parse(corrupt(offset, b"abc"))
        yield f"parse/not-ascii/{name}", parse(corrupt(offset, b"\xff\xfe"))
        yield f"parse/special-float/{name}", parse(corrupt(offset, b"  -inf  "))

    point = Synth(11).build(orbit_point)
    yield "parse/orbit-point", parse(point, orbit_point), True
    yield "parse/orbit-point/truncated", parse(point[:100], orbit_point)
    yield "parse/orbit-point/array", lambda: to_dict(orbit_point[3].parse(point * 3))
    yield "parse/orbit-point/blank", parse(b" " * orbit_point.sizeof(), orbit_point)

    def attrs_identity():
        parsed = platform_position_record.parse(full)
        positions = parsed.positions
        return {
            "same_field_same_attrs": positions[0].position.x[1] is positions[27].position.x[1],
            "x_and_y_differ": positions[0].position.x[1] is not positions[0].position.y[1],
            "position_and_velocity_differ": (
                positions[0].position.x[1] is not positions[0].velocity.x[1]
            ),
            "elements_and_points_differ": (
                parsed.orbital_elements.position.x[1] is not positions[0].position.x[1]
            ),
            "elements_and_error_differ": (
                parsed.orbital_elements.position.x[1]
                is not parsed.nominal_error.position.along_track[1]
            ),
            "stable_between_parses": (
                platform_position_record.parse(full).nominal_error.velocity.radial[1]
                is parsed.nominal_error.velocity.radial[1]
            ),
            "container_types": sorted(
                {
                    type(parsed).__name__,
                    type(positions).__name__,
                    type(positions[0]).__name__,
                    type(positions[0].position).__name__,
                    type(positions[0].position.x).__name__,
                }
            ),
        }

    yield "parse/attrs-identity", attrs_identity

    def build():
        return platform_position_record.build(to_dict(platform_position_record.parse(full)))

    yield "parse/build-not-supported", build
    yield "parse/build-orbit-point-not-supported", lambda: orbit_point.build(
        {"position": {"x": 1.0, "y": 2.0, "z": 3.0}, "velocity": {"x": 1.0, "y": 2.0, "z": 3.0}}
    )
    yield "parse/not-bytes", parse("text")
    yield "parse/none", parse(None)


def transform_cases():
    def run(data):
        return lambda: pp.transform_platform_position(to_dict(platform_position_record.parse(data)))

    for seed in (21, 22):
        yield f"transform/record/{seed}", run(record_bytes(seed)), True
    yield "transform/record/blanks", run(record_bytes(23, blank=0.5)), True

    def positions_only():
        parsed = to_dict(platform_position_record.parse(record_bytes(24)))
        return pp.transform_positions(parsed["positions"])

    yield "transform/positions", positions_only, True

    def leader(seed, blank=0.0):
        def thunk():
            overrides = dict(OVERRIDES)
            overrides.update(
                {
                    ("file_descriptor", "map_projection", "number_of_records"): 1,
                    ("map_projection_designator",): "UTM-PROJECTION",
                    ("scene_center_time",): "20110716012345678",
                    ("attitude", "preamble", "record_length"): 16 + 2 * 120 + 24,
                    ("attitude", "number_of_points"): 2,
                    ("number_of_channels",): 2,
                }
            )
            for i in range(1, 6):
                overrides[(f"facility_related_data_{i}", "preamble", "record_length")] = 70
            data = Synth(seed, overrides, blank=blank).build(sar_leader_record)
            parsed = to_dict(sar_leader_record.parse(data))
            return {
                "platform_position": copy.deepcopy(parsed["platform_position"]),
                "metadata": transform_metadata(parsed),
            }

        return thunk

    yield "transform/leader/31", leader(31), True
    yield "transform/leader/blanks", leader(32, blank=0.3), True


def cases():
    yield from structure_cases()
    yield from parse_cases()
    yield from transform_cases()


# --------------------------------------------------------------------------
# outcomes recorded from the unchanged code
# --------------------------------------------------------------------------

EXPECTED = {'structure/record': 'sha256:0d1c4e192bf9264a0ccb227690139297a26af8c92b80ebb3351e5a81739dc385:len=13800',
 'structure/orbit-point': 'sha256:04542f5cb6090c060e28710b4aa6569cd4a6b20b1eca7aaccc12fcdb02cdfcc5:len=2470',
 'structure/sizes': "('returns',\n"
                    " ('dict',\n"
                    '  [((\'str\', "\'record\'"), (\'int\', \'4680\')),\n'
                    '   ((\'str\', "\'orbit_point\'"), (\'int\', \'132\')),\n'
                    '   ((\'str\', "\'positions\'"), (\'int\', \'3696\')),\n'
                    '   ((\'str\', "\'orbital_elements\'"), (\'int\', \'96\')),\n'
                    '   ((\'str\', "\'nominal_error\'"), (\'int\', \'96\'))]))',
 'structure/names': 'sha256:e81b4ed4201fccc485715cea24c6d2d95fdf1830be12084677a1af7aadcb47fd:len=894',
 'structure/sharing': "('returns',\n"
                      " ('dict',\n"
                      '  [((\'str\', "\'positions_use_orbit_point\'"), (\'bool\', \'True\')),\n'
                      '   ((\'str\', "\'n_metadata_fields\'"), (\'int\', \'20\')),\n'
                      '   ((\'str\', "\'n_distinct_metadata_fields\'"), (\'int\', \'20\')),\n'
                      '   ((\'str\', "\'n_distinct_attrs_dicts\'"), (\'int\', \'20\')),\n'
                      '   ((\'str\', "\'types\'"), (\'list\', [(\'str\', "\'dict\'")]))]))',
 'structure/public-names': "('returns',\n"
                           " ('list',\n"
                           '  [(\'str\', "\'orbit_point\'"),\n'
                           '   (\'str\', "\'orbital_elements_designator\'"),\n'
                           '   (\'str\', "\'platform_position_record\'"),\n'
                           '   (\'str\', "\'transform_composite_datetime\'"),\n'
                           '   (\'str\', "\'transform_platform_position\'"),\n'
                           '   (\'str\', "\'transform_positions\'")]))',
 'parse/record/1': 'sha256:8246ec3fc599ea43972cebaad53771f922dcb562168aa41aaea6cf8c075f96af:len=31960',
 'parse/record/2': 'sha256:2a3d3ea1cfbe80ff55aa8ee737354151dccfbc5da6b6b6f06b7c104d725a6b70:len=31956',
 'parse/record/3': 'sha256:7b44169229d69295dd9531f48bf69e5d57ef499b726253e4494bb74f3d52d03e:len=31982',
 'parse/record/4': 'sha256:4cdb184aa5f0d82183caacfd0e95c4391493db56b02e94aa4ce8f9f4d77dbc32:len=31996',
 'parse/record/blanks-some': 'sha256:be2983225ce7ca545beb40d8f48d890c9625b13e9fb716636f0ba6bba349259b:len=30602',
 'parse/record/blanks-most': 'sha256:6bf9b4e4b45928cf1745b97e96a707c8d39b509ccba37e6b043ae5672b952c6b:len=27740',
 'parse/record/all-spaces': 'sha256:cee55eb5e3c652ee7486570f2becfc772d39b20fda575665a0403978f6038ba6:len=27171',
 'parse/record/designator/0': 'sha256:cd4399d0d1a6af201ec3e597a57d73cdf11cba764fbc4dfef10fc198c4dfd4e7:len=31956',
 'parse/record/designator/1': 'sha256:95a3351835742a097f0a87c106dba5b708eb0854d98916f0337bc1fe14923c1f:len=31953',
 'parse/record/designator/2': 'sha256:18a99c5854587611178c1b4654f85c01aeffadb9e0f4e80dc2ddf8acb3c998e3:len=31959',
 'parse/record/trailing': 'sha256:d0723a223ac85181d3012ed42572618c1f0a97d27bab8d3dd33120121c91d350:len=31968',
 'parse/record/zeros': '(\'raises\', \'ValueError\', "invalid literal for int() with base 10: \'\'")',
 'parse/truncated/0': "('raises',\n"
                      " 'StreamError',\n"
                      " 'Error in path (parsing) -> preamble -> record_sequence_number\\n'\n"
                      " 'stream read less than specified amount, expected 4, found 0')",
 'parse/truncated/5': "('raises',\n"
                      " 'StreamError',\n"
                      " 'Error in path (parsing) -> preamble -> record_type\\n'\n"
                      " 'stream read less than specified amount, expected 1, found 0')",
 'parse/truncated/12': "('raises',\n"
                       " 'StreamError',\n"
                       " 'Error in path (parsing) -> orbital_elements_designator\\n'\n"
                       " 'stream read less than specified amount, expected 32, found 0')",
 'parse/truncated/30': "('raises',\n"
                       " 'StreamError',\n"
                       " 'Error in path (parsing) -> orbital_elements_designator\\n'\n"
                       " 'stream read less than specified amount, expected 32, found 18')",
 'parse/truncated/44': "('raises',\n"
                       " 'StreamError',\n"
                       " 'Error in path (parsing) -> orbital_elements -> position -> x\\n'\n"
                       " 'stream read less than specified amount, expected 16, found 0')",
 'parse/truncated/79': "('raises',\n"
                       " 'StreamError',\n"
                       " 'Error in path (parsing) -> orbital_elements -> position -> z\\n'\n"
                       " 'stream read less than specified amount, expected 16, found 3')",
 'parse/truncated/139': "('raises',\n"
                        " 'StreamError',\n"
                        " 'Error in path (parsing) -> orbital_elements -> velocity -> z\\n'\n"
                        " 'stream read less than specified amount, expected 16, found 15')",
 'parse/truncated/140': "('raises',\n"
                        " 'StreamError',\n"
                        " 'Error in path (parsing) -> number_of_data_points\\n'\n"
                        " 'stream read less than specified amount, expected 4, found 0')",
 'parse/truncated/144': "('raises',\n"
                        " 'StreamError',\n"
                        " 'Error in path (parsing) -> datetime_of_first_point -> date\\n'\n"
                        " 'stream read less than specified amount, expected 12, found 0')",
 'parse/truncated/150': "('raises',\n"
                        " 'StreamError',\n"
                        " 'Error in path (parsing) -> datetime_of_first_point -> date\\n'\n"
                        " 'stream read less than specified amount, expected 12, found 6')",
 'parse/truncated/160': "('raises',\n"
                        " 'StreamError',\n"
                        " 'Error in path (parsing) -> datetime_of_first_point -> seconds_of_day\\n'\n"
                        " 'stream read less than specified amount, expected 22, found 0')",
 'parse/truncated/182': "('raises',\n"
                        " 'StreamError',\n"
                        " 'Error in path (parsing) -> time_interval_between_data_points\\n'\n"
                        " 'stream read less than specified amount, expected 22, found 0')",
 'parse/truncated/204': "('raises',\n"
                        " 'StreamError',\n"
                        " 'Error in path (parsing) -> reference_coordinate_system\\n'\n"
                        " 'stream read less than specified amount, expected 64, found 0')",
 'parse/truncated/268': "('raises',\n"
                        " 'StreamError',\n"
                        " 'Error in path (parsing) -> greenwich_mean_hour_angle\\n'\n"
                        " 'stream read less than specified amount, expected 22, found 0')",
 'parse/truncated/290': "('raises',\n"
                        " 'StreamError',\n"
                        " 'Error in path (parsing) -> nominal_error -> position -> along_track\\n'\n"
                        " 'stream read less than specified amount, expected 16, found 0')",
 'parse/truncated/323': "('raises',\n"
                        " 'StreamError',\n"
                        " 'Error in path (parsing) -> nominal_error -> position -> radial\\n'\n"
                        " 'stream read less than specified amount, expected 16, found 1')",
 'parse/truncated/354': "('raises',\n"
                        " 'StreamError',\n"
                        " 'Error in path (parsing) -> nominal_error -> velocity -> across_track\\n'\n"
                        " 'stream read less than specified amount, expected 16, found 0')",
 'parse/truncated/386': "('raises',\n"
                        " 'StreamError',\n"
                        " 'Error in path (parsing) -> positions -> position -> x\\n'\n"
                        " 'stream read less than specified amount, expected 22, found 0')",
 'parse/truncated/453': "('raises',\n"
                        " 'StreamError',\n"
                        " 'Error in path (parsing) -> positions -> velocity -> x\\n'\n"
                        " 'stream read less than specified amount, expected 22, found 1')",
 'parse/truncated/4081': "('raises',\n"
                         " 'StreamError',\n"
                         " 'Error in path (parsing) -> positions -> velocity -> z\\n'\n"
                         " 'stream read less than specified amount, expected 22, found 21')",
 'parse/truncated/4082': "('raises',\n"
                         " 'StreamError',\n"
                         " 'Error in path (parsing) -> blanks1\\nstream read less than specified amount, "
                         "expected 18, found 0')",
 'parse/truncated/4100': "('raises',\n"
                         " 'StreamError',\n"
                         " 'Error in path (parsing) -> occurrence_flag_of_a_leap_second\\n'\n"
                         " 'stream read less than specified amount, expected 1, found 0')",
 'parse/truncated/4101': "('raises',\n"
                         " 'StreamError',\n"
                         " 'Error in path (parsing) -> blanks2\\n'\n"
                         " 'stream read less than specified amount, expected 579, found 0')",
 'parse/truncated/4679': "('raises',\n"
                         " 'StreamError',\n"
                         " 'Error in path (parsing) -> blanks2\\n'\n"
                         " 'stream read less than specified amount, expected 579, found 578')",
 'parse/not-a-number/orbital_elements.position.x': '(\'raises\', \'ValueError\', "could not convert string '
                                                   'to float: \'abc5.5641601E+00\'")',
 'parse/not-ascii/orbital_elements.position.x': '(\'raises\', \'StringError\', "cannot use encoding '
                                                '\'ascii\' to decode b\'\\\\xff\\\\xfe 5.5641601E+00\'")',
 'parse/special-float/orbital_elements.position.x': '(\'raises\', \'ValueError\', "could not convert string '
                                                    'to float: \'-inf  1601E+00\'")',
 'parse/not-a-number/orbital_elements.velocity.z': '(\'raises\', \'ValueError\', "could not convert string '
                                                   'to float: \'abc6.8568568E+02\'")',
 'parse/not-ascii/orbital_elements.velocity.z': '(\'raises\', \'StringError\', "cannot use encoding '
                                                '\'ascii\' to decode b\'\\\\xff\\\\xfe-6.8568568E+02\'")',
 'parse/special-float/orbital_elements.velocity.z': '(\'raises\', \'ValueError\', "could not convert string '
                                                    'to float: \'-inf  8568E+02\'")',
 'parse/not-a-number/number_of_data_points': '(\'raises\', \'ValueError\', "invalid literal for int() with '
                                             'base 10: \'abc2\'")',
 'parse/not-ascii/number_of_data_points': '(\'raises\', \'StringError\', "cannot use encoding \'ascii\' to '
                                          'decode b\'\\\\xff\\\\xfe 2\'")',
 'parse/special-float/number_of_data_points': '(\'raises\', \'ValueError\', "invalid literal for int() with '
                                              'base 10: \'-i\'")',
 'parse/not-a-number/nominal_error.position.along_track': '(\'raises\', \'ValueError\', "could not convert '
                                                          'string to float: \'abc9.1361056E+02\'")',
 'parse/not-ascii/nominal_error.position.along_track': '(\'raises\', \'StringError\', "cannot use encoding '
                                                       "'ascii' to decode "
                                                       'b\'\\\\xff\\\\xfe-9.1361056E+02\'")',
 'parse/special-float/nominal_error.position.along_track': '(\'raises\', \'ValueError\', "could not convert '
                                                           'string to float: \'-inf  1056E+02\'")',
 'parse/not-a-number/nominal_error.velocity.radial': '(\'raises\', \'ValueError\', "could not convert string '
                                                     'to float: \'abc9.2802512E+02\'")',
 'parse/not-ascii/nominal_error.velocity.radial': '(\'raises\', \'StringError\', "cannot use encoding '
                                                  '\'ascii\' to decode b\'\\\\xff\\\\xfe 9.2802512E+02\'")',
 'parse/special-float/nominal_error.velocity.radial': '(\'raises\', \'ValueError\', "could not convert '
                                                      'string to float: \'-inf  2512E+02\'")',
 'parse/not-a-number/positions[0].position.x': '(\'raises\', \'ValueError\', "could not convert string to '
                                               'float: \'abc5.2872628835887E+02\'")',
 'parse/not-ascii/positions[0].position.x': '(\'raises\', \'StringError\', "cannot use encoding \'ascii\' to '
                                            'decode b\'\\\\xff\\\\xfe 5.2872628835887E+02\'")',
 'parse/special-float/positions[0].position.x': '(\'raises\', \'ValueError\', "could not convert string to '
                                                'float: \'-inf  2628835887E+02\'")',
 'parse/not-a-number/positions[27].velocity.z': '(\'raises\', \'ValueError\', "could not convert string to '
                                                'float: \'abc5.5408354140942E+02\'")',
 'parse/not-ascii/positions[27].velocity.z': '(\'raises\', \'StringError\', "cannot use encoding \'ascii\' '
                                             'to decode b\'\\\\xff\\\\xfe-5.5408354140942E+02\'")',
 'parse/special-float/positions[27].velocity.z': '(\'raises\', \'ValueError\', "could not convert string to '
                                                 'float: \'-inf  8354140942E+02\'")',
 'parse/orbit-point': 'sha256:39c139b02ff25960701ac1e1676b12016f9b12b2354e937fcd1a1fc4b08fd6d3:len=920',
 'parse/orbit-point/truncated': "('raises',\n"
                                " 'StreamError',\n"
                                " 'Error in path (parsing) -> velocity -> y\\n'\n"
                                " 'stream read less than specified amount, expected 22, found 12')",
 'parse/orbit-point/array': 'sha256:3e8130ccc71f82570fd419ffef38a5c13ec29287e26fbb0bf3661748e92f2961:len=2888',
 'parse/orbit-point/blank': 'sha256:832324c15004e45daa2dd9eb87623d056fdfc856ab28584cd15b024cf4bc91c5:len=787',
 'parse/attrs-identity': "('returns',\n"
                         " ('dict',\n"
                         '  [((\'str\', "\'same_field_same_attrs\'"), (\'bool\', \'True\')),\n'
                         '   ((\'str\', "\'x_and_y_differ\'"), (\'bool\', \'True\')),\n'
                         '   ((\'str\', "\'position_and_velocity_differ\'"), (\'bool\', \'True\')),\n'
                         '   ((\'str\', "\'elements_and_points_differ\'"), (\'bool\', \'True\')),\n'
                         '   ((\'str\', "\'elements_and_error_differ\'"), (\'bool\', \'True\')),\n'
                         '   ((\'str\', "\'stable_between_parses\'"), (\'bool\', \'True\')),\n'
                         '   ((\'str\', "\'container_types\'"),\n'
                         '    (\'list\', [(\'str\', "\'Container\'"), (\'str\', "\'ListContainer\'"), '
                         '(\'str\', "\'tuple\'")]))]))',
 'parse/build-not-supported': "('raises', 'NotImplementedError', '')",
 'parse/build-orbit-point-not-supported': "('raises', 'NotImplementedError', '')",
 'parse/not-bytes': '(\'raises\', \'TypeError\', "a bytes-like object is required, not \'str\'")',
 'parse/none': "('raises',\n"
               " 'StreamError',\n"
               " 'Error in path (parsing) -> preamble -> record_sequence_number\\n'\n"
               " 'stream read less than specified amount, expected 4, found 0')",
 'transform/record/21': 'sha256:f979249f92d6dfd34aecb2717a63eb5d45afc683f3f28b951cd2df353f04509b:len=13497',
 'transform/record/22': 'sha256:1e92a783355d32fe1ee16f0d41299edae8d3b0c0e4a5e4a23bac9b3b4a25fee3:len=13503',
 'transform/record/blanks': 'sha256:cbb7861317da7e890944e6cbd111a2e17bc456455fae01f5297f8af55ee78ba2:len=12401',
 'transform/positions': 'sha256:52b75fe18301833aa96fc34c29c13a1e12fbea25cfd974a2d71f68e20683b2f0:len=8241',
 'transform/leader/31': 'sha256:e652514ce42ef1c634a75cfc70dd8a769851471efe53a08d6a780cc71a377489:len=106137',
 'transform/leader/blanks': 'sha256:979d229ce0bc830d170a352cc044129933bdac82fd7ff61508bde49541b26110:len=102314'}


def test_equivalence():
    actual, problems = check(list(cases()), EXPECTED)
    assert len(actual) == len(EXPECTED)
    assert not problems, "\n".join(problems)


if __name__ == "__main__":
    sys.exit(main(list(cases()), EXPECTED))
