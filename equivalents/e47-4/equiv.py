"""Equivalence check for refactoring 4 (``volume_directory.metadata.transform_volume_descriptor``).

Run as ``python _eq/4/equiv.py`` (or through pytest).  The expected outcomes below were
recorded from the unchanged code (``python _eq/4/equiv.py --record`` prints them).
"""

import copy
import pprint
import struct
import sys

from ceos_alos2.utils import to_dict
from ceos_alos2.volume_directory import metadata, structure

IGNORED = [
    "preamble",
    "ascii_ebcdic_flag",
    "blanks",
    "spare",
    "local_use_segment",
    "total_number_of_physical_volumes_in_logical_volume",
    "physical_volume_sequence_number_of_the_first_tape",
    "physical_volume_sequence_number_of_the_last_tape",
    "physical_volume_sequence_number_of_the_current_tape",
    "file_number_in_the_logical_volume",
    "logical_volume_within_a_volume_set",
    "logical_volume_number_within_physical_volume",
    "number_of_file_pointer_records",
    "number_of_text_records_in_volume_directory",
]
RENAMED = [
    "superstructure_format_control_document_id",
    "superstructure_format_control_document_revision_level",
    "superstructure_record_format_revision_level",
    "software_release_and_revision_level",
    "logical_volume_creation_datetime",
    "logical_volume_generation_country",
    "logical_volume_generating_agency",
    "logical_volume_generating_facility",
]


def build_record(struct_, values):
    """encode a flat CEOS record: 12 byte binary preamble + blank padded ascii fields"""
    chunks = []
    for subcon in struct_.subcons:
        size = subcon.sizeof()
        if subcon.name == "preamble":
            chunks.append(struct.pack(">IBBBBI", *values.get("preamble", (1, 192, 192, 18, 18, 360))))
            continue
        text = str(values.get(subcon.name, ""))
        assert len(text) <= size, subcon.name
        chunks.append(text.ljust(size).encode("ascii"))
    return b"".join(chunks)


def parsed_descriptor(**overrides):
    values = {
        "ascii_ebcdic_flag": "A",
        "superstructure_format_control_document_id": "CEOS-SAR",
        "superstructure_format_control_document_revision_level": "A",
        "superstructure_record_format_revision_level": "A",
        "software_release_and_revision_level": "001.001",
        "physical_volume_id": "ALOS2 PV",
        "logical_volume_id": "ALOS2225333200",
        "volume_set_id": "VS01",
        "total_number_of_physical_volumes_in_logical_volume": 1,
        "physical_volume_sequence_number_of_the_first_tape": 1,
        "physical_volume_sequence_number_of_the_last_tape": 1,
        "physical_volume_sequence_number_of_the_current_tape": 1,
        "file_number_in_the_logical_volume": 1,
        "logical_volume_within_a_volume_set": 1,
        "logical_volume_number_within_physical_volume": 1,
        "logical_volume_creation_datetime": "2020101117233798",
        "logical_volume_generation_country": "JAPAN",
        "logical_volume_generating_agency": "JAXA",
        "logical_volume_generating_facility": "SCMO",
        "number_of_file_pointer_records": 3,
        "number_of_text_records_in_volume_directory": 1,
    }
    values.update(overrides)
    data = build_record(structure.volume_descriptor, values)
    assert len(data) == 360
    return to_dict(structure.volume_descriptor.parse(data))


class Key:
    """hashable non-string key"""

    def __repr__(self):
        return "Key()"


KEY = Key()


def cases():
    yield "empty", {}
    yield "all-ignored", {name: index for index, name in enumerate(IGNORED)}
    yield "all-ignored-reversed", {name: index for index, name in enumerate(reversed(IGNORED))}
    yield "ignored-nested", {"preamble": {"a": 1}, "spare": [1, 2], "blanks": None}
    yield "mixed", {"number_of_file_pointer_records": 4, "volume_set_id": "abc"}
    yield "passthrough-order", {"z": 1, "physical_volume_id": "p", "a": [1], "m": {"k": 1}}
    yield "renamed-no-datetime", {
        name: f"v{index}"
        for index, name in enumerate(RENAMED)
        if name != "logical_volume_creation_datetime"
    }
    yield "renamed-reversed", {
        name: ("2020101117233798" if "datetime" in name else name[:3])
        for name in reversed(RENAMED)
    }
    yield "datetime-raw-name", {"logical_volume_creation_datetime": "2020101117233798"}
    yield "datetime-new-name", {"creation_datetime": "2020101117233798"}
    yield "datetime-short", {"logical_volume_creation_datetime": "20201011172337"}
    yield "datetime-long", {"logical_volume_creation_datetime": "20201011172337123456"}
    yield "datetime-too-long", {"logical_volume_creation_datetime": "202010111723371234567"}
    yield "datetime-empty", {"logical_volume_creation_datetime": ""}
    yield "datetime-bad-month", {"creation_datetime": "2020131117233798"}
    yield "datetime-none", {"logical_volume_creation_datetime": None}
    yield "datetime-int", {"creation_datetime": 2020101117233798}
    yield "datetime-bytes", {"creation_datetime": b"2020101117233798"}
    # key collisions after renaming: the later value survives, at the position of the first
    yield "collision-raw-first", {
        "logical_volume_creation_datetime": "2020101117233798",
        "x": 1,
        "creation_datetime": "2021010203040506",
    }
    yield "collision-new-first", {
        "creation_datetime": "2021010203040506",
        "x": 1,
        "logical_volume_creation_datetime": "2020101117233798",
    }
    # ... and only the survivor is postprocessed: an invalid overridden value is harmless
    yield "collision-invalid-overridden", {
        "logical_volume_creation_datetime": "garbage",
        "creation_datetime": "2021010203040506",
    }
    yield "collision-invalid-survivor", {
        "logical_volume_creation_datetime": "2021010203040506",
        "creation_datetime": "garbage",
    }
    yield "collision-other", {
        "creation_country": "a",
        "logical_volume_generation_country": "b",
        "software_version": "c",
        "software_release_and_revision_level": "d",
    }
    yield "translated-name-of-ignored", {"control_document_id": "kept", "preamble": "dropped"}
    yield "non-string-keys", {1: "a", None: "b", ("t", 1): "c", KEY: "d", "spare": "e"}
    yield "ignored-then-datetime-invalid", {"spare": "x", "creation_datetime": "nope", "y": 1}
    yield "parsed", parsed_descriptor()
    yield "parsed-blank-datetime", parsed_descriptor(logical_volume_creation_datetime="")
    yield "parsed-blank-numbers", parsed_descriptor(
        number_of_file_pointer_records="", file_number_in_the_logical_volume=""
    )
    # not mappings
    yield "none", None
    yield "list-of-pairs", [("a", 1)]
    yield "string", "preamble"
    yield "int", 3


def describe_exception(e):
    if e is None:
        return None
    return (type(e).__name__, str(e), e.__suppress_context__, describe_exception(e.__cause__))


def outcome(mapping):
    try:
        result = metadata.transform_volume_descriptor(mapping)
    except Exception as e:  # noqa: BLE001
        return ("raised", describe_exception(e))
    return ("returned", type(result).__name__, repr(list(result.items())))


def compute():
    return [(name, outcome(mapping)) for name, mapping in cases()]


# BEGIN EXPECTED
EXPECTED = [('empty', ('returned', 'dict', '[]')),
 ('all-ignored', ('returned', 'dict', '[]')),
 ('all-ignored-reversed', ('returned', 'dict', '[]')),
 ('ignored-nested', ('returned', 'dict', '[]')),
 ('mixed', ('returned', 'dict', "[('volume_set_id', 'abc')]")),
 ('passthrough-order',
  ('returned', 'dict', "[('z', 1), ('physical_volume_id', 'p'), ('a', [1]), ('m', {'k': 1})]")),
 ('renamed-no-datetime',
  ('returned',
   'dict',
   "[('control_document_id', 'v0'), ('control_document_revision_level', 'v1'), "
   "('record_format_revision_level', 'v2'), ('software_version', 'v3'), ('creation_country', "
   "'v5'), ('creation_agency', 'v6'), ('creation_facility', 'v7')]")),
 ('renamed-reversed',
  ('returned',
   'dict',
   "[('creation_facility', 'log'), ('creation_agency', 'log'), ('creation_country', 'log'), "
   "('creation_datetime', '2020-10-11T17:23:37.980000'), ('software_version', 'sof'), "
   "('record_format_revision_level', 'sup'), ('control_document_revision_level', 'sup'), "
   "('control_document_id', 'sup')]")),
 ('datetime-raw-name',
  ('returned', 'dict', "[('creation_datetime', '2020-10-11T17:23:37.980000')]")),
 ('datetime-new-name',
  ('returned', 'dict', "[('creation_datetime', '2020-10-11T17:23:37.980000')]")),
 ('datetime-short', ('returned', 'dict', "[('creation_datetime', '2020-10-11T17:23:03.700000')]")),
 ('datetime-long', ('returned', 'dict', "[('creation_datetime', '2020-10-11T17:23:37.123456')]")),
 ('datetime-too-long', ('raised', ('ValueError', 'unconverted data remains: 7', False, None))),
 ('datetime-empty',
  ('raised', ('ValueError', "time data '' does not match format '%Y%m%d%H%M%S%f'", False, None))),
 ('datetime-bad-month',
  ('returned', 'dict', "[('creation_datetime', '2020-01-31T11:07:23.379800')]")),
 ('datetime-none',
  ('raised', ('TypeError', 'strptime() argument 1 must be str, not None', False, None))),
 ('datetime-int',
  ('raised', ('TypeError', 'strptime() argument 1 must be str, not int', False, None))),
 ('datetime-bytes',
  ('raised', ('TypeError', 'strptime() argument 1 must be str, not bytes', False, None))),
 ('collision-raw-first',
  ('returned', 'dict', "[('creation_datetime', '2021-01-02T03:04:05.060000'), ('x', 1)]")),
 ('collision-new-first',
  ('returned', 'dict', "[('creation_datetime', '2020-10-11T17:23:37.980000'), ('x', 1)]")),
 ('collision-invalid-overridden',
  ('returned', 'dict', "[('creation_datetime', '2021-01-02T03:04:05.060000')]")),
 ('collision-invalid-survivor',
  ('raised',
   ('ValueError', "time data 'garbage' does not match format '%Y%m%d%H%M%S%f'", False, None))),
 ('collision-other',
  ('returned', 'dict', "[('creation_country', 'b'), ('software_version', 'd')]")),
 ('translated-name-of-ignored', ('returned', 'dict', "[('control_document_id', 'kept')]")),
 ('non-string-keys',
  ('returned', 'dict', "[(1, 'a'), (None, 'b'), (('t', 1), 'c'), (Key(), 'd')]")),
 ('ignored-then-datetime-invalid',
  ('raised',
   ('ValueError', "time data 'nope' does not match format '%Y%m%d%H%M%S%f'", False, None))),
 ('parsed',
  ('returned',
   'dict',
   "[('control_document_id', 'CEOS-SAR'), ('control_document_revision_level', 'A'), "
   "('record_format_revision_level', 'A'), ('software_version', '001.001'), ('physical_volume_id', "
   "'ALOS2 PV'), ('logical_volume_id', 'ALOS2225333200'), ('volume_set_id', 'VS01'), "
   "('creation_datetime', '2020-10-11T17:23:37.980000'), ('creation_country', 'JAPAN'), "
   "('creation_agency', 'JAXA'), ('creation_facility', 'SCMO')]")),
 ('parsed-blank-datetime',
  ('raised', ('ValueError', "time data '' does not match format '%Y%m%d%H%M%S%f'", False, None))),
 ('parsed-blank-numbers',
  ('returned',
   'dict',
   "[('control_document_id', 'CEOS-SAR'), ('control_document_revision_level', 'A'), "
   "('record_format_revision_level', 'A'), ('software_version', '001.001'), ('physical_volume_id', "
   "'ALOS2 PV'), ('logical_volume_id', 'ALOS2225333200'), ('volume_set_id', 'VS01'), "
   "('creation_datetime', '2020-10-11T17:23:37.980000'), ('creation_country', 'JAPAN'), "
   "('creation_agency', 'JAXA'), ('creation_facility', 'SCMO')]")),
 ('none',
  ('raised', ('AttributeError', "'NoneType' object has no attribute 'items'", False, None))),
 ('list-of-pairs',
  ('raised', ('AttributeError', "'list' object has no attribute 'items'", False, None))),
 ('string', ('raised', ('AttributeError', "'str' object has no attribute 'items'", False, None))),
 ('int', ('raised', ('AttributeError', "'int' object has no attribute 'items'", False, None)))]
# END EXPECTED


def test_equivalence():
    actual = compute()
    assert len(actual) == len(EXPECTED)
    for a, e in zip(actual, EXPECTED):
        assert a == e, (a, e)


def test_input_not_modified_and_values_shared():
    nested = {"k": [1, 2]}
    mapping = {
        "preamble": {"a": 1},
        "logical_volume_creation_datetime": "2020101117233798",
        "physical_volume_id": nested,
    }
    snapshot = copy.deepcopy(mapping)
    result = metadata.transform_volume_descriptor(mapping)
    assert mapping == snapshot and list(mapping) == list(snapshot)
    assert type(result) is dict and result is not mapping
    # values that are not postprocessed are passed on as the same objects
    assert result["physical_volume_id"] is nested


def test_helpers_resolved_at_call_time():
    # the postprocessor and the three helpers are module globals looked up when called
    calls = []
    originals = {
        name: getattr(metadata, name)
        for name in ("normalize_datetime", "dissoc", "rename", "apply_to_items")
    }

    def recorder(name):
        def wrapper(*args, **kwargs):
            calls.append(name)
            return originals[name](*args, **kwargs)

        return wrapper

    try:
        for name in originals:
            setattr(metadata, name, recorder(name))
        result = metadata.transform_volume_descriptor(
            {"spare": "", "logical_volume_creation_datetime": "2020101117233798"}
        )
    finally:
        for name, func in originals.items():
            setattr(metadata, name, func)

    assert result == {"creation_datetime": "2020-10-11T17:23:37.980000"}
    assert calls == ["dissoc", "rename", "apply_to_items", "normalize_datetime"]


if __name__ == "__main__":
    if "--record" in sys.argv:
        pprint.pprint(compute(), width=100)
        sys.exit(0)

    test_equivalence()
    test_input_not_modified_and_values_shared()
    test_helpers_resolved_at_call_time()
    print("ok:", len(EXPECTED), "cases")
