#!/bin/sh
# intake whatever round-8 agents have delivered so far under /tmp/wt9
export WT_BASE=/tmp/wt9 SEED_PREFIX=r9-
cd /verif
for d in /tmp/wt9/c*/; do
  b=$(basename $d); pid=$(echo $b | tr c C)
  for x in a b; do
    if [ -f $d/_seed/$x/patch.diff ] && [ -f $d/_seed/$x/demo.py ] && [ -f $d/_seed/$x/README.md ] && [ ! -d seeded/r9-$b-$x ] && [ ! -f /tmp/wt9/.rejected-$b-$x ]; then
      /venv/bin/python tools/intake.py $pid $x || touch /tmp/wt9/.rejected-$b-$x
    fi
  done
done
