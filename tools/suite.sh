#!/bin/sh
# run the repository's pinned suite and compare with the baseline's stable_pass list
cd /repo && /venv/bin/python -m pytest -q -p no:cacheprovider --timeout=900 --continue-on-collection-errors --junitxml=/tmp/verif-suite.xml >/tmp/verif-suite.log 2>&1
/venv/bin/python - <<'PY'
import json, xml.etree.ElementTree as ET
base = set(json.load(open('/root/.vp/BASELINE.json'))['stable_pass'])
root = ET.parse('/tmp/verif-suite.xml').getroot()
passed = set()
for tc in root.iter('testcase'):
    name = f"{tc.get('classname')}::{tc.get('name')}"
    if not any(ch.tag in ('failure','error','skipped') for ch in tc):
        passed.add(name)
missing = sorted(base - passed)
print(f"baseline stable_pass={len(base)} passed_now={len(passed)} baseline tests no longer passing={len(missing)}")
for m in missing[:20]: print("  REGRESSION", m)
import sys; sys.exit(1 if missing else 0)
PY
