"""verify a seeded change delivered by a sub-agent and, if it holds up, keep it under /verif/seeded/<id>/

for <worktree>/_seed/<x>/: (1) patch applies to a clean copy of /repo HEAD, package compiles; (2) the baseline's stable_pass
tests still pass with the change; (3) demo fails with the change and passes without.  Work happens in a scratch copy that is removed.
usage: tools/intake.py C03 a [--keep-as c03-a]"""
import json, os, shutil, subprocess, sys, tempfile, xml.etree.ElementTree as ET
VERIF = os.path.dirname(os.path.dirname(os.path.abspath(__file__)))
PY = "/venv/bin/python"

def suite(root):
    x = os.path.join(root, "_junit.xml")
    subprocess.run([PY, "-m", "pytest", "-q", "-p", "no:cacheprovider", "--timeout=900", "--continue-on-collection-errors", f"--junitxml={x}", "ceos_alos2/tests"],
                   cwd=root, env=dict(os.environ, PYTHONPATH=root), capture_output=True, text=True)
    base = set(json.load(open("/root/.vp/BASELINE.json"))["stable_pass"])
    passed = set()
    for tc in ET.parse(x).getroot().iter("testcase"):
        if not any(ch.tag in ("failure", "error", "skipped") for ch in tc):
            passed.add(f"{tc.get('classname')}::{tc.get('name')}")
    return sorted(base - passed), len(passed)

def demo(root, demo_path):
    r = subprocess.run([PY, "-m", "pytest", "-q", "-p", "no:cacheprovider", "-x", demo_path], cwd=root, env=dict(os.environ, PYTHONPATH=root), capture_output=True, text=True)
    tail = (r.stdout + r.stderr).strip().splitlines()[-1:] if (r.stdout + r.stderr).strip() else [""]
    return r.returncode, tail[0]

def main():
    pid, x = sys.argv[1], sys.argv[2]
    base = os.environ.get("WT_BASE", "/tmp/wt")
    prefix = os.environ.get("SEED_PREFIX", "")
    wt = f"{base}/{pid.lower()}"
    sd = os.path.join(wt, "_seed", x)
    for f in ("patch.diff", "demo.py"):
        if not os.path.isfile(os.path.join(sd, f)):
            print(f"{pid}-{x}: missing {f}"); return 2
    tmp = tempfile.mkdtemp(prefix="verif-intake-")
    try:
        root = os.path.join(tmp, "r")
        subprocess.run(["git", "-C", "/repo", "worktree", "add", "-q", "--detach", root, "HEAD"], check=True)
        shutil.copytree(sd, os.path.join(root, "_seed_x"))
        # demos written in the agent's worktree may assert on its path: point them at the scratch root
        dp = os.path.join(root, "_seed_x", "demo.py")
        txt = open(dp).read().replace(wt, root)
        open(dp, "w").write(txt)
        rc0, t0 = demo(root, "_seed_x/demo.py")
        a = subprocess.run(["git", "apply", "--exclude=_seed*", os.path.join(sd, "patch.diff")], cwd=root, capture_output=True, text=True)
        if a.returncode != 0:
            print(f"{pid}-{x}: patch does not apply: {a.stderr[:200]}"); return 2
        touched = subprocess.run(["git", "diff", "--name-only"], cwd=root, capture_output=True, text=True).stdout.split()
        comp = subprocess.run([PY, "-m", "compileall", "-q", "ceos_alos2"], cwd=root, capture_output=True, text=True)
        missing, npass = suite(root)
        rc1, t1 = demo(root, "_seed_x/demo.py")
        ok = rc0 == 0 and rc1 != 0 and not missing and comp.returncode == 0 and all(t.startswith("ceos_alos2/") and "/tests/" not in t for t in touched)
        print(f"{pid}-{x}: touched={touched} suite_regressions={len(missing)} (passed {npass}) demo_without={'pass' if rc0 == 0 else 'FAIL'} [{t0[:60]}] demo_with={'fail' if rc1 else 'PASS'} [{t1[:60]}] -> {'KEEP' if ok else 'REJECT'}")
        if ok:
            dest = os.path.join(VERIF, "seeded", f"{prefix}{pid.lower()}-{x}")
            if os.path.isdir(dest):
                shutil.rmtree(dest)
            os.makedirs(dest)
            for f in os.listdir(sd):
                if os.path.isfile(os.path.join(sd, f)):
                    shutil.copy(os.path.join(sd, f), dest)
            meta = {"property": pid, "variant": x, "files_touched": touched,
                    "verified": {"patch_applies_to": subprocess.run(["git", "-C", "/repo", "rev-parse", "--short", "HEAD"], capture_output=True, text=True).stdout.strip(),
                                 "suite_with_change": f"{npass} passed, 0 of the 1212 baseline stable_pass tests regress", "demo_without_change": t0, "demo_with_change": t1,
                                 "commands": ["git apply patch.diff (scratch worktree of /repo HEAD)", "pytest ceos_alos2/tests (junit compared with BASELINE.json stable_pass)", "pytest demo.py with and without the change"]},
                    "run_hint": f"demo.py was written in the sub-agent's worktree {wt}; where it mentions that path, substitute the root of the tree under test",
                    "needs_to_manifest": "see README.md (written by the sub-agent that produced the change)"}
            json.dump(meta, open(os.path.join(dest, "meta.json"), "w"), indent=1)
        return 0 if ok else 1
    finally:
        subprocess.run(["git", "-C", "/repo", "worktree", "remove", "--force", os.path.join(tmp, "r")], capture_output=True)
        shutil.rmtree(tmp, ignore_errors=True)

if __name__ == "__main__":
    sys.exit(main())
