#!/bin/sh
# intake whatever round-13 agents have delivered so far under /tmp/wt13
export WT_BASE=/tmp/wt13 SEED_PREFIX=r13-
cd /verif
for d in /tmp/wt13/c*/; do
  b=$(basename $d); pid=$(echo $b | tr c C)
  for x in a b; do
    if [ -f $d/_seed/$x/patch.diff ] && [ -f $d/_seed/$x/demo.py ] && [ -f $d/_seed/$x/README.md ] && [ ! -d seeded/r13-$b-$x ] && [ ! -f /tmp/wt13/.rejected-$b-$x ]; then
      /venv/bin/python tools/intake.py $pid $x || touch /tmp/wt13/.rejected-$b-$x
    fi
  done
done
