#!/bin/sh
# intake whatever round-5 agents have delivered so far under /tmp/wt6
export WT_BASE=/tmp/wt6 SEED_PREFIX=r6-
cd /verif
for d in /tmp/wt6/c*/; do
  b=$(basename $d); pid=$(echo $b | tr c C)
  for x in a b; do
    if [ -f $d/_seed/$x/patch.diff ] && [ -f $d/_seed/$x/demo.py ] && [ -f $d/_seed/$x/README.md ] && [ ! -d seeded/r6-$b-$x ] && [ ! -f /tmp/wt6/.rejected-$b-$x ]; then
      /venv/bin/python tools/intake.py $pid $x || touch /tmp/wt6/.rejected-$b-$x
    fi
  done
done
