#!/bin/sh
# intake whatever round-12 agents have delivered so far under /tmp/wt12
export WT_BASE=/tmp/wt12 SEED_PREFIX=r12-
cd /verif
for d in /tmp/wt12/c*/; do
  b=$(basename $d); pid=$(echo $b | tr c C)
  for x in a b; do
    if [ -f $d/_seed/$x/patch.diff ] && [ -f $d/_seed/$x/demo.py ] && [ -f $d/_seed/$x/README.md ] && [ ! -d seeded/r12-$b-$x ] && [ ! -f /tmp/wt12/.rejected-$b-$x ]; then
      /venv/bin/python tools/intake.py $pid $x || touch /tmp/wt12/.rejected-$b-$x
    fi
  done
done
