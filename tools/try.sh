#!/bin/sh
# usage: tools/try.sh <dir with patch.diff> <PID>...   -- run checks on a scratch copy with the patch applied
d=$(realpath $1); shift
tmp=$(mktemp -d /tmp/verif-try-XXXXXX)
cp -r /repo/ceos_alos2 $tmp/ceos_alos2
(cd $tmp && patch -p1 -s -i $d/patch.diff) || exit 3
for p in "$@"; do VERIF_EVIDENCE_DIR=$tmp/ev /verif/check $p --repo $tmp 2>&1 | cut -c1-400; done
rm -rf $tmp
