#!/bin/sh
# usage: tools/try.sh <seeded|equivalents>/<id> C01 C02 ...   - runs the named checks against a scratch copy with the patch applied
d=$1; shift
s=$(mktemp -d /tmp/try.XXXXXX)
rsync -a --exclude .git /repo/ $s/
(cd $s && patch -s -p1 < /verif/$d/patch.diff) || { echo "patch failed"; rm -rf $s; exit 3; }
for p in "$@"; do VERIF_EVIDENCE_DIR=$s/.ev ${VERIF:-/verif}/check $p --repo $s 2>&1 | grep -v "^KNOWN" | cut -c1-${TRYW:-700}; done
rm -rf $s
