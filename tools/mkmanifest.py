"""writes /verif/MANIFEST.json from the table below (kept in one place so it stays valid)"""
import json, os, subprocess
HERE = os.path.dirname(os.path.dirname(os.path.abspath(__file__)))

FIXES = subprocess.run(["git", "-C", "/repo", "log", "--format=%h %s", "70f8743..HEAD"], capture_output=True, text=True).stdout.strip().splitlines()

C = {}
def add(pid, cat, text, note, technique, design):
    C[pid] = dict(cat=cat, text=text, note=note, technique=technique, design=design)

add("C01", "other",
    "Static: decides the links of the header->bytes->array chain whose correctness is the shape of the code (decode tables big-endian and equal to the advertised dtypes; decoded samples flow to the caller only through bit-preserving operations; Tell/Seek framing of both line records at 544/192; every position field rebased exactly once; chunk offsets = acc*record_size + descriptor size computed from the layout; wiring of shape/type/byte ranges to header fields; one chunk key; small range helpers equal their specification in normal form). Does not decide chunk-partition arithmetic over run-time sizes, nor NumPy's decode. Each clause is a necessary condition: its negation yields a wrong pixel on some admissible input.",
    "trusted: model of construct primitives (vlib/layout.py), numpy view/astype semantics, normalisation in vlib/symexpr.py", "AST dataflow + construct layout evaluation + normal-form comparison", "4 C01")
add("C02", "other",
    "Static, narrow: the value-level equivalence of the backend's row bookkeeping with NumPy is arithmetic over run-time sizes and is NOT decided. Decided: columns are delegated to NumPy unchanged and in order; the rank of the result depends on the row indexer being an integer; stacking of a possibly empty row list is guarded; declared IndexingSupport level is one the backend serves and keys are forwarded unchanged. Each is necessary for the property (breaking it breaks isel/sel on some index).",
    "trusted: xarray 2026.7 explicit_indexing_adapter decomposition per support level (read in /venv)", "AST def-use / control-dependence rules on Array.__getitem__ and the backend wrapper", "4 C02")
add("C03", "translation_validation",
    "Static translation validation of the declarative reader against reference artefacts: (T1) byte layout of both line records and of the image descriptor, computed from the construct expressions, equals the reference layout field by field (offset, width, codec, scale factor, enum table, unit); (T2) same-named fields of the two line records decode identically; (T3) the output schema obtained by shape inference over the transform pipeline (variable/attr name, dims, source field, conversions, attrs) equals the reference schema; (T4) adapter decode bodies decided on input classes; (T5) header attributes present exactly when the field is non-blank (sentinel agreement). Does not decide list order of merge_with nor NumPy value conversions.",
    "trusted: spec/layout_reference.json and spec/schema_reference.json (regression oracles bootstrapped from the pinned commit and confirmed against the format's invariants; the JAXA PDF is not available offline); typing rules in vlib/shapes_lib.py", "construct layout evaluation + shape inference (abstract interpretation) vs reference", "4 C03")
add("C04", "translation_validation",
    "Static translation validation of the nine leader records: layout (390 leaves, offsets polynomial in the file's counts/lengths) == reference; record order; output schema of all transform_* functions (incl. the four map-projection alternatives, corner/coefficient/matrix regrouping, attitude time provenance) derived by shape inference == reference schema; ASCII adapter semantics decided on blank/filled input classes. Does not decide Python's float() on exotic numeric text.",
    "trusted: reference artefacts under spec/, model of construct primitives, typing rules of toolz/builtins", "construct layout evaluation + shape inference vs reference", "4 C04")
add("C05", "proof",
    "Symbolic proof obligations over the construct layouts: sizes of self-delimiting records are identically preamble.record_length as polynomials in every count symbol; fixed records have constant size equal to the format's record length for every count; multiplicities read the intended integer field parsed earlier, element sizes are the format constants; dynamic paddings are >= 0 on the admissible interval ends and < 0 just outside; trailer header ends within the 720 bytes read and image ranges are the running sum of declared lengths; leader/volume are sequential. The thorough tier also substitutes every admissible N/L concretely. Holds for the modelled semantics of construct.",
    "trusted: model of construct primitives in vlib/layout.py; format constants named in the property text", "symbolic layout evaluation: polynomial identities and interval-end sign conditions", "4 C05")
add("C06", "other",
    "Static, narrow: equality of two executions is NOT decided. Decided necessary clauses: records_per_chunk reaches the metadata pass and the Array unchanged along every call edge; normalize_chunksize is decided exhaustively on the orderings of its two arguments (it touches them only through comparisons) and is fed the option and shape[0]; the value is exposed without arithmetic as chunks / preferred_chunksizes; the option and chunk offsets are never persisted; one chunk size keys offsets table and row grouping.",
    "trusted: call-graph over-approximation; ordering-class argument requires the function to use its arguments only in comparisons (checked)", "call-edge parameter threading + ordering-case abstract evaluation", "4 C06")
add("C07", "other",
    "Static: cache lookups control-dependent on use_cache and creation on create_cache; options passed unchanged along all 15 option-carrying call edges (curry bindings and dispatch tables resolved); cache hit returned before any product read, CachingError falls through to the parse, read_cache raises CachingError on a miss; writer/reader agreement of the index document (tags, keys, dtype-kind dispatch, tuple tagging, array fields); cache naming agreement between option writer, reader and CLI; filesystem provenance (known finding D5). Does not decide equality of the two trees as values.",
    "trusted: call graph over-approximates; fsspec.get_mapper infers the protocol from its argument", "call graph + guard dominance + sibling (encoder/decoder) agreement", "4 C07")
add("C08", "other",
    "Static sibling agreement of encoder and decoder: tags written == tags dispatched; keys read are keys written per document type; datetime ticks cast with int64 and rebuilt with stored unit and reference, no float on the path; tuple tagging symmetric and wired into json.dumps/loads; list data coerced before the ndarray API; document is plain json text; Array fields written from obj.<f> and read back into the same field. Does not decide bit-exactness of NumPy/JSON value conversions.",
    "trusted: json round-trips int/float/str/bool/None/list/dict; numpy str(datetime64) prints full resolution", "writer/reader table agreement on the syntax tree", "4 C08")
add("C09", "other",
    "Static: the crash-point quantifier (every byte prefix) is discharged by the argument that a proper prefix of a single json.dumps object is invalid JSON (checked: one dumps call, ASCII, nothing appended), then the JSONDecodeError class is followed up every call chain open_image->...->json.loads through the enclosing try statements with the class hierarchy and must end in the parse fallback; create_cache writes unconditionally after mkdir(parents, exist_ok); the fallback path never writes. Does not decide OS-level atomicity.",
    "trusted: proper prefixes of a JSON object are invalid JSON; exception hierarchy table", "exception-flow analysis over the call graph", "4 C09")
add("C10", "other",
    "Static: history independence decided through its mechanism - complete set of file-system write sites and the provenance of their targets (only under create_cache, only below platformdirs.user_cache_path via local_cache_location; CLI writer unreachable from open); caller option dicts only unpacked/read; no module-level state written and nothing memoised among the functions reachable from open_alos2; groups adjusted on copies; options threaded unchanged. Does not decide equality of trees across histories.",
    "trusted: effect vocabulary (method names that write) in vlib/effects.py; call graph over-approximates", "effect analysis (who-may-write) + reachability", "4 C10")
add("C11", "other",
    "Static: shape of the I/O - one open per load (rb, context manager, loop depth 0); one read_chunk per task at loop depth 1 with tasks 1:1 with the groupby-by-chunk keys; read_chunk = seek(offset), read(size); every read on open/load paths sized; metadata pass = descriptor read then one chunksize*record_size read per chunk in order with no seek; nothing reachable from a load performs other I/O. Does not decide the numeric byte spans nor the request-count formula.",
    "trusted: effect vocabulary; toolz.groupby yields one entry per key", "effect sites + loop-depth + 1:1 comprehension chains", "4 C11")
add("C12", "other",
    "Static: the dtype advertised by the backend wrapper is an np.dtype (wrapped, normalised or produced as such); shape and dtype copied from one object; advertised and decode dtype tables agree; every surfacing field of a line record decodes to a scalar or (scalar, attrs) (five nested level-1.1 fields are known finding D8). Does not decide dtypes NumPy infers from lists.",
    "trusted: xarray needs BackendArray.dtype to be an np.dtype", "type provenance over def-use chains + struct layout", "4 C12")
add("C13", "other",
    "Static wiring rules: positional file roles, openers fed the matching role in order and unfiltered, root children, imagery keyed by group name, root attrs, one path for parsed file/Array url/group name, name from polarisation and scan, leader records covered by transformers+ignored, coordinates recorded before data is added and promoted, tree maps every subtree entry. Does not decide name uniqueness for arbitrary file names.",
    "trusted: DataTree.from_dict builds one node per key", "def-use wiring rules on the syntax tree", "4 C13")
add("C14", "other",
    "Static: whole-line anchoring of the entry grammar; accept/reject witnesses evaluated on the regex literal; error-completeness structure of the line loop (no exit but through the collecting handler, one ExceptionGroup after the loop built 1:1 from every recorded (line number, error)); CRLF-safe splitting; section tables agree. Does not decide per-key value conversions.",
    "trusted: stdlib re on the extracted literal; str.splitlines", "regex literal analysis + control-flow shape of the error loop", "4 C14")
add("C15", "proof",
    "Finite-language inclusion: languages of the named groups computed from the parsed regex literals (sets or per-position classes) vs key sets of the lookup tables (totality and exactness), anchoring of all four decoders, ValueError on miss/non-match, composition of the file-name grammar from the component grammars, translators for every group. Thorough tier enumerates the full cross product of the tables (3600 ids + near misses + file-name shapes) against the compiled literal.",
    "trusted: re._parser parses the literal as re does; dateutil for 6-digit dates", "regex-language vs table inclusion (finite sets)", "4 C15")
add("C16", "translation_validation",
    "Static translation validation: layout of the three volume-directory structs == reference (text record offset symbolic in the file-pointer count, each record 360 bytes); output schema of transform_record (renames, ignore lists, datetime normalisation keyed by the renamed key, flattening) derived by shape inference == reference; no collision of surfacing keys on flattening.",
    "trusted: reference artefacts under spec/; typing rules in vlib/shapes_lib.py", "construct layout evaluation + shape inference vs reference", "4 C16")
add("C17", "other",
    "Static contradiction rule over the discovered day-of-year conversion sites (each must subtract one; the attitude site does not: known finding D11), datetime64[ns] overrides, unit literals never narrowing resolution, microsecond stamp anchored to the same record's acquisition date, (year, doy, ms) layout, strptime formats fit field widths. Does not decide stdlib datetime arithmetic.",
    "trusted: day-of-year fields are 1-based in the format", "site discovery + normal-form inspection of date arithmetic", "4 C17")
add("C18", "other",
    "Static error discipline: every mapper[...] load protected by KeyError->OSError-family or a membership test; parse_chunk keeps size and record-type guards; image rows and per-line variables share one dimension fed from header vs parsed records; non-re-raising handlers on the open path only cover the cache lookup or collect-and-raise; leader/volume/descriptor structs are definite-width. Does not decide promptness.",
    "trusted: xarray rejects conflicting dimension lengths; construct raises on short fixed-width input", "handler/guard analysis over the call graph", "4 C18")
add("C19", "other",
    "Static race-freedom by confinement: the file handle of a load is confined to its with-block and read_chunk; nothing reachable from a load stores into self, a parameter or a global; Array attributes assigned only during construction; any lock is picklable and acquisitions do not nest; no unpicklable member stored. With private handles and read-only shared state interleavings cannot be observed. The lock itself is not required.",
    "trusted: fsspec open() returns independent handles; SerializableLock pickles", "escape/confinement analysis + shared-state write analysis", "4 C19")
add("C20", "other",
    "Static: adapters evaluated abstractly on all-blank input (-1 / NaN / '' / b''); header transformers evaluated on the blank sentinel of the very codec of their field (sentinel agreement) and on filled samples; output of shape inference searched for values sourced from spare/blank/reserved areas and for conversions applied to nullable value fields (explicit exemption table of required columns); final filter drops exactly the empty-list marker. The execution-based byte influence map is replaced by 'no data-flow path from a padding leaf to the output'.",
    "trusted: typing rules in vlib/shapes_lib.py; padding name predicate (spare*/blank*/reserved*/system_reserve/local_use_segment)", "abstract evaluation on input classes + provenance search in the inferred output schema", "4 C20")

checks = []
for pid, c in C.items():
    checks.append({
        "property_id": pid,
        "quick_cmd": f"./check {pid} --tier quick",
        "thorough_cmd": f"./check {pid} --tier thorough",
        "evidence_file": f"/verif/evidence/{pid}.json",
        "replay_cmd_template": f"./check {pid} --tier quick  # violations are listed in {{path}}",
        "engine": "vlib",
        "level_claimed": {"category": c["cat"], "text": c["text"], "design_ref": f"DESIGN.md section {c['design']}"},
        "level_note": c["note"],
        "technique": "static analysis: " + c["technique"],
    })

m = {
    "version": 1,
    "setup_cmd": "true",
    "hooks": {
        "guard": "CEOS_ALOS2_VERIF",
        "enable": "none needed: the checks read /repo's source with ast; no hook or instrumentation is compiled into /repo (guard declared, unused)",
        "baseline_off_cmd": "cd /repo && /venv/bin/python -m pytest -ra -q -p no:cacheprovider --timeout=900 --continue-on-collection-errors",
        "source_commits": [l.split()[0] for l in FIXES],
        "add_only": True,
    },
    "engines": [
        {"name": "vlib", "path": "vlib/", "serves_properties": sorted(C), "kind_free_text": "pure-stdlib Python static analysers run with /venv/bin/python: E0 loader/resolver, E1 construct layout evaluator, E2 reference layout, E3 shape inference, E4 call graph/effects/guards, E5 regex languages, E6 dtype literals, E7 normal forms + abstract evaluation"},
        {"name": "selftest", "path": "selftest/run.py", "serves_properties": sorted(C), "kind_free_text": "mutation self-test of the checkers on scratch copies (breaking variants must be reported, preserving variants must stay silent)"},
    ],
    "checks": checks,
    "notes": "Technique family: static analysis only. No check imports or executes ceos_alos2. source_commits are unguarded fix: commits (genuine defects D1-D4, D6, D7, D9, D10, D12); known findings D5, D8, D11 are listed in known_findings.json. " + "; ".join(FIXES),
    "not_applicable": [],
}
json.dump(m, open(os.path.join(HERE, "MANIFEST.json"), "w"), indent=1)
print("checks:", len(checks), "fix commits:", len(FIXES))
