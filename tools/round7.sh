#!/bin/sh
# intake whatever round-5 agents have delivered so far under /tmp/wt7
export WT_BASE=/tmp/wt7 SEED_PREFIX=r7-
cd /verif
for d in /tmp/wt7/c*/; do
  b=$(basename $d); pid=$(echo $b | tr c C)
  for x in a b; do
    if [ -f $d/_seed/$x/patch.diff ] && [ -f $d/_seed/$x/demo.py ] && [ -f $d/_seed/$x/README.md ] && [ ! -d seeded/r7-$b-$x ] && [ ! -f /tmp/wt7/.rejected-$b-$x ]; then
      /venv/bin/python tools/intake.py $pid $x || touch /tmp/wt7/.rejected-$b-$x
    fi
  done
done
