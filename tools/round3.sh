#!/bin/sh
# intake whatever round-3 agents have delivered so far under /tmp/wt3
export WT_BASE=/tmp/wt3 SEED_PREFIX=r3-
cd /verif
for d in /tmp/wt3/c*/; do
  b=$(basename $d); pid=$(echo $b | tr c C)
  for x in a b; do
    if [ -f $d/_seed/$x/patch.diff ] && [ -f $d/_seed/$x/demo.py ] && [ -f $d/_seed/$x/README.md ] && [ ! -d seeded/r3-$b-$x ] && [ ! -f /tmp/wt3/.rejected-$b-$x ]; then
      /venv/bin/python tools/intake.py $pid $x || touch /tmp/wt3/.rejected-$b-$x
    fi
  done
done
