#!/bin/sh
# intake whatever round-2 agents have delivered so far under /tmp/wt2 and run the checks on the new items
export WT_BASE=/tmp/wt2 SEED_PREFIX=r2-
cd /verif
for d in /tmp/wt2/c*/; do
  pid=$(basename $d | tr c C)
  for x in a b; do
    if [ -f $d/_seed/$x/patch.diff ] && [ -f $d/_seed/$x/demo.py ] && [ -f $d/_seed/$x/README.md ] && [ ! -d seeded/r2-$(basename $d)-$x ] && [ ! -f /tmp/wt2/.rejected-$(basename $d)-$x ]; then
      /venv/bin/python tools/intake.py $pid $x || touch /tmp/wt2/.rejected-$(basename $d)-$x
    fi
  done
done
