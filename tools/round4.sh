#!/bin/sh
# intake whatever round-3 agents have delivered so far under /tmp/wt4
export WT_BASE=/tmp/wt4 SEED_PREFIX=r4-
cd /verif
for d in /tmp/wt4/c*/; do
  b=$(basename $d); pid=$(echo $b | tr c C)
  for x in a b; do
    if [ -f $d/_seed/$x/patch.diff ] && [ -f $d/_seed/$x/demo.py ] && [ -f $d/_seed/$x/README.md ] && [ ! -d seeded/r4-$b-$x ] && [ ! -f /tmp/wt4/.rejected-$b-$x ]; then
      /venv/bin/python tools/intake.py $pid $x || touch /tmp/wt4/.rejected-$b-$x
    fi
  done
done
