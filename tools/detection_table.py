"""notes/detection_table.md from the log of the last full `tools/seeded.py` run.  usage: tools/detection_table.py <seeded log>"""
import json, os, re, sys
VERIF = os.path.dirname(os.path.dirname(os.path.abspath(__file__)))
log = open(sys.argv[1]).read()
rows = []
for m in re.finditer(r"^([a-z0-9]+-c\d+-[ab]|c\d+-[ab]): fired=(\[.*?\]) analysis_error=(\[.*?\])", log, re.M):
    sid, fired, und = m.group(1), eval(m.group(2)), eval(m.group(3))
    meta = os.path.join(VERIF, "seeded", sid, "meta.json")
    prop = json.load(open(meta)).get("property") if os.path.isfile(meta) else "?"
    rows.append((sid, prop, fired, und))
n = len(rows)
rep = sum(1 for r in rows if r[2])
own = sum(1 for r in rows if r[1] in r[2])
und_only = [r[0] for r in rows if not r[2] and r[3]]
silent = [r[0] for r in rows if not r[2] and not r[3]]
with open(os.path.join(VERIF, "notes", "detection_table.md"), "w") as f:
    f.write("# Which check reports which seeded change (state of the last full run)\n\n")
    f.write("One line per kept seed (`seeded/<id>/`): the property it was written against, the checks that exit 1 on it, the checks left undecided (exit 2).\n\n\n")
    f.write(f"{n} seeds; {rep} reported by at least one check, {own} by the check of the property they were written against; "
            f"{len(und_only)} undecided on every check that looked ({', '.join(und_only)}); {len(silent)} not reported ({', '.join(silent)}).\n\n")
    f.write("| seed | written against | reported by | undecided |\n|---|---|---|---|\n")
    for sid, prop, fired, und in rows:
        f.write(f"| {sid} | {prop} | {', '.join(fired)} | {', '.join(und)} |\n")
print(n, rep, own, und_only, silent)
