"""print the pre-normalised source of a module after applying a patch to a scratch copy
usage: tools/shownorm.py <patch.diff|-> <module name> [function]"""
import os, shutil, subprocess, sys, tempfile, ast
sys.path.insert(0, os.path.dirname(os.path.dirname(os.path.abspath(__file__))))
from vlib.core import Repo
tmp = tempfile.mkdtemp(prefix="verif-norm-")
try:
    shutil.copytree("/repo/ceos_alos2", os.path.join(tmp, "ceos_alos2"), ignore=shutil.ignore_patterns("__pycache__"))
    if sys.argv[1] != "-":
        subprocess.run(["patch", "-p1", "-s", "-i", os.path.abspath(sys.argv[1])], cwd=tmp, check=True)
    r = Repo(tmp)
    for n in r.prenorm_notes: print("#", n)
    m = r.module(sys.argv[2])
    if len(sys.argv) > 3:
        print(ast.unparse(m.func(sys.argv[3]).node))
    else:
        print(m.source)
finally:
    shutil.rmtree(tmp, ignore_errors=True)
