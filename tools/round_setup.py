"""prepare a round of sub-agent work: scratch worktrees of /repo HEAD under /tmp/wtN, the property texts the seed agents get
(statement, quantifier, why tests cannot settle it, anchors + one-line titles of the changes delivered earlier, so that
nothing is repeated), and the prompts.  usage: tools/round_setup.py N seed_prompt equiv_prompt first_equiv_index"""
import json, os, subprocess, sys
VERIF = os.path.dirname(os.path.dirname(os.path.abspath(__file__)))
n, seed_prompt, equiv_prompt, e0 = sys.argv[1], sys.argv[2], sys.argv[3], int(sys.argv[4])
base = f"/tmp/wt{n}"
os.makedirs(f"{base}/props", exist_ok=True)
props = [json.loads(l) for l in open(f"{VERIF}/properties.jsonl")]
titles = {}
for d in sorted(os.listdir(f"{VERIF}/seeded")):
    rd = f"{VERIF}/seeded/{d}/README.md"
    meta = f"{VERIF}/seeded/{d}/meta.json"
    pid = None
    if os.path.isfile(meta):
        pid = json.load(open(meta)).get("property")
    if pid and os.path.isfile(rd):
        first = open(rd).readline().strip().lstrip("# ").strip()
        titles.setdefault(pid, []).append(first[:200])
AREAS = [
    "ceos_alos2/sar_image/io.py, ceos_alos2/sar_image/metadata.py and ceos_alos2/sar_image/__init__.py",
    "ceos_alos2/array.py and ceos_alos2/xarray.py",
    "ceos_alos2/sar_image/caching/ (encoders.py, decoders.py, path.py, __init__.py) and ceos_alos2/hierarchy.py",
    "ceos_alos2/summary.py and ceos_alos2/io.py",
    "ceos_alos2/sar_leader/ (any of its modules) and ceos_alos2/transformers.py",
    "ceos_alos2/common.py, ceos_alos2/datatypes.py and ceos_alos2/sar_image/enums.py, processed_data.py, signal_data.py, file_descriptor.py",
    "ceos_alos2/volume_directory/, ceos_alos2/sar_trailer/ and ceos_alos2/decoders.py",
    "ceos_alos2/utils.py, ceos_alos2/dicttoolz.py, ceos_alos2/sar_image/cli.py and ceos_alos2/testing.py",
]
for p in props:
    pid = p["id"]
    wt = f"{base}/{pid.lower()}"
    if not os.path.isdir(wt):
        subprocess.run(["git", "-C", "/repo", "worktree", "add", "-q", "--detach", wt, "HEAD"], check=True)
    with open(f"{base}/props/{pid}.txt", "w") as f:
        f.write(f"{pid}: {p['title']}\n\nSTATEMENT\n{p['statement']}\n\nQUANTIFIED OVER\n{p['quantifier']['text']}\n\nWHY THE EXISTING TESTS CANNOT SETTLE IT\n{p['why_tests_cant']}\n\nWHERE THE MECHANISM LIVES\n")
        for k, v in p["anchors"].items():
            f.write(f"  {k}: {json.dumps(v, ensure_ascii=False)}\n")
        if titles.get(pid):
            f.write("\nCHANGES EARLIER CONTRIBUTORS ALREADY DELIVERED FOR THIS PROPERTY (do something different in mechanism AND location):\n")
            for t in titles[pid]:
                f.write(f"  - {t}\n")
    txt = open(f"{VERIF}/tools/prompts/{seed_prompt}").read().replace("/tmp/wtN", base).replace("cNN", pid.lower()).replace("CNN", pid)
    open(f"{base}/prompt_{pid.lower()}.txt", "w").write(txt)
for i, area in enumerate(AREAS):
    name = f"e{e0 + i}"
    wt = f"{base}/{name}"
    if not os.path.isdir(wt):
        subprocess.run(["git", "-C", "/repo", "worktree", "add", "-q", "--detach", wt, "HEAD"], check=True)
    txt = open(f"{VERIF}/tools/prompts/{equiv_prompt}").read().replace("/tmp/wtN", base).replace("eNN", name).replace("AREA_TEXT", area)
    open(f"{base}/prompt_{name}.txt", "w").write(txt)
print("ready:", base)
