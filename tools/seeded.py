"""run every check against each kept seeded change (on a scratch copy of /repo's package, never on /repo)
usage: tools/seeded.py [--dir /verif/seeded] [--only ID]"""
import argparse, json, os, shutil, subprocess, sys, tempfile
VERIF = os.path.dirname(os.path.dirname(os.path.abspath(__file__)))
ALL = [f"C{i:02d}" for i in range(1, 21)]

def run(seed_dir, props=ALL):
    tmp = tempfile.mkdtemp(prefix="verif-seed-")
    try:
        shutil.copytree("/repo/ceos_alos2", os.path.join(tmp, "ceos_alos2"), ignore=shutil.ignore_patterns("__pycache__"))
        p = subprocess.run(["patch", "-p1", "-s", "-i", os.path.join(seed_dir, "patch.diff")], cwd=tmp, capture_output=True, text=True)
        if p.returncode != 0:
            return {"error": "patch does not apply: " + (p.stdout + p.stderr)[:300]}
        env = dict(os.environ, VERIF_EVIDENCE_DIR=os.path.join(tmp, "evidence"))
        def one(pid):
            r = subprocess.run([os.path.join(VERIF, "check"), pid, "--repo", tmp], capture_output=True, text=True, env=env)
            lines = [l for l in (r.stdout + r.stderr).splitlines() if l.strip().startswith("[") or "ANALYSIS-ERROR" in l]
            return pid, {"rc": r.returncode, "lines": lines[:6]}
        from concurrent.futures import ThreadPoolExecutor
        with ThreadPoolExecutor(16) as ex:
            return dict(ex.map(one, props))
    finally:
        shutil.rmtree(tmp, ignore_errors=True)

if __name__ == "__main__":
    ap = argparse.ArgumentParser(); ap.add_argument("--dir", default=os.path.join(VERIF, "seeded")); ap.add_argument("--only"); ap.add_argument("--all-props", action="store_true")
    ap.add_argument("--jobs", type=int, default=4, help="seeds evaluated at the same time (each runs its 20 checks in parallel)")
    a = ap.parse_args()
    rows = []
    todo = [d for d in sorted(os.listdir(a.dir)) if os.path.isfile(os.path.join(a.dir, d, "patch.diff")) and not (a.only and a.only not in d)]
    from concurrent.futures import ThreadPoolExecutor as _TP
    with _TP(max(1, a.jobs)) as pool:
        results = list(zip(todo, pool.map(lambda d: run(os.path.join(a.dir, d)), todo)))
    for d, res in results:
        if "error" in res:
            print(f"{d}: {res['error']}"); continue
        fired = [p for p, r in res.items() if r["rc"] == 1]
        errs = [p for p, r in res.items() if r["rc"] == 2]
        print(f"{d}: fired={fired} analysis_error={errs}")
        for p in fired + errs:
            for l in res[p]["lines"][:2]:
                print("     ", l.strip()[:200])
        rows.append({"seed": d, "fired": fired, "errors": errs})
    json.dump(rows, open("/tmp/seeded_results.json", "w"), indent=1)
