#!/bin/sh
# intake whatever round-10 agents have delivered so far under /tmp/wt10
export WT_BASE=/tmp/wt10 SEED_PREFIX=r10-
cd /verif
for d in /tmp/wt10/c*/; do
  b=$(basename $d); pid=$(echo $b | tr c C)
  for x in a b; do
    if [ -f $d/_seed/$x/patch.diff ] && [ -f $d/_seed/$x/demo.py ] && [ -f $d/_seed/$x/README.md ] && [ ! -d seeded/r10-$b-$x ] && [ ! -f /tmp/wt10/.rejected-$b-$x ]; then
      /venv/bin/python tools/intake.py $pid $x || touch /tmp/wt10/.rejected-$b-$x
    fi
  done
done
