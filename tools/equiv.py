"""behaviour-preserving refactorings written by sub-agents: verify (applies, compiles, baseline tests still pass) and keep under
/verif/equivalents/<id>/; run all checks on each (scratch copy) - any VIOLATION is a false alarm.
usage: tools/equiv.py intake /tmp/wt2/e01   |   tools/equiv.py run [--only ID]"""
import json, os, shutil, subprocess, sys, tempfile
sys.path.insert(0, os.path.dirname(os.path.abspath(__file__)))
from intake import suite
from seeded import run as run_checks
VERIF = os.path.dirname(os.path.dirname(os.path.abspath(__file__)))
EQ = os.path.join(VERIF, "equivalents")

def intake(wt):
    name = os.path.basename(wt.rstrip("/"))
    base = os.path.join(wt, "_eq")
    for n in sorted(os.listdir(base)):
        sd = os.path.join(base, n)
        pf = os.path.join(sd, "patch.diff")
        if not os.path.isfile(pf):
            continue
        tmp = tempfile.mkdtemp(prefix="verif-eq-")
        root = os.path.join(tmp, "r")
        try:
            subprocess.run(["git", "-C", "/repo", "worktree", "add", "-q", "--detach", root, "HEAD"], check=True)
            a = subprocess.run(["git", "apply", "--exclude=_eq*", pf], cwd=root, capture_output=True, text=True)
            if a.returncode != 0:
                print(f"{name}-{n}: patch does not apply: {a.stderr[:200]}"); continue
            touched = subprocess.run(["git", "diff", "--name-only"], cwd=root, capture_output=True, text=True).stdout.split()
            missing, npass = suite(root)
            eqv = os.path.join(sd, "equiv.py")
            eq_ok = None
            if os.path.isfile(eqv):
                # the script may read files delivered next to it (recorded expectations): run it inside a copy of its directory
                shutil.copytree(sd, os.path.join(root, "_eqdir"))
                txt = open(eqv).read().replace(wt, root)
                open(os.path.join(root, "_eqdir", "equiv.py"), "w").write(txt)
                r = subprocess.run(["/venv/bin/python", "-m", "pytest", "-q", "-p", "no:cacheprovider", "_eqdir/equiv.py"], cwd=root, env=dict(os.environ, PYTHONPATH=root), capture_output=True, text=True)
                if r.returncode != 0:  # no tests collected, or written to be run as a script
                    r = subprocess.run(["/venv/bin/python", "_eqdir/equiv.py"], cwd=root, env=dict(os.environ, PYTHONPATH=root), capture_output=True, text=True)
                eq_ok = r.returncode == 0
            ok = not missing and all(t.startswith("ceos_alos2/") and "/tests/" not in t for t in touched) and eq_ok is not False
            print(f"{name}-{n}: touched={touched} regressions={len(missing)} passed={npass} equiv.py={'ok' if eq_ok else eq_ok} -> {'KEEP' if ok else 'REJECT'}")
            if ok:
                dest = os.path.join(EQ, f"{name}-{n}")
                shutil.rmtree(dest, ignore_errors=True)
                os.makedirs(dest)
                for f in os.listdir(sd):
                    if os.path.isfile(os.path.join(sd, f)):
                        shutil.copy(os.path.join(sd, f), dest)
                json.dump({"kind": "behaviour-preserving refactoring written by an independent sub-agent", "files_touched": touched,
                           "verified": {"suite": f"{npass} passed, 0 of the 1212 baseline tests regress", "equiv_script": eq_ok}}, open(os.path.join(dest, "meta.json"), "w"), indent=1)
        finally:
            subprocess.run(["git", "-C", "/repo", "worktree", "remove", "--force", root], capture_output=True)
            shutil.rmtree(tmp, ignore_errors=True)

def run(only=None):
    rows = []
    todo = [d for d in sorted(os.listdir(EQ)) if os.path.isfile(os.path.join(EQ, d, "patch.diff")) and not (only and only not in d)]
    from concurrent.futures import ThreadPoolExecutor
    with ThreadPoolExecutor(4) as pool:
        results = list(zip(todo, pool.map(lambda d: run_checks(os.path.join(EQ, d)), todo)))
    for d, res in results:
        if "error" in res:
            print(f"{d}: {res['error']}"); continue
        fired = [p for p, r in res.items() if r["rc"] == 1]
        errs = [p for p, r in res.items() if r["rc"] == 2]
        print(f"{d}: FALSE-ALARM={fired} undecided={errs}")
        for p in fired + errs:
            for l in res[p]["lines"][:2]:
                print("     ", p, l.strip()[:220])
        rows.append({"id": d, "false_alarms": fired, "undecided": errs})
    json.dump(rows, open("/tmp/equiv_results.json", "w"), indent=1)

if __name__ == "__main__":
    if sys.argv[1] == "intake":
        intake(sys.argv[2])
    else:
        run(sys.argv[3] if len(sys.argv) > 3 and sys.argv[2] == "--only" else None)
