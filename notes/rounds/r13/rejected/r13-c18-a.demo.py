"""An image file cut short on a record boundary must not be opened silently.

Synthesises a level 1.5 style image file (720 byte file descriptor followed by
processed data records) on fsspec's memory file system and cuts it after a
whole number of line records, so that one request of the index reader comes
back short and the following ones come back empty.
"""

import struct
import uuid

import fsspec
import pytest
from construct import Struct

from ceos_alos2.sar_image import open_image
from ceos_alos2.sar_image.file_descriptor import file_descriptor_record

N_LINES = 6
N_PIXELS = 4
PREFIX = 192
RECORD_SIZE = PREFIX + 2 * N_PIXELS
IMAGE = "IMG-HH-ALOS2290760600-191011-WWDR1.5RUA"


def field_offsets(struct_, start=0, prefix=()):
    offsets = {}
    for subcon in struct_.subcons:
        inner = subcon.subcon if hasattr(subcon, "name") and hasattr(subcon, "subcon") else subcon
        name = (*prefix, subcon.name)
        if isinstance(inner, Struct):
            offsets |= field_offsets(inner, start, name)
        else:
            offsets[name] = (start, subcon.sizeof())
        start += subcon.sizeof()
    return offsets


def preamble(number, record_type, length):
    return struct.pack(">IBBBBI", number, 50, record_type, 18, 20, length)


def file_descriptor():
    raw = bytearray(b" " * 720)
    raw[:12] = preamble(1, 192, 720)
    offsets = field_offsets(file_descriptor_record)

    def put(value, *name):
        start, size = offsets[name]
        raw[start : start + size] = str(value).rjust(size).encode()

    put(N_LINES, "number_of_sar_data_records")
    put(RECORD_SIZE, "sar_data_record_length")
    put(N_LINES, "sar_related_data_in_the_record", "number_of_lines_per_dataset")
    put(N_PIXELS, "sar_related_data_in_the_record", "number_of_data_groups_per_line")
    put("IU2", "prefix_suffix_data_locators", "sar_data_format_type_code")
    return bytes(raw)


def line_record(index):
    head = bytearray(PREFIX)
    head[:12] = preamble(index + 2, 11, RECORD_SIZE)
    head[12:32] = struct.pack(">5I", index + 1, 1, 0, N_PIXELS, 0)
    head[32:36] = struct.pack(">I", 0)
    head[36:48] = struct.pack(">3I", 2019, 284, 1000 * index)
    head[48:50] = struct.pack(">H", 1)
    pixels = struct.pack(f">{N_PIXELS}H", *[index * 10 + col for col in range(N_PIXELS)])
    return bytes(head) + pixels


def image_file():
    return file_descriptor() + b"".join(line_record(index) for index in range(N_LINES))


def open_cut(n_bytes, rpc):
    root = f"memory://c18-{uuid.uuid4().hex}"
    mapper = fsspec.get_mapper(root)
    mapper[IMAGE] = image_file()[:n_bytes]
    return open_image(mapper, IMAGE, use_cache=False, records_per_chunk=rpc)


def loadable_lines(group):
    array = group["data"].data
    return array[(slice(None), slice(None))].shape[0]


@pytest.mark.parametrize("rpc", [1, 2, 4, 5, 6, 7, 1024])
def test_complete_file_opens(rpc):
    group = open_cut(None, rpc)
    assert group["data"].data.shape == (N_LINES, N_PIXELS)
    assert loadable_lines(group) == N_LINES


@pytest.mark.parametrize("rpc", [1, 2, 4, 5])
@pytest.mark.parametrize("kept", [1, 2, 3, 4])
def test_cut_on_a_record_boundary_before_the_last_request(kept, rpc):
    # lines kept < first line of the last request: at least one request is empty
    last_request_starts = ((N_LINES - 1) // rpc) * rpc
    if kept > last_request_starts:
        pytest.skip("the cut falls into the last request")

    try:
        group = open_cut(720 + kept * RECORD_SIZE, rpc)
    except Exception:
        return  # fail-stop: fine

    declared = group["data"].data.shape[0]
    pytest.fail(
        f"truncated image opened silently: declared {declared} lines,"
        f" {loadable_lines(group)} loadable (kept {kept}, records_per_chunk={rpc})"
    )


@pytest.mark.parametrize("rpc", [1, 2, 4, 1024])
def test_cut_inside_a_record_raises(rpc):
    with pytest.raises(Exception):
        open_cut(720 + 2 * RECORD_SIZE + 7, rpc)
