"""prototype E4 (rough): function table, reference edges, reachability, store sites"""
import ast, os, sys
REPO="/repo"; PKG="ceos_alos2"
mods = {}
for dp, dn, fn in os.walk(os.path.join(REPO, PKG)):
    if "tests" in dp: continue
    for f in fn:
        if f.endswith(".py"):
            p = os.path.join(dp, f); name = os.path.relpath(p, REPO)[:-3].replace("/", ".")
            if name.endswith(".__init__"): name = name[:-9]
            mods[name] = ast.parse(open(p).read())
funcs = {}   # qualname -> (module, node)
imports = {} # module -> {alias: target}
for m, tree in mods.items():
    imp = {}
    for st in tree.body:
        if isinstance(st, ast.ImportFrom):
            for a in st.names: imp[a.asname or a.name] = f"{st.module}.{a.name}"
        elif isinstance(st, ast.Import):
            for a in st.names: imp[a.asname or a.name] = a.name
    imports[m] = imp
    def visit(body, prefix):
        for st in body:
            if isinstance(st, (ast.FunctionDef,)):
                funcs[f"{prefix}.{st.name}"] = (m, st); visit(st.body, f"{prefix}.{st.name}")
            elif isinstance(st, ast.ClassDef): visit(st.body, f"{prefix}.{st.name}")
    visit(tree.body, m)
def resolve(m, expr):
    """dotted name of a Name/Attribute expr in module m, or None"""
    parts = []
    while isinstance(expr, ast.Attribute): parts.append(expr.attr); expr = expr.value
    if not isinstance(expr, ast.Name): return None
    base = imports[m].get(expr.id, f"{m}.{expr.id}")
    full = ".".join([base] + parts[::-1])
    # module re-exports (__init__): follow once
    for _ in range(3):
        if full in funcs: return full
        mod, _, attr = full.rpartition(".")
        if mod in imports and attr in imports[mod]: full = imports[mod][attr]
        else: break
    return full
edges = {q: set() for q in funcs}
for q, (m, node) in funcs.items():
    for n in ast.walk(node):
        if isinstance(n, (ast.Name, ast.Attribute)):
            r = resolve(m, n)
            if r in funcs and r != q: edges[q].add(r)
            # method calls self.x / obj[...] -> class methods by name
        if isinstance(n, ast.Subscript) or (isinstance(n, ast.Attribute) and n.attr in ("chunks","subtree","variables","groups","name","shape","dtype","ndim","sizes")):
            pass
# crude method edges: attribute name matches a method of a repo class
methods = {}
for q in funcs:
    methods.setdefault(q.rsplit(".",1)[1], []).append(q)
for q, (m, node) in funcs.items():
    for n in ast.walk(node):
        if isinstance(n, ast.Attribute) and n.attr in methods and not n.attr.startswith("__"):
            for t in methods[n.attr]:
                if t.count(".") >= 3 or True:
                    if funcs[t][1] in [x for c in ast.walk(mods[funcs[t][0]]) if isinstance(c, ast.ClassDef) for x in c.body]: edges[q].add(t)
        if isinstance(n, ast.Subscript):
            for t in methods.get("__getitem__", []): edges[q].add(t)
def reach(start):
    seen = set(); todo = [start]
    while todo:
        q = todo.pop()
        if q in seen: continue
        seen.add(q); todo.extend(edges[q])
    return seen
def stores(q):
    m, node = funcs[q]; out = []
    params = {a.arg for a in node.args.args + node.args.kwonlyargs}
    for n in ast.walk(node):
        tg = []
        if isinstance(n, ast.Assign): tg = n.targets
        elif isinstance(n, (ast.AugAssign, ast.AnnAssign)): tg = [n.target]
        elif isinstance(n, ast.Delete): tg = n.targets
        for t in tg:
            for s in ast.walk(t):
                if isinstance(s, (ast.Attribute, ast.Subscript)) and isinstance(s.ctx, (ast.Store, ast.Del)):
                    out.append(ast.unparse(s))
        if isinstance(n, ast.Call) and isinstance(n.func, ast.Attribute) and n.func.attr in ("pop","update","append","extend","setdefault","clear","insert","remove","sort"):
            out.append(ast.unparse(n.func))
        if isinstance(n, (ast.Global, ast.Nonlocal)): out.append(ast.unparse(n))
    return out
for start in ("ceos_alos2.array.Array.__getitem__", "ceos_alos2.xarray.open_alos2"):
    r = reach(start)
    print("=====", start, "reaches", len(r))
    for q in sorted(r):
        s = stores(q)
        if s: print("   ", q, s)
print(sorted(reach("ceos_alos2.array.Array.__getitem__")))
