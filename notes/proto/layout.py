"""feasibility prototype: static construct-layout evaluator (AST only, no imports of the repo)"""
import ast, sys, os, json
from fractions import Fraction
REPO = "/repo"
PKG = "ceos_alos2"

class Aff:
    """affine/polynomial expression: dict monomial(tuple of sorted symbols) -> coeff"""
    def __init__(self, terms=None):
        self.t = {k: v for k, v in (terms or {}).items() if v != 0}
    @staticmethod
    def const(c): return Aff({(): c})
    @staticmethod
    def sym(s): return Aff({(s,): 1})
    def __add__(self, o):
        o = lift(o); d = dict(self.t)
        for k, v in o.t.items(): d[k] = d.get(k, 0) + v
        return Aff(d)
    __radd__ = __add__
    def __neg__(self): return Aff({k: -v for k, v in self.t.items()})
    def __sub__(self, o): return self + (-lift(o))
    def __rsub__(self, o): return lift(o) - self
    def __mul__(self, o):
        o = lift(o); d = {}
        for k1, v1 in self.t.items():
            for k2, v2 in o.t.items():
                k = tuple(sorted(k1 + k2)); d[k] = d.get(k, 0) + v1 * v2
        return Aff(d)
    __rmul__ = __mul__
    def is_const(self): return all(k == () for k in self.t)
    def value(self): return self.t.get((), 0)
    def __eq__(self, o): return self.t == lift(o).t
    def __repr__(self):
        if not self.t: return "0"
        parts = []
        for k, v in sorted(self.t.items()):
            parts.append(str(v) if k == () else (f"{v}*" if v != 1 else "") + "*".join(k))
        return " + ".join(parts)
def lift(x): return x if isinstance(x, Aff) else Aff.const(x)

class Con:
    def __init__(self, kind, **kw): self.kind = kind; self.__dict__.update(kw)
    def __repr__(self): return f"Con({self.kind})"

class This:
    def __init__(self, path): self.path = path
    def __getattr__(self, n): return This(self.path + (n,))

class Modules:
    def __init__(self):
        self.mods = {}
        for dp, dn, fn in os.walk(os.path.join(REPO, PKG)):
            if "tests" in dp: continue
            for f in fn:
                if f.endswith(".py"):
                    p = os.path.join(dp, f)
                    rel = os.path.relpath(p, REPO)[:-3].replace("/", ".")
                    if rel.endswith(".__init__"): rel = rel[:-9]
                    self.mods[rel] = Module(rel, p, self)
class Module:
    def __init__(self, name, path, ms):
        self.name, self.path, self.ms = name, path, ms
        self.tree = ast.parse(open(path).read())
        self.env = {}
        for st in self.tree.body:
            if isinstance(st, ast.Assign) and len(st.targets) == 1 and isinstance(st.targets[0], ast.Name):
                self.env[st.targets[0].id] = ("expr", st.value)
            elif isinstance(st, ast.ImportFrom):
                for a in st.names:
                    self.env[a.asname or a.name] = ("import", st.module, a.name)
            elif isinstance(st, ast.ClassDef):
                self.env[st.name] = ("class", st)
            elif isinstance(st, ast.FunctionDef):
                self.env[st.name] = ("func", st)

PRIM = {"Int8ub": 1, "Int16ub": 2, "Int32ub": 4, "Int64ub": 8}

class Eval:
    def __init__(self, ms): self.ms = ms
    def resolve(self, mod, name):
        e = mod.env.get(name)
        if e is None: raise KeyError(f"{mod.name}:{name}")
        if e[0] == "import":
            _, m, n = e
            if m in self.ms.mods: return self.resolve(self.ms.mods[m], n)
            return ("external", m, n), None
        return e, mod
    def ev(self, node, mod, local=None):
        local = local or {}
        if isinstance(node, ast.Constant): return node.value
        if isinstance(node, ast.Name):
            if node.id in local: return local[node.id]
            e, m = self.resolve(mod, node.id)
            if e[0] == "external":
                _, em, en = e
                if em == "construct":
                    if en in PRIM: return Con("int", size=lift(PRIM[en]), name=en)
                    if en == "this": return This(())
                    if en == "Tell": return Con("tell", size=lift(0))
                    return ("ctor", en)
                return ("ext", em, en)
            if e[0] == "expr": return self.ev(e[1], m)
            if e[0] == "class": return ("class", e[1], m)
            raise NotImplementedError(e[0])
        if isinstance(node, ast.Attribute):
            v = self.ev(node.value, mod, local)
            if isinstance(v, This): return getattr(v, node.attr)
            if isinstance(v, Con) and node.attr == "sizeof": return ("sizeof", v)
            if isinstance(v, dict) and node.attr == "get": return ("dictget", v)
            if isinstance(v, tuple) and v[0] == "selfobj": return self.ev(v[1][node.attr], v[2])
            raise NotImplementedError(ast.dump(node))
        if isinstance(node, ast.Dict):
            return {self.ev(k, mod, local): self.ev(v, mod, local) for k, v in zip(node.keys, node.values)}
        if isinstance(node, ast.BinOp):
            if isinstance(node.op, ast.Div) and isinstance(node.left, ast.Constant) and isinstance(node.left.value, str):
                return Con("renamed", name=node.left.value, sub=self.ev(node.right, mod, local), line=node.lineno, mod=mod.name)
            l, r = self.ev(node.left, mod, local), self.ev(node.right, mod, local)
            if isinstance(l, str) and isinstance(r, str) and isinstance(node.op, ast.Add): return l + r
            l = self.num(l); r = self.num(r)
            if isinstance(node.op, ast.Add): return l + r
            if isinstance(node.op, ast.Sub): return l - r
            if isinstance(node.op, ast.Mult): return l * r
            if isinstance(node.op, ast.FloorDiv):
                assert l.is_const() and r.is_const(); return lift(l.value() // r.value())
            raise NotImplementedError(ast.dump(node.op))
        if isinstance(node, ast.Subscript):
            v = self.ev(node.value, mod, local); c = self.ev(node.slice, mod, local)
            return Con("array", sub=v, count=self.num(c))
        if isinstance(node, ast.Call):
            f = self.ev(node.func, mod, local)
            args = [self.ev(a, mod, local) for a in node.args]
            kwargs = {k.arg: self.ev(k.value, mod, local) for k in node.keywords}
            if isinstance(f, tuple) and f[0] == "sizeof": return self.size(f[1])
            if isinstance(f, tuple) and f[0] == "dictget": return f[1].get(args[0])
            if isinstance(f, tuple) and f[0] == "ctor":
                n = f[1]
                if n == "Struct": return Con("struct", fields=args)
                if n == "Bytes": return Con("bytes", size=self.num(args[0]))
                if n == "PaddedString": return Con("str", size=self.num(args[0]), enc=args[1])
                if n == "Seek": return Con("seek", to=self.num(args[0]), size=None)
                if n == "Computed": return Con("computed", expr=args[0], size=lift(0))
                if n == "Enum": return Con("enum", sub=args[0], mapping=kwargs)
                raise NotImplementedError(n)
            if isinstance(f, tuple) and f[0] == "class":
                return self.instantiate(f[1], f[2], args, kwargs)
            raise NotImplementedError(ast.dump(node)[:200])
        raise NotImplementedError(ast.dump(node)[:200])
    def num(self, v):
        if isinstance(v, This): return Aff.sym("this." + ".".join(v.path))
        if isinstance(v, (int, Aff)): return lift(v)
        raise TypeError(v)
    def instantiate(self, cls, mod, args, kwargs):
        init = next((s for s in cls.body if isinstance(s, ast.FunctionDef) and s.name == "__init__"), None)
        classattrs = {s.targets[0].id: s.value for s in cls.body if isinstance(s, ast.Assign)}
        if init is None:
            return Con("adapter", cls=cls.name, sub=args[0], args=args[1:], kwargs=kwargs)
        params = [a.arg for a in init.args.args][1:]
        local = dict(zip(params, args)); local.update({k: v for k, v in kwargs.items() if k in params})
        extra = {k: v for k, v in kwargs.items() if k not in params}
        local["self"] = ("selfobj", classattrs, mod)
        sub = None
        for st in ast.walk(init):
            if isinstance(st, ast.Assign) and isinstance(st.targets[0], ast.Name):
                local[st.targets[0].id] = self.ev(st.value, mod, local)
            if isinstance(st, ast.Call) and isinstance(st.func, ast.Attribute) and st.func.attr == "__init__":
                sub = self.ev(st.args[0], mod, local)
        return Con("adapter", cls=cls.name, sub=sub, args={p: local[p] for p in params}, kwargs=extra)
    def size(self, c):
        k = c.kind
        if k in ("int", "bytes", "str", "tell", "computed"): return c.size
        if k in ("renamed", "adapter", "enum"): return self.size(c.sub)
        if k == "array": return c.count * self.size(c.sub)
        if k == "struct":
            pos = lift(0)
            for f in c.fields:
                inner = f.sub if f.kind == "renamed" else f
                if inner.kind == "seek": return None  # handled by walk
                pos = pos + self.size(f)
            return pos
        raise NotImplementedError(k)

def describe(c):
    chain = []
    while True:
        if c.kind == "adapter":
            a = {k: v for k, v in (c.args.items() if isinstance(c.args, dict) else [])if not isinstance(v, (Con, This))}
            chain.append((c.cls, a, c.kwargs if c.kwargs else None)); c = c.sub
        elif c.kind == "enum": chain.append(("Enum", c.mapping, None)); c = c.sub
        elif c.kind == "renamed": c = c.sub
        else: chain.append((c.kind, getattr(c, "name", None), None)); return chain, c

def walk(evl, c, pos, path, out):
    """returns new pos"""
    if c.kind == "renamed":
        return walk(evl, c.sub, pos, path + (c.name,), out)
    chain, core = describe(c)
    if core.kind == "struct":
        start = pos
        for f in core.fields: pos = walk(evl, f, pos, path, out)
        if chain[:-1]: out.append((path, start, pos - start, chain))
        return pos
    if core.kind == "array":
        sz = evl.size(core.sub)
        sub_out = []
        walk(evl, core.sub, lift(0), (), sub_out)
        out.append((path, pos, core.count * sz, chain[:-1] + [("array", repr(core.count), repr(sz), [(p, repr(o), repr(s), ch) for p, o, s, ch in sub_out])]))
        return pos + core.count * sz
    if core.kind == "seek":
        out.append((path, pos, "seek->" + repr(core.to), chain)); return core.to
    if core.kind == "tell":
        out.append((path, pos, 0, chain)); return pos
    sz = evl.size(core)
    out.append((path, pos, sz, chain))
    return pos + sz

if __name__ == "__main__":
    ms = Modules(); evl = Eval(ms)
    targets = [("ceos_alos2.sar_image.file_descriptor", "file_descriptor_record"), ("ceos_alos2.sar_image.signal_data", "signal_data_record"),
        ("ceos_alos2.sar_image.processed_data", "processed_data_record"), ("ceos_alos2.sar_leader.structure", "sar_leader_record"),
        ("ceos_alos2.volume_directory.structure", "volume_directory_record"), ("ceos_alos2.sar_trailer.file_descriptor", "file_descriptor_record")]
    total = 0
    for m, n in targets:
        mod = ms.mods[m]; c = evl.ev(mod.env[n][1], mod)
        out = []
        end = walk(evl, c, Aff.sym("P0") if "data_record" in n else lift(0), (), out)
        print("=====", m, n, "fields", len(out), "end", end); total += len(out)
        if len(sys.argv) > 1:
            for p, o, s, ch in out: print("  ", ".".join(p), "@", o, "+", s, ch)
    print("total leaves", total)
