import numpy as np, shutil, os, traceback, sys, json
os.environ["XDG_CACHE_HOME"] = "/root/scratch/xdgcache"
shutil.rmtree("/root/scratch/xdgcache", ignore_errors=True)
import synth, ceos_alos2
def section(t): print("\n=====", t)
def attempt(f, *a, **k):
    try:
        r = f(*a, **k); return r
    except BaseException as e:
        print("  EXC:", type(e).__name__, str(e)[:300]); return None
root = "/root/scratch/prod11"
shutil.rmtree(root, ignore_errors=True)
rng = np.random.default_rng(0)
data = (rng.normal(size=(6,10)) + 1j*rng.normal(size=(6,10))).astype("complex64")
data[0,0] = complex(np.inf, 1.0); data[0,1] = complex(1.0, np.inf); data[0,2] = complex(-0.0, 2.0); data[0,3] = complex(np.nan, 3.0); data[0,4]=complex(2.0,-0.0)
names = synth.write_product(root, {"HH": data}, level="1.1")
t = attempt(ceos_alos2.open_alos2, root, backend_options={"use_cache": False, "records_per_chunk": 4})
section("C01 complex")
v = t["imagery/HH/data"].values
print(v.dtype, v.shape)
a = v.view("float32"); b = data.view("float32")
print("bit-equal:", np.array_equal(a.view("uint32"), b.view("uint32")))
print(v[0,:5]); print(data[0,:5])
section("C12 level 1.1 variables")
ds = t["imagery/HH"].to_dataset()
for k, x in ds.variables.items():
    if k != "data" and (x.dtype == object or x.dtype.kind in "OSU"): print(k, x.dtype, x.shape, x.values[:1])
print(t["imagery/HH"].attrs)
