import numpy as np, shutil, os, sys, glob
os.environ["XDG_CACHE_HOME"] = "/root/scratch/xdgcache"
shutil.rmtree("/root/scratch/xdgcache", ignore_errors=True)
import synth, ceos_alos2, fsspec
print(ceos_alos2.__file__)
def attempt(f, *a, **k):
    try: return f(*a, **k)
    except BaseException as e: print("  EXC:", type(e).__name__, str(e)[:200]); return None
root = "/root/scratch/prod11"; shutil.rmtree(root, ignore_errors=True)
rng = np.random.default_rng(0)
data = (rng.normal(size=(6,10)) + 1j*rng.normal(size=(6,10))).astype("complex64")
data[0,0] = complex(np.inf, 1.0); data[0,1] = complex(1.0, np.inf); data[0,2] = complex(-0.0, 2.0); data[0,3] = complex(np.nan, 3.0); data[0,4]=complex(2.0,-0.0)
synth.write_product(root, {"HH": data}, level="1.1")
t = ceos_alos2.open_alos2(root, backend_options={"use_cache": False, "records_per_chunk": 4})
v = t["imagery/HH/data"]
print("D1 bit-equal:", np.array_equal(v.values.view("uint32"), data.view("uint32")))
print("D2:", v.isel(rows=2).values.shape, v.isel(rows=-1, columns=3).values.shape, v.isel(rows=slice(0,0)).values.shape, np.array_equal(v.isel(rows=2).values.view("uint32"), data[2].view("uint32")))
print("D3:", t["imagery/HH"].attrs.get("valid_range", "absent"))
print("D7:", repr(v.dtype)); s = repr(t); print("repr ok", len(s))
root = "/root/scratch/prod15"; shutil.rmtree(root, ignore_errors=True)
d15 = np.arange(7*20, dtype="uint16").reshape(7,20)
synth.write_product(root, {"HH": d15, "HV": d15+1000})
t = attempt(ceos_alos2.open_alos2, root, backend_options={"use_cache": False, "create_cache": True, "records_per_chunk": 3})
files = glob.glob("/root/scratch/xdgcache/**/*.index", recursive=True); print("D4 cache files:", len(files))
doc = open(files[0]).read()
for cut in [0, 1, len(doc)//2, len(doc)-1]:
    open(files[0], "w").write(doc[:cut])
    r = attempt(ceos_alos2.open_alos2, root, backend_options={})
    print("D6 cut", cut, "ok" if r is not None and np.array_equal(r["imagery/HH/data"].values, d15) else "FAIL")
r = attempt(ceos_alos2.open_alos2, root, backend_options={"create_cache": True}); print("repaired:", open(files[0]).read() == doc or len(open(files[0]).read()))
from ceos_alos2 import decoders
print("D9:", attempt(decoders.decode_product_id, "WBDR1.5GPD")["map_projection"], "D10:", attempt(decoders.decode_scene_id, "ALOS2000000000-200229XYZ"))
