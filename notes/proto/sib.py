from layout import *
ms = Modules(); evl = Eval(ms)
def leaves(m, n, start):
    mod = ms.mods[m]; c = evl.ev(mod.env[n][1], mod); out = []
    walk(evl, c, start, (), out); return {".".join(p): (repr(o), repr(s), repr(ch)) for p, o, s, ch in out}
a = leaves("ceos_alos2.sar_image.signal_data", "signal_data_record", lift(0))
b = leaves("ceos_alos2.sar_image.processed_data", "processed_data_record", lift(0))
for k in a:
    if k in b and a[k][2] != b[k][2]: print("DIFF codec", k, a[k], b[k])
    if k in b and a[k][0] != b[k][0]: print("diff offset", k, a[k][0], b[k][0])
print(len(set(a)&set(b)), "shared")
l = leaves("ceos_alos2.sar_leader.file_descriptor", "file_descriptor_record", lift(0))
t = leaves("ceos_alos2.sar_trailer.file_descriptor", "file_descriptor_record", lift(0))
for k in l:
    if k in t and l[k] != t[k]: print("LDR/TRL diff", k, l[k], t[k])
print(len(set(l)&set(t)), "shared ldr/trl", sorted(set(l)-set(t)), sorted(set(t)-set(l)))
