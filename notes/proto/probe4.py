import numpy as np, shutil, os, traceback, sys, json, glob
os.environ["XDG_CACHE_HOME"] = "/root/scratch/xdgcache"
shutil.rmtree("/root/scratch/xdgcache", ignore_errors=True)
import synth, ceos_alos2, fsspec
from ceos_alos2.sar_image.caching import encoders
from ceos_alos2.array import Array
orig = encoders.encode_array
def patched(obj):
    if not isinstance(obj, Array): obj = np.asarray(obj)
    return orig(obj)
encoders.encode_array = patched
def section(t): print("\n=====", t)
def attempt(f, *a, **k):
    try:
        r = f(*a, **k); return r
    except BaseException as e:
        print("  EXC:", type(e).__name__, str(e)[:300]); return None
root = "/root/scratch/prod15"
shutil.rmtree(root, ignore_errors=True)
data = np.arange(7*20, dtype="uint16").reshape(7,20)
names = synth.write_product(root, {"HH": data, "HV": data+1000})
section("create cache (patched encoder)")
t = attempt(ceos_alos2.open_alos2, root, backend_options={"use_cache": False, "create_cache": True, "records_per_chunk": 3})
files = glob.glob("/root/scratch/xdgcache/**/*.index", recursive=True); print(files)
section("open with cache, rpc=5")
t2 = attempt(ceos_alos2.open_alos2, root, backend_options={"use_cache": True, "records_per_chunk": 5})
t0 = ceos_alos2.open_alos2(root, backend_options={"use_cache": False, "records_per_chunk": 5})
if t2 is not None:
    print(np.array_equal(t2["imagery/HH/data"].values, data), t2["imagery/HH/data"].encoding, t0["imagery/HH/data"].encoding)
    d2 = t2["imagery/HH"].to_dataset(); d0 = t0["imagery/HH"].to_dataset()
    for k in d0.variables:
        if k == "data": continue
        same = d0[k].dtype == d2[k].dtype and np.array_equal(d0[k].values, d2[k].values) and d0[k].attrs == d2[k].attrs
        if not same: print("  DIFF", k, d0[k].dtype, d2[k].dtype)
    print("attrs equal", d0.attrs == d2.attrs, [ (k, d0.attrs[k], d2.attrs.get(k)) for k in d0.attrs if d0.attrs[k] != d2.attrs.get(k)])
    print("paths", [n.path for n in t2.subtree] == [n.path for n in t0.subtree])
section("torn cache")
doc = open(files[0]).read()
for cut in [0, 1, len(doc)//2, len(doc)-1]:
    open(files[0], "w").write(doc[:cut])
    print(" cut", cut, end=": ")
    r = attempt(ceos_alos2.open_alos2, root, backend_options={})
    if r is not None: print("ok")
open(files[0], "w").write(doc)
section("memory fs")
mfs = fsspec.filesystem("memory")
for n in os.listdir(root):
    mfs.pipe(f"/prodmem/{n}", open(os.path.join(root, n), "rb").read())
t3 = attempt(ceos_alos2.open_alos2, "memory://prodmem", backend_options={"use_cache": False, "create_cache": True, "records_per_chunk": 3})
print(np.array_equal(t3["imagery/HH/data"].values, data))
t4 = attempt(ceos_alos2.open_alos2, "memory://prodmem", backend_options={"use_cache": True, "records_per_chunk": 3})
if t4 is not None:
    r = attempt(lambda: t4["imagery/HH/data"].values)
    print(None if r is None else np.array_equal(r, data))
section("mutation of options")
o = {"use_cache": False, "records_per_chunk": 3, "storage_options": {}}
ceos_alos2.open_alos2(root, backend_options=o); print(o)
print(ceos_alos2.open_alos2.__defaults__, ceos_alos2.io.open.__kwdefaults__)
