"""prototype E5: finite-language / width analysis of regex literals via re._parser"""
import re, ast, itertools
import re._parser as sp
import re._constants as sc
CAP = 200000
def charset(items):
    out = set(); neg = False
    for op, av in items:
        if op is sc.NEGATE: neg = True
        elif op is sc.LITERAL: out.add(chr(av))
        elif op is sc.RANGE: out.update(chr(c) for c in range(av[0], av[1] + 1))
        elif op is sc.CATEGORY:
            if av is sc.CATEGORY_DIGIT: out.update("0123456789")
            else: return None
        else: return None
    return None if neg else out
def lang(seq):
    """set of strings or None (infinite / too large)"""
    cur = {""}
    for op, av in seq:
        if op is sc.LITERAL: nxt = {chr(av)}
        elif op is sc.IN: nxt = charset(av)
        elif op is sc.ANY: nxt = None
        elif op is sc.BRANCH: 
            parts = [lang(b) for b in av[1]]
            nxt = None if any(p is None for p in parts) else set().union(*parts)
        elif op is sc.SUBPATTERN: nxt = lang(av[3])
        elif op in (sc.MAX_REPEAT, sc.MIN_REPEAT):
            lo, hi, body = av
            b = lang(body)
            if b is None or hi is sc.MAXREPEAT or len(b) ** max(hi, 1) > CAP: nxt = None
            else:
                nxt = set()
                for n in range(lo, hi + 1):
                    nxt.update("".join(t) for t in itertools.product(sorted(b), repeat=n))
        else: return None
        if nxt is None or len(cur) * len(nxt) > CAP: return None
        cur = {a + b for a in cur for b in nxt}
    return cur
def groups(pattern):
    p = sp.parse(pattern)
    names = {v: k for k, v in p.state.groupdict.items()}
    out = {}
    def visit(seq):
        for op, av in seq:
            if op is sc.SUBPATTERN:
                gid, _, _, body = av
                if gid in names: out[names[gid]] = (lang(body), body.getwidth())
                visit(body)
            elif op is sc.BRANCH:
                for b in av[1]: visit(b)
            elif op in (sc.MAX_REPEAT, sc.MIN_REPEAT): visit(av[2])
    visit(p)
    return out, p.getwidth()
if __name__ == "__main__":
    src = ast.parse(open("/repo/ceos_alos2/decoders.py").read())
    consts = {}
    for st in src.body:
        if isinstance(st, ast.Assign) and isinstance(st.value, ast.Call) and getattr(st.value.func, "attr", "") == "compile":
            consts[st.targets[0].id] = st.value.args[0].value
        if isinstance(st, ast.Assign) and isinstance(st.value, ast.Dict) and all(isinstance(k, ast.Constant) for k in st.value.keys):
            consts[st.targets[0].id] = [k.value for k in st.value.keys]
    for name in ("scene_id_re", "product_id_re", "scan_info_re", "fname_re"):
        g, w = groups(consts[name])
        print(name, "width", w)
        for k, (l, gw) in g.items(): print("   ", k, gw, "inf/large" if l is None else (len(l), sorted(l)[:6]))
    g, _ = groups(consts["product_id_re"])
    for grp, table in [("observation_direction","observation_directions"),("processing_level","processing_levels"),("processing_option","processing_options"),("map_projection","map_projections"),("orbit_direction","orbit_directions"),("observation_mode","observation_modes")]:
        l = g[grp][0]; keys = set(consts[table])
        print(grp, "table ⊆ regex:", keys <= l if l is not None else "n/a", "missing:", sorted(keys - l) if l is not None else None)
