import numpy as np, shutil, os, traceback, sys
os.environ["XDG_CACHE_HOME"] = "/root/scratch/xdgcache"
shutil.rmtree("/root/scratch/xdgcache", ignore_errors=True)
import synth, ceos_alos2
from ceos_alos2 import io as cio
def section(t): print("\n=====", t)
def attempt(f, *a, **k):
    try:
        r = f(*a, **k); return r
    except BaseException as e:
        print("  EXC:", type(e).__name__, str(e)[:200]); return None

root = "/root/scratch/prod15"
shutil.rmtree(root, ignore_errors=True)
data = np.arange(7*20, dtype="uint16").reshape(7,20)
names = synth.write_product(root, {"HH": data, "HV": data+1000})
opts = {"use_cache": False, "records_per_chunk": 3}
t = ceos_alos2.open_alos2(root, backend_options=opts)
section("C01 IU2 values"); print(np.array_equal(t["imagery/HH/data"].values, data), np.array_equal(t["imagery/HV/data"].values, data+1000))
section("C02 int row index")
v = t["imagery/HH/data"]
r = attempt(lambda: v.isel(rows=2).values);  print("  shape", None if r is None else r.shape, "expected", data[2].shape)
r = attempt(lambda: v.isel(rows=slice(0,0)).values); print("  empty", None if r is None else r.shape)
r = attempt(lambda: v.isel(rows=[1,3], columns=[2,4]).values); print("  outer", None if r is None else (r.shape, np.array_equal(r, data[np.ix_([1,3],[2,4])])))
r = attempt(lambda: v.isel(rows=slice(None,None,-2)).values); print("  negstep", None if r is None else np.array_equal(r, data[::-2]))
r = attempt(lambda: v.isel(rows=-1).values); print("  neg int", None if r is None else (r.shape))
section("C03 header attrs w/ blanks"); print(t["imagery/HH"].attrs)
section("C12 dtype"); print(type(v.variable._data), repr(v.dtype), type(v.dtype))
for p in ["imagery/HH"]:
    ds = t[p].to_dataset()
    print({k: (str(x.dtype), x.shape) for k, x in ds.variables.items()})
section("root attrs"); print(dict(t.attrs))
section("C17 times")
print(ds["sensor_acquisition_date"].values[:2])
print(t["metadata/attitude/attitude"].to_dataset()["time"].values[:2])
print(t["metadata/platform_position"].attrs["datetime_of_first_point"], t["metadata/dataset_summary"].attrs["scene_center_time"])
section("C07 create_cache")
t2 = attempt(ceos_alos2.open_alos2, root, backend_options={"use_cache": False, "create_cache": True, "records_per_chunk": 3})
for dp, dn, fn in os.walk("/root/scratch/xdgcache"): print(dp, fn)
section("C18 truncation at record boundary")
img = os.path.join(root, names[2]); b = open(img,"rb").read()
reclen = 192 + 40
for cut, rpc in [(720 + 5*reclen, 1024), (720+5*reclen, 2), (720+5*reclen+10, 1024), (720+6*reclen, 3)]:
    open(img,"wb").write(b[:cut])
    tt = attempt(ceos_alos2.open_alos2, root, backend_options={"use_cache": False, "records_per_chunk": rpc})
    if tt is not None:
        vv = tt["imagery/HH/data"]; print("  cut", cut, "rpc", rpc, "returned shape", vv.shape, "coords len", tt["imagery/HH"].sizes)
        attempt(lambda: vv.values)
open(img,"wb").write(b)
section("C15")
from ceos_alos2 import decoders
for pid in ["WBDR1.5GPD", "WBDR1.5GMA", "WBDR1.5GUA"]:
    print(pid, attempt(decoders.decode_product_id, pid))
print(attempt(decoders.decode_scene_id, "ALOS2000000000-200229XYZ"))
