import ast, sys
from layout import *
ms = Modules(); evl = Eval(ms)
def struct_fields(m, n):
    mod = ms.mods[m]; c = evl.ev(mod.env[n][1], mod)
    def names(c):
        while c.kind in ("renamed","adapter","enum"): c = c.sub
        if c.kind == "array": return names(c.sub)
        if c.kind != "struct": return None
        return {f.name: names(f) for f in c.fields if f.kind == "renamed"}
    return names(c)
def literal_tables(m, fn):
    mod = ms.mods[m]; f = mod.env[fn][1]; out = {}
    for st in ast.walk(f):
        if isinstance(st, ast.Assign) and isinstance(st.targets[0], ast.Name) and isinstance(st.value, (ast.List, ast.Dict, ast.Set)):
            v = st.value
            if isinstance(v, ast.Dict): keys = [k.value for k in v.keys if isinstance(k, ast.Constant)]
            else: keys = [e.value for e in v.elts if isinstance(e, ast.Constant)]
            out[st.targets[0].id] = keys
    return out
pairs = [
 ("ceos_alos2.sar_leader.dataset_summary","dataset_summary_record","transform_dataset_summary"),
 ("ceos_alos2.sar_leader.map_projection","map_projection_record","transform_map_projection"),
 ("ceos_alos2.sar_leader.platform_position","platform_position_record","transform_platform_position"),
 ("ceos_alos2.sar_leader.radiometric_data","radiometric_data_record","transform_radiometric_data"),
 ("ceos_alos2.sar_leader.data_quality_summary","data_quality_summary_record","transform_data_quality_summary"),
 ("ceos_alos2.sar_leader.facility_related_data","facility_related_data_5_record","transform_record5"),
]
for m, s, f in pairs:
    fields = struct_fields(m, s); t = literal_tables(m, f)
    print("==", f, {k: [x for x in v if x not in fields] for k, v in t.items()})
# volume
vf = struct_fields("ceos_alos2.volume_directory.structure", "volume_descriptor"); tf = struct_fields("ceos_alos2.volume_directory.structure","text_record")
t = literal_tables("ceos_alos2.volume_directory.metadata","transform_volume_descriptor"); print("== vol", {k:[x for x in v if x not in vf] for k,v in t.items()})
t = literal_tables("ceos_alos2.volume_directory.metadata","transform_text"); print("== text", {k:[x for x in v if x not in tf] for k,v in t.items()})
# line metadata
sf = struct_fields("ceos_alos2.sar_image.signal_data","signal_data_record"); pf = struct_fields("ceos_alos2.sar_image.processed_data","processed_data_record")
t = literal_tables("ceos_alos2.sar_image.metadata","transform_line_metadata")
print("== line", {k:[x for x in v if x not in sf and x not in pf] for k,v in t.items()}, {k:[x for x in v if (x in sf) != (x in pf)] for k,v in t.items()})
hf = struct_fields("ceos_alos2.sar_image.file_descriptor","file_descriptor_record")
flat = set(hf) | {k2 for k,v in hf.items() if v for k2 in v}
t = literal_tables("ceos_alos2.sar_image.metadata","extract_attrs"); print("== hdr", {k:[x for x in v if x not in flat] for k,v in t.items()})
# leader
lf = struct_fields("ceos_alos2.sar_leader.structure","sar_leader_record")
t = literal_tables("ceos_alos2.sar_leader.metadata","transform_metadata"); print("== leader", {k:[x for x in v if x not in lf] for k,v in t.items()}, "uncovered:", [x for x in lf if x not in t["ignored"] and x not in t["transformers"]])
# nested per-line structs surfacing
t = literal_tables("ceos_alos2.sar_image.metadata","transform_line_metadata")
for nm, fs in (("signal", sf), ("processed", pf)):
    print(nm, "nested surfacing:", [k for k, v in fs.items() if v and k not in t["ignored"]])
