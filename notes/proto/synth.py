"""scratch synthetic product generator (for triage only)"""
import numpy as np, os, struct as st
import construct as C
from ceos_alos2.sar_image.file_descriptor import file_descriptor_record as img_fd
from ceos_alos2.sar_leader.structure import sar_leader_record
from ceos_alos2.sar_leader import file_descriptor as lfd, dataset_summary as ds, map_projection as mp, platform_position as pp, attitude as att, radiometric_data as rad, data_quality_summary as dqs, facility_related_data as frd
from ceos_alos2.volume_directory import structure as vs

def offsets(s, base=0, prefix=()):
    """yield (path, offset, size) for fixed-size leaves"""
    off = base
    for sc in s.subcons:
        name = sc.name
        inner = sc.subcon if isinstance(sc, C.Renamed) else sc
        size = inner.sizeof()
        core = inner
        while isinstance(core, C.Adapter) and not isinstance(core.subcon, C.Struct) and hasattr(core, "subcon") and isinstance(core.subcon, (C.Adapter,)):
            core = core.subcon
        # descend into Structs (through adapters)
        probe = inner
        while hasattr(probe, "subcon") and not isinstance(probe, C.Struct) and not isinstance(probe, C.Array):
            probe = probe.subcon
        if isinstance(probe, C.Struct):
            yield from offsets(probe, off, prefix + (name,))
        else:
            yield prefix + (name,), off, size
        off += size

def put(buf, off, size, text):
    b = str(text).encode()
    assert len(b) <= size, (text, size)
    buf[off:off+size] = b.rjust(size)

def fill(struct, values, size=None, fillbyte=b" "):
    size = size or struct.sizeof()
    buf = bytearray(fillbyte * size)
    table = {".".join(p): (o, s) for p, o, s in offsets(struct)}
    for k, v in values.items():
        o, s = table[k]
        if isinstance(v, bytes):
            buf[o:o+s] = v
        else:
            put(buf, o, s, v)
    return buf

def preamble(seq, sub1, typ, sub2, sub3, length):
    return st.pack(">IBBBBI", seq, sub1, typ, sub2, sub3, length)

def make_leader(n_att=3, n_mp=1, n_ch=2, fac_len=100, att_len=16384):
    parts = []
    parts.append(fill(lfd.file_descriptor_record, {"preamble.record_sequence_number": preamble(1,11,192,18,18,720)[:4], "map_projection.number_of_records": n_mp}))
    b = fill(ds.dataset_summary_record, {"scene_center_time": "20200229120000123456", "scene_id": "ALOS2000000000-200229",
        "base_band_conversion_flag": "YES ", "range_compression_flag": "NO  ", "echo_tracker_status": "ON  ", "clutter_lock_applied_flag": "OFF ", "auto_focusing_applied_flag": "YES ",
        "weighting_function_in_azimuth": "1", "weighting_function_in_range": "1", "motion_compensation_indicator": "00"})
    b[0:12] = preamble(2,18,10,18,20,4096); parts.append(b)
    for i in range(n_mp):
        b = fill(mp.map_projection_record, {"map_projection_designator": "UTM-PROJECTION"})
        b[0:12] = preamble(3,18,20,18,20,1620); parts.append(b)
    b = fill(pp.platform_position_record, {"datetime_of_first_point.date": "2020 02 29", "datetime_of_first_point.day_of_year": 60, "datetime_of_first_point.seconds_of_day": "43200.5", "orbital_elements_designator": "1"})
    b[0:12] = preamble(4,18,30,18,20,4680); parts.append(b)
    # attitude
    b = bytearray(b" " * att_len)
    b[0:12] = preamble(5,18,40,18,20,att_len)
    put(b, 12, 4, n_att)
    for i in range(n_att):
        o = 16 + i*120
        put(b, o, 4, 60); put(b, o+4, 8, 1000*i)
        put(b, o+12, 4, 0); put(b, o+16, 4, 0); put(b, o+20, 4, 0)
        put(b, o+24, 14, "1.5"); put(b, o+38, 14, "2.5"); put(b, o+52, 14, "3.5")
        put(b, o+66, 4, 0); put(b, o+70, 4, 0); put(b, o+74, 4, 0)
        put(b, o+78, 14, "0.1"); put(b, o+92, 14, "0.2"); put(b, o+106, 14, "0.3")
    parts.append(b)
    b = fill(rad.radiometric_data_record, {"calibration_factor": "-83.0"})
    b[0:12] = preamble(6,18,50,18,20,9860); parts.append(b)
    b = bytearray(b" " * 1620); b[0:12] = preamble(7,18,60,18,20,1620); put(b, 12+4+4+6, 4, n_ch); parts.append(b)
    for i in range(4):
        b = bytearray(b" " * fac_len); b[0:12] = preamble(8+i,18,200,18,70,fac_len); put(b,12,4,i+1); parts.append(b)
    b = fill(frd.facility_related_data_5_record, {}); b[0:12] = preamble(12,18,200,18,70,5000); put(b,12,4,5); parts.append(b)
    return b"".join(bytes(p) for p in parts)

def make_volume(n_fp=3):
    parts = []
    b = fill(vs.volume_descriptor, {"number_of_file_pointer_records": n_fp, "logical_volume_creation_datetime": "2020022912000000", "physical_volume_id": "PVID"})
    b[0:12] = preamble(1,192,192,18,18,360); parts.append(b)
    for i in range(n_fp):
        b = fill(vs.file_descriptor, {}); b[0:12] = preamble(2+i,219,192,18,18,360); parts.append(b)
    b = bytearray(b" " * 360); b[0:12] = preamble(9,18,63,18,18,360); put(b, 16, 40, "PRODUCT:WBDR1.1__D"); parts.append(b)
    return b"".join(bytes(p) for p in parts)

def make_image(data, level="1.5", prefix_fill=0):
    n_lines, n_pix = data.shape
    if level == "1.1":
        type_code, prefix, rectype, bps = "C*8", 544, 10, 8
        raw = np.empty((n_lines, n_pix), dtype=[("real", ">f4"), ("imag", ">f4")])
        raw["real"] = data.real; raw["imag"] = data.imag
    else:
        type_code, prefix, rectype, bps = "IU2", 192, 11, 2
        raw = data.astype(">u2")
    reclen = prefix + n_pix * bps
    hdr = fill(img_fd, {
        "number_of_sar_data_records": n_lines, "sar_data_record_length": reclen,
        "sar_related_data_in_the_record.number_of_lines_per_dataset": n_lines,
        "sar_related_data_in_the_record.number_of_data_groups_per_line": n_pix,
        "prefix_suffix_data_locators.sar_data_format_type_code": type_code,
    })
    hdr[0:12] = preamble(1,50,192,18,18,720)
    recs = []
    for i in range(n_lines):
        p = bytearray(bytes([prefix_fill]) * prefix)
        p[0:12] = preamble(2+i,50,rectype,18,20,reclen)
        p[12:16] = st.pack(">I", i+1)
        p[36:48] = st.pack(">III", 2020, 60, 1000*i)
        recs.append(bytes(p) + raw[i].tobytes())
    return bytes(hdr) + b"".join(recs)

def make_summary(names):
    lines = ['Odi_SceneId="ALOS2000000000-200229"', 'Scs_SceneID="ALOS2000000000-200229"', 'Pds_ProductID="WBDR1.5RUD"',
             'Img_SceneCenterDateTime="20200229 12:00:00.123"', 'Pdi_ProductFormat="CEOS"']
    for i, n in enumerate(names):
        lines.append(f'Pdi_L15ProductFileName{i+1:02d}="{n}"')
    lines += ['Pdi_NoOfPixels_0="20"', 'Pdi_NoOfLines_0="7"', 'Ach_TimeCheck=""', 'Rad_PracticeResultCode="GOOD"', 'Lbi_ProcessFacility="SCMO"', 'Lbi_ObservationDate="20200229"']
    return "\n".join(lines) + "\n"

def write_product(root, images, level="1.5", **kw):
    os.makedirs(root, exist_ok=True)
    sid = "ALOS2000000000-200229"; pid = {"1.5": "WBDR1.5RUD", "1.1": "WBDR1.1__D"}[level]
    names = [f"VOL-{sid}-{pid}", f"LED-{sid}-{pid}"] + [f"IMG-{k}-{sid}-{pid}" for k in images] + [f"TRL-{sid}-{pid}"]
    files = {"summary.txt": make_summary(names).encode(), names[0]: make_volume(), names[1]: make_leader(**kw), names[-1]: b""}
    for k, d in images.items():
        files[f"IMG-{k}-{sid}-{pid}"] = make_image(d, level)
    for n, c in files.items():
        with open(os.path.join(root, n), "wb") as f: f.write(c)
    return names
