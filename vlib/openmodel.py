"""E10 -- model evaluation of sar_image.open_image: which of its collaborators is called, with what, in which situation.

open_image is the junction of the cache protocol (C07, C09, C10), the metadata pass (C06, C11), the pixel array wiring (C01,
C13) and the fail-stop tie between declared shape and parsed records (C18).  It is evaluated by the checker's interpreter
(vlib/shapes.py; nothing of the package is imported or run) with every collaborator replaced by a recording stub:

  caching.read_cache      returns a marker group ("hit"), raises CachingError ("miss"), or raises CachingError with a cause ("torn")
  caching.create_cache    records (mapper, path, group, whether the group already holds its pixel variable); may raise OSError
  DirFileSystem / fs.open records the construction and every open
  read_metadata           records (file, records_per_chunk), returns marker header / records
  transform_metadata      returns a fresh group and array metadata (shape from the header: 6 x 5; 4 byte ranges - fewer than
                          the declared lines, as after a truncation on a record boundary)
  Array                   records its keyword arguments

for every combination of use_cache / create_cache / cache state / records_per_chunk.  The oracle is the property text.
"""
from __future__ import annotations

from collections import OrderedDict

from .core import AnalysisError
from .shapes import Const, DictS, Fn, Interp, ListLit, NonTermination, Obj, ShapeError, Top, TupS, _Raise

SI = "ceos_alos2.sar_image"
PATH = "IMG-HH-ALOS2012345678-160229-WBDR1.1__D-B3"
CACHING_ERROR = ["CachingError", "FileNotFoundError", "OSError", "Exception", "BaseException", "object"]


class Run:
    def __init__(self):
        self.calls = []          # (name, details)
        self.outcome = None
        self.result = None
        self.cached = None
        self.fresh = None
        self.array = None


_TORN = {}


def _torn_classes(repo):
    """class (with bases) of what caching.decode raises on a torn index, by evaluating it on a cut document"""
    key = id(repo)
    if key not in _TORN:
        _TORN[key] = None
        try:
            import json
            cach = repo.module(SI + ".caching")
            I = Interp(repo)
            sc = I.module_scope(cach)

            def loads(I_, a, kw):
                try:
                    json.loads(a[0].v)
                except json.JSONDecodeError as e:
                    raise _Raise(f"json.JSONDecodeError: {e}", ["JSONDecodeError", "ValueError", "Exception", "BaseException", "object"])
                return DictS()
            sc.vars["json"] = Obj("json", OrderedDict(loads=Fn("py", impl=loads, name="json.loads"), JSONDecodeError=Fn("lib", name="json.JSONDecodeError")))
            try:
                I.call(I.lookup("decode", sc), [Const('{"__type__": "gro')], OrderedDict(records_per_chunk=Const(7)))
            except _Raise as e:
                if e.classes and "CachingError" in e.classes:
                    _TORN[key] = list(e.classes)
        except (ShapeError, AnalysisError, RecursionError):
            pass
    return _TORN[key]


def run_open_image(repo, use_cache, create_cache, cache, rpc, create_fails=False):
    R = Run()
    I = Interp(repo)
    mod = repo.module(SI)
    sc = I.module_scope(mod)
    R.cached = Obj("Group", OrderedDict(path=Const("HH_scan3"), url=Const("u"), data=DictS({"data": Obj("Variable", OrderedDict(dims=ListLit([]), data=Const("cached"), attrs=DictS()))}), attrs=DictS({"from": Const("cache")})))
    mapper = Obj("Mapper", OrderedDict(root=Const("memory://product"), fs=Obj("InnerFS", OrderedDict())))

    def read_cache(I_, a, kw):
        args = dict(zip(["mapper", "path", "records_per_chunk"], a))
        args.update(kw)
        R.calls.append(("read_cache", {k: (v.v if isinstance(v, Const) else v) for k, v in args.items()}))
        if cache == "hit":
            return R.cached
        classes = CACHING_ERROR
        if cache == "torn":
            # the class the package's own decode raises for a torn index (a subclass of CachingError, possibly)
            classes = _torn_classes(repo) or CACHING_ERROR
        ex = _Raise("raise CachingError('no cache found')" if cache == "miss" else f"raise {classes[0]}('invalid cache') from JSONDecodeError", classes)
        cause = Obj("Exception", OrderedDict(args=TupS([Const("Expecting value")]), classes=Const(("JSONDecodeError", "ValueError", "Exception", "BaseException", "object")))) if cache == "torn" else Const(None)
        ex.value = Obj("Exception", OrderedDict(args=TupS([Const("cache")]), classes=Const(tuple(classes)), __cause__=cause, __context__=cause))
        raise ex

    def create_cache_stub(I_, a, kw):
        args = dict(zip(["mapper", "path", "data"], a))
        args.update(kw)
        g = args.get("data")
        has_data = isinstance(g, Obj) and isinstance(g.fields.get("data"), DictS) and "data" in g.fields["data"].items
        R.calls.append(("create_cache", {"path": args.get("path").v if isinstance(args.get("path"), Const) else args.get("path"), "group": g, "has_pixels": has_data, "mapper": args.get("mapper")}))
        if create_fails:
            raise _Raise("OSError: [Errno 28] No space left on device", ["OSError", "Exception", "BaseException", "object"])
        return Const(None)
    cobj = Obj("caching", OrderedDict(read_cache=Fn("py", impl=read_cache, name="read_cache"), create_cache=Fn("py", impl=create_cache_stub, name="create_cache")))
    # everything else the package's caching module offers is the real thing, on the model of the two cache places (vlib/cachefs.py):
    # neither place holds an index file - except for the state of the torn cache, where the user cache dir has the torn file
    try:
        from .cachefs import World
        cmod = repo.module(SI + ".caching")
        W = World(repo)
        pm = repo.module(SI + ".caching.path")
        I.module_scope(pm).vars["cache_root"] = W.path(("CACHE",))
        W.dirs.add(("CACHE",))
        for nm in list(cmod.funcs) + list(cmod.imports):
            if "." in nm or nm in cobj.fields:
                continue
            try:
                cobj.fields[nm] = I.resolve_global(cmod, nm)
            except ShapeError:
                pass
        # in the states with a cache (hit / torn) the index file lies next to the image: the mapper has the key `<image>.index`, the
        # file system has the file under the product root (a path relative to the root is not a file for the file system)
        has = cache in ("hit", "torn")
        keyname = PATH + ".index"
        full = {"memory://product/" + keyname, "/product/" + keyname, "product/" + keyname}
        isfile = lambda I_, a, kw: Const(bool(has and a and isinstance(a[0], Const) and a[0].v in full))
        mapper.fields["__contains__"] = Fn("py", impl=lambda I_, a, kw: Const(bool(has and a and isinstance(a[0], Const) and a[0].v == keyname)), name="__contains__")
        mapper.fields["fs"].fields["isfile"] = Fn("py", impl=isfile, name="isfile")
        mapper.fields["fs"].fields["exists"] = Fn("py", impl=isfile, name="exists")
    except AnalysisError:
        pass
    sc.vars["caching"] = cobj

    def dirfs(I_, a, kw):
        args = dict(zip(["path", "fs"], a))
        args.update(kw)
        fs = Obj("DirFileSystem", OrderedDict(path=args.get("path"), fs=args.get("fs")))

        def fs_open(I2, a2, k2):
            args2 = dict(zip(["path", "mode"], a2))
            args2.update(k2)
            R.calls.append(("fs.open", {k: (v.v if isinstance(v, Const) else v) for k, v in args2.items()}))
            f = Obj("File", OrderedDict(name=args2.get("path")))
            f.fields["__enter__"] = Fn("py", impl=lambda I3, a3, k3: f, name="__enter__")
            f.fields["__exit__"] = Fn("py", impl=lambda I3, a3, k3: Const(None), name="__exit__")
            return f
        fs.fields["open"] = Fn("py", impl=fs_open, name="open")
        fs.fields["size"] = Fn("py", impl=lambda I2, a2, k2: (R.calls.append(("fs.size", {})) or Const(720 + 6 * 100)), name="size")
        R.calls.append(("DirFileSystem", {"path": args.get("path"), "fs": args.get("fs")}))
        return fs
    sc.vars["DirFileSystem"] = Fn("py", impl=dirfs, name="DirFileSystem")

    def read_metadata(I_, a, kw):
        args = dict(zip(["f", "records_per_chunk"], a))
        args.update(kw)
        r = args.get("records_per_chunk", "<default>")
        R.calls.append(("read_metadata", {"records_per_chunk": r.v if isinstance(r, Const) else r, "file": args.get("f")}))
        return TupS([Obj("Header", OrderedDict()), ListLit([Const(f"record{i}") for i in range(4)])])
    sc.vars["read_metadata"] = Fn("py", impl=read_metadata, name="read_metadata")
    byte_ranges = ListLit([TupS([Const(920 + 100 * i), Const(1000 + 100 * i)]) for i in range(4)])

    def transform_metadata(I_, a, kw):
        R.calls.append(("transform_metadata", {}))
        R.fresh = Obj("Group", OrderedDict(path=Const("/"), url=Const(None), data=DictS({"time": Obj("Variable", OrderedDict(dims=ListLit([Const("rows")]), data=ListLit([]), attrs=DictS()))}),
                                           attrs=DictS(OrderedDict([("coordinates", ListLit([Const("time")])), ("scan_id", Const(0)), ("sar_channel_id", Const(1)), ("sensor_id", Const("ALOS2"))]))))
        R.fresh_attrs = OrderedDict(R.fresh.fields["attrs"].items)
        return TupS([R.fresh, DictS(OrderedDict(type_code=Const("IU2"), shape=TupS([Const(6), Const(5)]), dtype=Const("uint16"), byte_ranges=byte_ranges))])
    sc.vars["transform_metadata"] = Fn("py", impl=transform_metadata, name="transform_metadata")

    def array(I_, a, kw):
        if a:
            raise ShapeError("Array(...) called with positional arguments in open_image")
        R.array = dict(kw)
        R.calls.append(("Array", {}))
        return Obj("Array", OrderedDict(kw))
    sc.vars["Array"] = Fn("py", impl=array, name="Array")
    try:
        out = I.call(I.lookup("open_image", sc), [mapper, Const(PATH)], OrderedDict(use_cache=Const(use_cache), create_cache=Const(create_cache), records_per_chunk=Const(rpc)))
        R.outcome, R.result = "returned", out
    except _Raise as e:
        R.outcome = f"raised: {e.what}"
        R.raised = e
    except NonTermination as e:
        R.outcome = f"nonterminating: {e}"
    except (ShapeError, RecursionError) as e:
        R.outcome = f"undecided: {e}"
    R.mapper, R.byte_ranges = mapper, byte_ranges
    return R


def judge(R, use_cache, create_cache, cache, rpc, create_fails=False):
    """-> [(key, ok, good, bad)]"""
    out = []
    names = [c[0] for c in R.calls]
    n = lambda k: names.count(k)
    sit = f"use_cache={use_cache}, create_cache={create_cache}, cache {cache}" + (", the cache cannot be written" if create_fails else "")
    hit = use_cache and cache == "hit"
    # the cache is consulted exactly when use_cache is set
    out.append(("lookup", n("read_cache") == (1 if use_cache else 0), "the cache is consulted exactly when use_cache is set",
                f"{sit}: read_cache is called {n('read_cache')} time(s)" + (" - a usable cache is bypassed and the image is parsed again" if use_cache else " - the cache is consulted although the caller switched it off")))
    if use_cache and n("read_cache"):
        rc = [c[1] for c in R.calls if c[0] == "read_cache"][0]
        out.append(("lookup-args", rc.get("path") == PATH and rc.get("records_per_chunk") == rpc and rc.get("mapper") is R.mapper, "the lookup is given this mapper, this path and the caller's records_per_chunk",
                    f"{sit}: read_cache is given path={rc.get('path')!r}, records_per_chunk={rc.get('records_per_chunk')!r}"))
    if hit:
        out.append(("hit", R.outcome == "returned" and R.result is R.cached and n("read_metadata") == 0 and n("fs.open") == 0, "a usable cache is returned as it is, without opening or parsing the image",
                    f"{sit}: {R.outcome}; the image file is opened {n('fs.open')} time(s) and its line records are read {n('read_metadata')} time(s)"
                    + ("" if R.result is R.cached else "; what is returned is not the decoded cache")))
        return out
    expect_raise = create_fails and create_cache
    if not expect_raise and R.outcome != "returned":
        out.append(("parse", False, "", f"{sit}: open_image does not return ({R.outcome[:100]})"))
        return out
    out.append(("parse", n("fs.open") == 1 and n("read_metadata") == 1 and n("transform_metadata") == 1, "the image is opened once and its line records are read once",
                f"{sit}: the image file is opened {n('fs.open')} time(s), the metadata pass runs {n('read_metadata')} time(s)"))
    rm = [c[1] for c in R.calls if c[0] == "read_metadata"]
    if rm:
        out.append(("rpc", rm[0]["records_per_chunk"] == rpc, "the metadata pass gets the caller's records_per_chunk", f"{sit}: read_metadata is given records_per_chunk={rm[0]['records_per_chunk']!r}, the caller asked for {rpc!r}"))
    op = [c[1] for c in R.calls if c[0] == "fs.open"]
    if op:
        out.append(("open-args", op[0].get("path") == PATH and str(op[0].get("mode", "rb")).startswith("rb"), "the image file itself is opened read-only", f"{sit}: fs.open({op[0].get('path')!r}, mode={op[0].get('mode')!r})"))
    a = R.array
    if a is not None:
        fs = a.get("fs")
        fs_ok = isinstance(fs, Obj) and fs.cls == "DirFileSystem" and fs.fields.get("path") is R.mapper.fields["root"] and fs.fields.get("fs") is R.mapper.fields["fs"]
        shape = a.get("shape")
        shape_v = tuple(x.v for x in shape.elts) if isinstance(shape, TupS) and all(isinstance(x, Const) for x in shape.elts) else repr(shape)
        out.append(("array", fs_ok and isinstance(a.get("url"), Const) and a["url"].v == PATH and a.get("byte_ranges") is R.byte_ranges and isinstance(a.get("records_per_chunk"), Const) and a["records_per_chunk"].v == rpc
                    and isinstance(a.get("type_code"), Const) and a["type_code"].v == "IU2",
                    "the pixel array is wired to this file on the live filesystem, with the parsed byte ranges and the caller's records_per_chunk",
                    f"{sit}: Array(fs={'DirFileSystem(mapper.root, mapper.fs)' if fs_ok else repr(fs)[:60]}, url={a.get('url')!r}, records_per_chunk={a.get('records_per_chunk')!r}, ...): not this image on the live mapper / not the caller's option"))
        out.append(("shape", shape_v == (6, 5), "the declared shape is the header's (6 x 5), whatever number of line records was parsed (4)",
                    f"{sit}: the array is declared with shape {shape_v} although the header says (6, 5): with 4 parsed records the `rows` dimension no longer contradicts the declared shape, a truncated image is accepted"))
    elif R.outcome == "returned":
        out.append(("array", False, "", f"{sit}: no Array is created on the parse path"))
    if R.outcome == "returned":
        g = R.result
        ok_g = g is R.fresh and isinstance(g, Obj) and "data" in g.fields["data"].items
        dv = g.fields["data"].items.get("data") if isinstance(g, Obj) and isinstance(g.fields.get("data"), DictS) else None
        dims = [x.v for x in dv.fields["dims"].elts] if isinstance(dv, Obj) and isinstance(dv.fields.get("dims"), ListLit) else None
        path = g.fields.get("path").v if isinstance(g, Obj) and isinstance(g.fields.get("path"), Const) else None
        out.append(("group", ok_g and dims == ["rows", "columns"] and path == "HH_scan3", "the group of the parsed records is returned with the pixel variable (rows, columns) under the name derived from the file name",
                    f"{sit}: returned group has data dims {dims}, path {path!r}" + ("" if g is R.fresh else "; it is not the group built from the parsed records")))
        # what the line records say about the file (scan id, channel, sensor: the group attributes transform_metadata built) is still what the
        # returned group says - further attributes may be added, none of these may be replaced or dropped
        ga = g.fields.get("attrs") if isinstance(g, Obj) else None
        changed = [k for k, v in getattr(R, "fresh_attrs", {}).items() if not (isinstance(ga, DictS) and ga.items.get(k) is v)]
        shown = {k: (repr(ga.items.get(k))[:30] if isinstance(ga, DictS) and k in ga.items else "<missing>") for k in changed[:3]}
        out.append(("attrs", not changed, "the attributes built from the line records are still those of the returned group",
                    f"{sit}: the returned group's attributes {changed[:3]} are no longer what the line records gave ({shown}): a value derived from something else than the records replaces or drops them"))
    cc = [c[1] for c in R.calls if c[0] == "create_cache"]
    want = 1 if create_cache else 0
    out.append(("write", len(cc) == want, "the cache is written exactly when create_cache is set",
                f"{sit}: create_cache is called {len(cc)} time(s)" + (" - opening writes although the caller did not ask for a cache (a default open must not touch the cache directory)" if not create_cache else " - no cache is written")))
    if cc and create_cache:
        c0 = cc[0]
        out.append(("write-args", c0["path"] == PATH and c0["mapper"] is R.mapper and c0["group"] is R.fresh and c0["has_pixels"], "the group that is returned is what is written, complete with its pixel variable",
                    f"{sit}: create_cache is given path={c0['path']!r}, the returned group: {c0['group'] is R.fresh}, pixel variable present: {c0['has_pixels']}"))
    if expect_raise:
        out.append(("write-fault", n("read_metadata") == 1 and n("fs.open") == 1, "a failing cache write does not make the image be opened / parsed again",
                    f"{sit}: the image file is opened {n('fs.open')} time(s) and the metadata pass runs {n('read_metadata')} time(s)"))
    return out
