"""E0 -- loader / resolver / reporting for the static checks.

Pure stdlib.  Nothing from /repo is ever imported or executed: the package is
read with ``ast.parse`` only.
"""

from __future__ import annotations

import ast
import json
import os
import sys
import time

PKG = "ceos_alos2"
VERIF = os.path.dirname(os.path.dirname(os.path.abspath(__file__)))


class AnalysisError(Exception):
    """The checker cannot decide (anchor vanished, construct outside the
    modelled fragment).  Exit code 2 -- never a VIOLATION, never a pass."""


# ---------------------------------------------------------------------------
# AST helpers


def set_parents(tree):
    for node in ast.walk(tree):
        for child in ast.iter_child_nodes(node):
            child._parent = node
    tree._parent = None


def parents(node):
    node = getattr(node, "_parent", None)
    while node is not None:
        yield node
        node = getattr(node, "_parent", None)


def norm(node):
    """normalised text of a node (formatting independent)"""
    try:
        return ast.unparse(node)
    except Exception:  # pragma: no cover
        return ast.dump(node)


def short(node, n=110):
    s = " ".join(norm(node).split())
    return s if len(s) <= n else s[: n - 3] + "..."


def walk_no_nested(node, include_lambdas=True):
    """walk a function body without descending into nested defs/classes
    (lambdas and comprehensions are walked: they run in the same activation
    for the purposes of our rules, unless include_lambdas is False)"""
    stack = list(ast.iter_child_nodes(node))
    while stack:
        n = stack.pop()
        yield n
        if isinstance(n, (ast.FunctionDef, ast.AsyncFunctionDef, ast.ClassDef)):
            continue
        if isinstance(n, ast.Lambda) and not include_lambdas:
            continue
        stack.extend(ast.iter_child_nodes(n))


def const_str(node):
    if isinstance(node, ast.Constant) and isinstance(node.value, str):
        return node.value
    return None


def literal(node):
    """python value of a literal expression, or raise ValueError"""
    return ast.literal_eval(node)


def dotted(node):
    """a.b.c -> ['a','b','c'] for Name/Attribute chains, else None"""
    parts = []
    while isinstance(node, ast.Attribute):
        parts.append(node.attr)
        node = node.value
    if isinstance(node, ast.Name):
        parts.append(node.id)
        return list(reversed(parts))
    return None


# ---------------------------------------------------------------------------
# Program model


class FuncInfo:
    """a function, method, nested function or lambda"""

    def __init__(self, module, node, qualname, parent, cls=None):
        self.module = module
        self.node = node
        self.qualname = qualname
        self.parent = parent  # enclosing FuncInfo or None
        self.cls = cls  # enclosing ClassDef (for methods) or None
        self.children = {}  # nested defs: name -> FuncInfo
        self.lambdas = []  # FuncInfo of lambdas directly inside
        self._locals = None

    @property
    def key(self):
        return f"{self.module.name}:{self.qualname}"

    @property
    def is_lambda(self):
        return isinstance(self.node, ast.Lambda)

    @property
    def params(self):
        a = self.node.args
        names = [x.arg for x in a.posonlyargs + a.args]
        if a.vararg:
            names.append(a.vararg.arg)
        names += [x.arg for x in a.kwonlyargs]
        if a.kwarg:
            names.append(a.kwarg.arg)
        return names

    @property
    def positional_params(self):
        a = self.node.args
        return [x.arg for x in a.posonlyargs + a.args]

    @property
    def kwonly_params(self):
        return [x.arg for x in self.node.args.kwonlyargs]

    def param_default(self, name):
        a = self.node.args
        pos = a.posonlyargs + a.args
        defaults = [None] * (len(pos) - len(a.defaults)) + list(a.defaults)
        for p, d in zip(pos, defaults):
            if p.arg == name:
                return d
        for p, d in zip(a.kwonlyargs, a.kw_defaults):
            if p.arg == name:
                return d
        return None

    @property
    def body(self):
        if self.is_lambda:
            return [ast.Expr(self.node.body)]
        return self.node.body

    def own_nodes(self, include_lambdas=True):
        """nodes of this function's own activation"""
        if self.is_lambda:
            yield self.node.body
            yield from walk_no_nested(self.node.body, include_lambdas)
        else:
            for st in self.node.body:
                yield st
                if isinstance(st, (ast.FunctionDef, ast.AsyncFunctionDef, ast.ClassDef)):
                    continue
                yield from walk_no_nested(st, include_lambdas)

    def local_bindings(self):
        """name -> list of ('assign', expr) | ('func', FuncInfo) | ('import', ...) |
        ('iter', expr) | ('with', expr) | ('other', node)"""
        if self._locals is not None:
            return self._locals
        out = {}

        def add(name, what):
            out.setdefault(name, []).append(what)

        def bind_target(t, value, kind="assign"):
            if isinstance(t, ast.Name):
                add(t.id, (kind, value))
            elif isinstance(t, (ast.Tuple, ast.List)):
                if kind == "assign" and isinstance(value, (ast.Tuple, ast.List)) and len(
                    value.elts
                ) == len(t.elts) and not any(isinstance(e, ast.Starred) for e in t.elts):
                    for tt, vv in zip(t.elts, value.elts):
                        bind_target(tt, vv, kind)
                else:
                    for i, tt in enumerate(t.elts):
                        if isinstance(tt, ast.Starred):
                            tt = tt.value
                        bind_target(tt, ("unpack", value, i, len(t.elts)), "unpack")

        for n in self.own_nodes():
            if isinstance(n, ast.Assign):
                for t in n.targets:
                    bind_target(t, n.value)
            elif isinstance(n, ast.AnnAssign) and n.value is not None:
                bind_target(n.target, n.value)
            elif isinstance(n, ast.AugAssign):
                bind_target(n.target, n, "aug")
            elif isinstance(n, (ast.For, ast.AsyncFor)):
                bind_target(n.target, n.iter, "iter")
            elif isinstance(n, ast.comprehension):
                bind_target(n.target, n.iter, "iter")
            elif isinstance(n, (ast.With, ast.AsyncWith)):
                for it in n.items:
                    if it.optional_vars is not None:
                        bind_target(it.optional_vars, it.context_expr, "with")
            elif isinstance(n, ast.NamedExpr):
                bind_target(n.target, n.value)
            elif isinstance(n, ast.ExceptHandler) and n.name:
                add(n.name, ("except", n.type))
            elif isinstance(n, ast.Import):
                for a in n.names:
                    add((a.asname or a.name).split(".")[0], ("import", ("module", a.name if a.asname else a.name.split(".")[0])))
            elif isinstance(n, ast.ImportFrom):
                for a in n.names:
                    add(a.asname or a.name, ("import", ("symbol", n.module, a.name)))
        if not self.is_lambda:
            for st in ast.walk(self.node):
                pass
        for name, fi in self.children.items():
            add(name, ("func", fi))
        self._locals = out
        return out


class Module:
    def __init__(self, repo, name, path, tree=None, source=None):
        self.repo = repo
        self.name = name
        self.path = path
        self.relpath = os.path.relpath(path, repo.root)
        self.source = source if source is not None else open(path, encoding="utf-8").read()
        if tree is None:
            try:
                tree = ast.parse(self.source, filename=path)
            except SyntaxError as e:
                raise AnalysisError(f"syntax error in {self.relpath}: {e}")
        self.tree = tree
        set_parents(self.tree)
        self.is_package = os.path.basename(path) == "__init__.py"
        self.imports = {}
        self.assigns = {}
        self.funcs = {}  # qualname -> FuncInfo (all, incl. nested/methods/lambdas)
        self.classes = {}
        self.toplevel = {}  # name -> ('func', FuncInfo) | ('class', ClassDef)
        self._index()

    # -- indexing
    def _index(self):
        for st in self.tree.body:
            self._index_stmt(st)
        self._index_funcs(self.tree, None, None, "")

    def _index_stmt(self, st):
        if isinstance(st, ast.Import):
            for a in st.names:
                if a.asname:
                    self.imports[a.asname] = ("module", a.name)
                else:
                    self.imports[a.name.split(".")[0]] = ("module", a.name.split(".")[0])
        elif isinstance(st, ast.ImportFrom):
            mod = st.module or ""
            if st.level:
                base = self.name.split(".")
                if not self.is_package:
                    base = base[:-1]
                base = base[: len(base) - (st.level - 1)]
                mod = ".".join(base + ([mod] if mod else []))
            for a in st.names:
                self.imports[a.asname or a.name] = ("symbol", mod, a.name)
        elif isinstance(st, ast.Assign):
            for t in st.targets:
                if isinstance(t, ast.Name):
                    self.assigns.setdefault(t.id, []).append(st.value)
        elif isinstance(st, ast.AnnAssign) and st.value is not None:
            if isinstance(st.target, ast.Name):
                self.assigns.setdefault(st.target.id, []).append(st.value)
        elif isinstance(st, ast.Try):
            for s in st.body + st.orelse + st.finalbody:
                self._index_stmt(s)
            for h in st.handlers:
                for s in h.body:
                    self._index_stmt(s)
        elif isinstance(st, ast.If):
            for s in st.body + st.orelse:
                self._index_stmt(s)

    def _index_funcs(self, node, parent, cls, prefix):
        """register every def/lambda below node"""
        lam_count = [0]

        def visit(n, parent, cls, prefix):
            for child in ast.iter_child_nodes(n):
                if isinstance(child, (ast.FunctionDef, ast.AsyncFunctionDef)):
                    q = prefix + child.name
                    fi = FuncInfo(self, child, q, parent, cls)
                    self.funcs[q] = fi
                    if parent is not None and cls is None:
                        parent.children[child.name] = fi
                    if parent is None and cls is None:
                        self.toplevel[child.name] = ("func", fi)
                    # decorators/defaults belong to the enclosing scope
                    for d in child.decorator_list:
                        visit_expr(d, parent, cls, prefix)
                    visit_body(child, fi, None, q + ".")
                elif isinstance(child, ast.ClassDef):
                    q = prefix + child.name
                    self.classes[q] = child
                    if parent is None and cls is None:
                        self.toplevel[child.name] = ("class", child)
                    visit(child, parent, child, q + ".")
                elif isinstance(child, ast.Lambda):
                    register_lambda(child, parent, cls, prefix)
                else:
                    visit(child, parent, cls, prefix)

        def register_lambda(lam, parent, cls, prefix):
            lam_count[0] += 1
            owner_prefix = prefix
            # ordinal among lambdas of the same owner (stable under line moves)
            if parent is not None:
                idx = len(parent.lambdas) + 1
            else:
                idx = sum(1 for k in self.funcs if k.startswith(prefix + "<lambda")) + 1
            q = f"{owner_prefix}<lambda{idx}>"
            fi = FuncInfo(self, lam, q, parent, None)
            self.funcs[q] = fi
            if parent is not None:
                parent.lambdas.append(fi)
            visit(lam, fi, None, q + ".")

        def visit_expr(e, parent, cls, prefix):
            if isinstance(e, ast.Lambda):
                register_lambda(e, parent, cls, prefix)
            else:
                visit(e, parent, cls, prefix)

        def visit_body(fn, fi, cls, prefix):
            visit(fn, fi, cls, prefix)

        visit(node, parent, cls, prefix)

    # -- lookups
    def func(self, qualname):
        fi = self.funcs.get(qualname)
        if fi is None:
            fi = self._inherited(qualname)
        if fi is None and "." not in qualname:
            # imported here from the module of the package it moved to
            r = self.repo.resolve_module_name(self, qualname)
            if r.kind == "func":
                fi = r.func
        if fi is None:
            fi = self._relocated(qualname)
        if fi is None:
            raise AnalysisError(f"anchor vanished: function {self.name}:{qualname}")
        return fi

    def _inherited(self, qualname, _seen=None):
        """``Cls.method`` that the class no longer defines itself but inherits from a base class of the package"""
        if qualname.count(".") != 1:
            return None
        cname, meth = qualname.split(".")
        cls = next((n for n in self.tree.body if isinstance(n, ast.ClassDef) and n.name == cname), None)
        if cls is None:
            return None
        _seen = _seen or set()
        if (self.name, cname) in _seen:
            return None
        _seen.add((self.name, cname))
        for b in cls.bases:
            r = self.repo.resolve_expr(self, b)
            if r.kind != "class":
                continue
            q = f"{r.node.name}.{meth}"
            fi = r.mod.funcs.get(q) or r.mod._inherited(q, _seen)
            if fi is not None:
                return fi

    def func_any(self, *qualnames):
        """the first of several alternative anchors that exists (e.g. __post_init__ of a dataclass / __init__ of a plain class)"""
        for q in qualnames:
            if q in self.funcs:
                return self.funcs[q]
        return self.func(qualnames[0])

    def _relocated(self, qualname):
        """a reference function that changed nesting level (closure hoisted to module level or the reverse) or moved to
        another module under the same name; only functions the reference does not know at their new place qualify"""
        ref = self.repo.reference or {}
        base = qualname.rsplit(".", 1)[-1]
        if qualname not in ref.get(self.name, {qualname: None}):
            return None
        cands = [fi for q, fi in self.funcs.items() if q.rsplit(".", 1)[-1] == base and q not in ref.get(self.name, {}) and not fi.is_lambda]
        if len(cands) == 1:
            return cands[0]
        if cands:
            return None
        for m in self.repo.modules.values():
            if m is self:
                continue
            for q, fi in m.funcs.items():
                if q.rsplit(".", 1)[-1] == base and q not in ref.get(m.name, {}) and not fi.is_lambda:
                    cands.append(fi)
        return cands[0] if len(cands) == 1 else None

    def value(self, name):
        v = self.assigns.get(name)
        if not v:
            raise AnalysisError(f"anchor vanished: module-level binding {self.name}:{name}")
        return v[-1]


class Ref:
    """what a name or expression denotes"""

    def __init__(self, kind, **kw):
        self.kind = kind
        self.__dict__.update(kw)

    def __repr__(self):
        d = {k: v for k, v in self.__dict__.items() if k != "kind"}
        return f"Ref({self.kind}, {d})"


UNKNOWN = Ref("unknown")


class Repo:
    def __init__(self, root):
        self.root = os.path.abspath(root)
        self.modules = {}
        self.prenorm_notes = []
        pkgdir = os.path.join(self.root, PKG)
        if not os.path.isdir(pkgdir):
            raise AnalysisError(f"package directory {pkgdir} not found")
        files = {}
        for dp, dn, fn in os.walk(pkgdir):
            dn[:] = sorted(d for d in dn if d not in ("tests", "__pycache__"))
            for f in sorted(fn):
                if not f.endswith(".py"):
                    continue
                p = os.path.join(dp, f)
                rel = os.path.relpath(p, self.root)[:-3].replace(os.sep, ".")
                if rel.endswith(".__init__"):
                    rel = rel[: -len(".__init__")]
                files[rel] = p
        from . import prenorm
        self.reference = prenorm.load_reference()
        trees, sources = {}, {}
        for rel, p in files.items():
            sources[rel] = open(p, encoding="utf-8").read()
            try:
                trees[rel] = ast.parse(sources[rel], filename=p)
            except SyntaxError as e:
                raise AnalysisError(f"syntax error in {os.path.relpath(p, self.root)}: {e}")
        if not prenormalise_disabled():
            changed, self.prenorm_notes = prenorm.prenormalise(trees)
            for rel in changed:
                # fresh, consistent positions for the rewritten module
                ast.fix_missing_locations(trees[rel])
                sources[rel] = ast.unparse(trees[rel])
                trees[rel] = ast.parse(sources[rel], filename=files[rel])
        for rel, p in files.items():
            self.modules[rel] = Module(self, rel, p, tree=trees[rel], source=sources[rel])

    # -- anchors
    def module(self, name):
        m = self.modules.get(name)
        if m is None:
            raise AnalysisError(f"anchor vanished: module {name}")
        return m

    def func(self, key):
        mod, q = key.split(":")
        return self.module(mod).func(q)

    def all_funcs(self):
        for m in self.modules.values():
            yield from m.funcs.values()

    # -- name resolution
    def resolve_symbol(self, modname, name, _seen=None):
        """what ``from modname import name`` gives"""
        _seen = _seen or set()
        if (modname, name) in _seen:
            return UNKNOWN
        _seen.add((modname, name))
        mod = self.modules.get(modname)
        if mod is None:
            if modname == PKG or modname.startswith(PKG + "."):
                return UNKNOWN
            return Ref("external", fq=f"{modname}.{name}")
        r = self.resolve_module_name(mod, name, _seen)
        if r.kind != "unknown":
            return r
        sub = self.modules.get(f"{modname}.{name}")
        if sub is not None:
            return Ref("module", mod=sub)
        return UNKNOWN

    def resolve_module_name(self, mod, name, _seen=None):
        if name in mod.toplevel:
            kind, obj = mod.toplevel[name]
            if kind == "func":
                return Ref("func", func=obj)
            return Ref("class", mod=mod, node=obj)
        if name in mod.assigns:
            return Ref("value", mod=mod, func=None, exprs=mod.assigns[name], name=name)
        if name in mod.imports:
            imp = mod.imports[name]
            if imp[0] == "module":
                m = self.modules.get(imp[1])
                if m is not None:
                    return Ref("module", mod=m)
                return Ref("external", fq=imp[1])
            return self.resolve_symbol(imp[1], imp[2], _seen)
        return UNKNOWN

    def resolve_name(self, scope, name):
        """scope: FuncInfo or Module"""
        fi = scope if isinstance(scope, FuncInfo) else None
        while fi is not None:
            if name in fi.params:
                return Ref("param", func=fi, name=name)
            lb = fi.local_bindings()
            if name in lb:
                entries = lb[name]
                kinds = {e[0] for e in entries}
                if kinds == {"func"}:
                    return Ref("func", func=entries[-1][1])
                if kinds == {"import"}:
                    imp = entries[-1][1]
                    if imp[0] == "module":
                        m = self.modules.get(imp[1])
                        return Ref("module", mod=m) if m else Ref("external", fq=imp[1])
                    return self.resolve_symbol(imp[1], imp[2])
                return Ref("local", func=fi, name=name, entries=entries)
            fi = fi.parent
        mod = scope.module if isinstance(scope, FuncInfo) else scope
        r = self.resolve_module_name(mod, name)
        if r.kind == "unknown" and name in BUILTINS:
            return Ref("external", fq=f"builtins.{name}")
        return r

    def resolve_expr(self, scope, expr):
        if isinstance(expr, ast.Name):
            return self.resolve_name(scope, expr.id)
        if isinstance(expr, ast.Attribute):
            base = self.resolve_expr(scope, expr.value)
            if base.kind == "module":
                r = self.resolve_module_name(base.mod, expr.attr)
                if r.kind == "unknown":
                    sub = self.modules.get(f"{base.mod.name}.{expr.attr}")
                    if sub is not None:
                        return Ref("module", mod=sub)
                return r
            if base.kind == "external":
                return Ref("external", fq=f"{base.fq}.{expr.attr}")
            if base.kind == "class":
                for st in base.node.body:
                    if isinstance(st, (ast.FunctionDef,)) and st.name == expr.attr:
                        q = self._class_qual(base.mod, base.node) + "." + expr.attr
                        return Ref("func", func=base.mod.funcs[q])
                return UNKNOWN
            if base.kind == "param" and base.name == "self" and base.func.cls is not None:
                cls = base.func.cls
                mod = base.func.module
                q = self._class_qual(mod, cls) + "." + expr.attr
                if q in mod.funcs:
                    return Ref("func", func=mod.funcs[q], bound=True)
                if q.count(".") == 1 and mod._inherited(q) is not None:
                    return Ref("func", func=mod._inherited(q), bound=True)
                return Ref("selfattr", cls=cls, mod=mod, attr=expr.attr)
            ic = self.instance_class(scope, expr.value)
            if ic is not None:
                mod, cls = ic
                q = self._class_qual(mod, cls) + "." + expr.attr
                fi = mod.funcs.get(q) or (mod._inherited(q) if q.count(".") == 1 else None)
                if fi is not None:
                    return Ref("func", func=fi, bound=True)
                return Ref("selfattr", cls=cls, mod=mod, attr=expr.attr)
            return UNKNOWN
        return UNKNOWN

    def instance_class(self, scope, expr, _depth=0):
        """(module, class node) when the expression provably is an instance of a class of the package: a constructor call,
        a call of a function / classmethod of the package all of whose returns are such instances, or a name bound once to
        one of those.  None otherwise (nothing is guessed)"""
        if _depth > 4:
            return None
        if isinstance(expr, ast.Name):
            r = self.resolve_name(scope, expr.id)
            if r.kind == "local":
                if len(r.entries) == 1 and r.entries[0][0] == "assign" and isinstance(r.entries[0][1], ast.AST):
                    return self.instance_class(r.func, r.entries[0][1], _depth + 1)
                return None
            if r.kind == "value" and len(r.exprs) == 1:
                return self.instance_class(r.mod, r.exprs[0], _depth + 1)
            return None
        if isinstance(expr, ast.Call) and isinstance(expr.func, (ast.Name, ast.Attribute)):
            r = self.resolve_expr(scope, expr.func)
            if r.kind == "class":
                return (r.mod, r.node)
            if r.kind == "func" and isinstance(r.func.node, ast.FunctionDef):
                fn = r.func
                rets = [n for n in fn.own_nodes() if isinstance(n, ast.Return)]
                if not rets or any(isinstance(n, (ast.Yield, ast.YieldFrom)) for n in fn.own_nodes()):
                    return None
                is_cm = any(isinstance(d, ast.Name) and d.id == "classmethod" for d in fn.node.decorator_list)
                found = set()
                for rt in rets:
                    v = rt.value
                    if is_cm and fn.cls is not None and isinstance(v, ast.Call) and isinstance(v.func, ast.Name) and fn.params and v.func.id == fn.params[0]:
                        found.add((fn.module.name, id(fn.cls)))
                        one = (fn.module, fn.cls)
                        continue
                    ic = self.instance_class(fn, v, _depth + 1) if v is not None else None
                    if ic is None:
                        return None
                    found.add((ic[0].name, id(ic[1])))
                    one = ic
                return one if len(found) == 1 else None
        return None

    def _class_qual(self, mod, node):
        for q, c in mod.classes.items():
            if c is node:
                return q
        raise AnalysisError("class not indexed")

    def single_value(self, ref):
        """the unique defining expression of a value/local ref, or None"""
        if ref.kind == "value" and len(ref.exprs) == 1:
            return ref.exprs[0], ref.mod
        if ref.kind == "local":
            assigns = [e for e in ref.entries if e[0] == "assign"]
            if len(assigns) == 1 and len(ref.entries) == 1:
                return assigns[0][1], ref.func
        return None


def prenormalise_disabled():
    return bool(os.environ.get("VERIF_NO_PRENORM"))


BUILTINS = set(dir(__builtins__)) if not isinstance(__builtins__, dict) else set(__builtins__)


def scope_of(repo, node):
    """innermost FuncInfo containing node (or its Module)"""
    mod = None
    for p in [node] + list(parents(node)):
        if isinstance(p, ast.Module):
            mod = p
    for m in repo.modules.values():
        if m.tree is mod:
            module = m
            break
    else:
        raise AnalysisError("node outside the repo")
    for p in parents(node):
        if isinstance(p, (ast.FunctionDef, ast.AsyncFunctionDef, ast.Lambda)):
            for fi in module.funcs.values():
                if fi.node is p:
                    return fi
    return module


# ---------------------------------------------------------------------------
# Reporting


class Check:
    """collects obligations, violations and evidence for one property run"""

    LEVEL = "other"

    def __init__(self, pid, tier, repo_root, level="other", seed=0):
        self.pid = pid
        self.tier = tier
        self.decided_groups = set()
        self.covered_groups = set()
        self.level = level
        self.seed = seed
        self.repo_root = repo_root
        self.t0 = time.time()
        self.obligations = []  # dicts
        self.violations = []  # dicts
        self.known_hits = []
        self.notes = []
        self.analysed = {}
        self.assumptions = []
        self.trusted = []
        self.samples = []
        self.rules = {}  # rule -> {"text":..., "instances": n, "min": m}
        self.explanation = ""
        self.extra = {}
        self.analysis_errors = []
        self._known = load_known_findings()

    # rule bookkeeping
    def rule(self, rid, text, minimum=0):
        self.rules.setdefault(rid, {"text": text, "instances": 0, "min": minimum, "failed": 0})

    def ok(self, rid, where, what, sample=None):
        """a discharged obligation (rule instance that holds)"""
        if rid not in self.rules:
            self.rule(rid, "")
        self.rules[rid]["instances"] += 1
        ob = {"rule": rid, "where": where, "what": what, "holds": True}
        self.obligations.append(ob)
        if sample is not None and len(self.samples) < 40:
            self.samples.append({"rule": rid, "where": where, "obligation": sample})
        return True

    def fail(self, rid, where, what, key=None):
        """a rule instance that does not hold: violation unless listed as known"""
        if rid not in self.rules:
            self.rule(rid, "")
        self.rules[rid]["instances"] += 1
        self.rules[rid]["failed"] += 1
        key = key or f"{where}"
        ob = {"rule": rid, "where": where, "what": what, "holds": False, "key": key}
        self.obligations.append(ob)
        for kf in self._known:
            if (
                kf.get("status") == "known"
                and kf["property"] == self.pid
                and kf["rule"] == rid
                and kf["key"] == key
            ):
                self.known_hits.append({"rule": rid, "key": key, "where": where, "what": what, "id": kf.get("id")})
                return False
        self.violations.append(ob)
        return False

    def require(self, cond, rid, where, what_ok, what_bad=None, key=None, sample=None):
        if cond:
            return self.ok(rid, where, what_ok, sample)
        return self.fail(rid, where, what_bad or ("NOT: " + what_ok), key)

    def note(self, text):
        self.notes.append(text)

    def attempt(self, fn, *args, **kw):
        """run one independent rule group; an AnalysisError there does not stop the other groups.
        At the end: violations found elsewhere are still reported (exit 1); if there are none,
        the analysis error makes the run exit 2."""
        covered_by = kw.pop("covered_by", None)
        own_rules = tuple(kw.pop("rules", ()))
        before = {rid: r["instances"] for rid, r in self.rules.items()}
        try:
            r = fn(*args, **kw)
            for rid in own_rules:
                rr = self.rules.get(rid)
                if rr is not None and rr["instances"] < rr["min"] and not rr["failed"]:
                    raise AnalysisError(f"rule {rid} matched {rr['instances']} instance(s), fewer than the {rr['min']} confirmed by hand on the pinned tree: the rule lost its anchors")
            self.decided_groups.add(getattr(fn, "__name__", "rule"))
            return r
        except AnalysisError as e:
            if covered_by and covered_by in self.decided_groups:
                # the same obligation was decided by another rule group (model evaluation of the function as it is written
                # now): the form-specific rule not recognising the new form is not an analysis failure
                self.note(f"{getattr(fn, '__name__', 'rule')} does not recognise the current form ({str(e)[:160]}); the obligation is decided by {covered_by}")
                self.covered_groups.add(getattr(fn, "__name__", "rule"))
                # the rules this group contributes to: named by the caller, registered by the group, or counted up by it before it stopped
                touched = {rid for rid, r in self.rules.items() if rid not in before or r["instances"] != before[rid]}
                for rid in set(own_rules) | touched:
                    if rid in self.rules:
                        self.rules[rid]["min"] = 0  # decided by the covering group on this tree
                return None
            self.analysis_errors.append(f"{getattr(fn, '__name__', 'rule')}: {e}")
            return None

    def count(self, what, n):
        self.analysed[what] = self.analysed.get(what, 0) + n

    # finishing
    def finish(self):
        # vacuity guard (only meaningful when every rule group could run)
        for rid, r in self.rules.items():
            if r["instances"] < r["min"] and not self.analysis_errors and not self.violations:
                raise AnalysisError(
                    f"rule {rid} matched {r['instances']} instance(s), fewer than the "
                    f"{r['min']} confirmed by hand on the pinned tree: the rule lost its anchors"
                )
        wall = time.time() - self.t0
        n_ob = len(self.obligations)
        n_ok = sum(1 for o in self.obligations if o["holds"])
        distinct = len({(o["rule"], o["where"], o["what"]) for o in self.obligations})
        cov = {
            "evaluations": max(n_ob, 1),
            "distinct_nontrivial": distinct,
            "rule": "one evaluation = one rule instance (obligation) found in /repo's "
            "current source and decided; distinct = distinct (rule, site, statement) triples; "
            "an instance is non-trivial because every rule carries a hand-confirmed minimum "
            "number of matches and a run below it is an analysis error",
            "samples": self.samples[:25] or [{"note": "no sample"}],
            "obligations": n_ob,
            "discharged": n_ok,
            "known_findings_hit": self.known_hits,
            "checker_cmd": f"./check {self.pid} --tier {self.tier}",
            "trusted_base": self.trusted,
            "explanation": self.explanation,
            "rules": {k: v for k, v in self.rules.items()},
            "analysed": self.analysed,
            "notes": self.notes,
            "undecided": self.analysis_errors,
            "programs": self.analysed.get("programs", max(1, self.analysed.get("functions", 1))),
            "disagreements_checked": n_ob,
            "exhaustive": bool(self.extra.get("exhaustive", False)),
        }
        cov.update({k: v for k, v in self.extra.items() if k not in cov or k == "exhaustive"})
        ev = {
            "property_id": self.pid,
            "tier": self.tier,
            "seed": self.seed,
            "level": self.level,
            "coverage": cov,
            "assumptions": self.assumptions,
            "wall_s": round(wall, 3),
            "violations": len(self.violations),
        }
        evdir = os.environ.get("VERIF_EVIDENCE_DIR") or os.path.join(VERIF, "evidence")
        os.makedirs(evdir, exist_ok=True)
        with open(os.path.join(evdir, f"{self.pid}.json"), "w") as f:
            json.dump(ev, f, indent=1, ensure_ascii=False, default=str)
        for k in self.known_hits:
            print(f"KNOWN-FINDING: property={self.pid} rule={k['rule']} {k['key']} -- {k['what']}")
        vio_path = os.path.join(evdir, f"{self.pid}.violations.json")
        if self.violations:
            with open(vio_path, "w") as f:
                json.dump(self.violations, f, indent=1, ensure_ascii=False, default=str)
            for v in self.violations:
                print(f"  [{v['rule']}] {v['where']}: {v['what']}")
            for a in self.analysis_errors:
                print(f"  (undecided) {a}")
            print(f"VIOLATION property={self.pid} replay={vio_path}")
            return 1
        if self.analysis_errors:
            for a in self.analysis_errors:
                print(f"ANALYSIS-ERROR property={self.pid} {a}")
            return 2
        if os.path.exists(vio_path):
            os.remove(vio_path)
        print(
            f"OK property={self.pid} tier={self.tier} obligations={n_ob} discharged={n_ok} "
            f"known={len(self.known_hits)} rules={len(self.rules)} wall={wall:.2f}s"
        )
        return 0


def load_known_findings():
    p = os.path.join(VERIF, "known_findings.json")
    if not os.path.exists(p):
        return []
    with open(p) as f:
        return json.load(f)["findings"]
