"""decision of small pure helpers on representatives of their input classes.

The helpers of the row bookkeeping (array.py) are parametric in the rows they shuffle: they inspect the indexer only
through isinstance / range(n)[slice] and the byte ranges only through +, -, min, max and comparisons.  When the normal
forms of such a helper and of its specification have different shapes (so that normalisation cannot decide), the
helper's *syntax tree* is evaluated by the shape interpreter of vlib/shapes.py on constants - one representative per
class of indexer / ordering - and the result is compared with the specification (ordinary Python in the checker,
never code of the package).  Nothing of the package is imported or run by CPython; the interpreter folds constants.
A disagreement names the representative; an expression the interpreter cannot fold is reported as undecided.
"""
from __future__ import annotations

from .core import AnalysisError
from .shapes import Choice, Const, DictS, Interp, ListLit, ListOf, SetS, ShapeError, Top, TupS, _Raise


class Undecided(AnalysisError):
    pass


class Raised:
    def __init__(self, what=""):
        self.what = what

    def __eq__(self, other):
        return isinstance(other, Raised)

    def __repr__(self):
        return f"<raises {self.what}>"


def to_shape(v):
    if isinstance(v, list):
        return ListLit([to_shape(x) for x in v])
    if isinstance(v, tuple):
        return TupS([to_shape(x) for x in v])
    if isinstance(v, dict):
        d = DictS()
        for k, x in v.items():
            d.items[k] = to_shape(x)
        return d
    return Const(v)


def from_shape(v):
    if isinstance(v, Const):
        return v.v
    if isinstance(v, ListLit):
        return [from_shape(x) for x in v.elts]
    if isinstance(v, TupS):
        return tuple(from_shape(x) for x in v.elts)
    if isinstance(v, DictS) and not v.optional:
        return {k: from_shape(x) for k, x in v.items.items()}
    raise Undecided(f"result is not constant: {v!r}"[:200])


def evaluate(repo, fi, args, kwargs=None):
    """abstract evaluation of repo function ``fi`` on constant arguments -> python value | Raised"""
    I = Interp(repo)
    f = I.lookup(fi.qualname.split(".")[0], I.module_scope(fi.module)) if "." not in fi.qualname else None
    if f is None:
        raise Undecided(f"{fi.key}: only module-level helpers are evaluated")
    try:
        out = I.call(f, [to_shape(a) for a in args], {k: to_shape(v) for k, v in (kwargs or {}).items()})
        return from_shape(out)
    except _Raise as e:
        return Raised(str(e))
    except ShapeError as e:
        raise Undecided(f"{fi.key}: {e}")


def agree(repo, fi, spec, cases, same=None):
    """-> ('equal', n) | ('different', (case, got, want)) ; raises Undecided"""
    same = same or (lambda a, b: a == b)
    for args in cases:
        try:
            want = spec(*args)
        except Exception as e:  # the specification raises: the helper must raise too
            want = Raised(type(e).__name__)
        got = evaluate(repo, fi, list(args))
        if not same(got, want):
            return "different", (args, got, want)
    return "equal", len(cases)
