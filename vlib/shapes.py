"""E3 -- shape inference for the post-processing pipelines.

Abstract interpretation of the transform functions over a *shape* domain
(structural record types whose leaves carry the struct field they come from):

  Leaf(kind, src, ops)   scalar decoded from struct field ``src`` (+ conversions applied)
  Const(v)               a Python constant
  DictS / ListOf / ListLit / TupS / SetS
  Fn                     closures, partial applications, compositions, known library functions
  Obj                    Group / Variable instances
  Top                    unknown (with a reason)
  Choice                 join of alternatives (data-dependent branch)

The repository's own helpers (dissoc, rename, remove_spares, as_group, ...)
are interpreted from their source, library functions (toolz, builtins) have
typing rules below.  Nothing is executed; values are never computed, only
their shapes and provenance.
"""

from __future__ import annotations

import ast
from collections import OrderedDict

from .core import AnalysisError, FuncInfo, Module, norm, short
from .records import unwrap


class ShapeError(AnalysisError):
    pass


# ---------------------------------------------------------------------------
# domain


class Sh:
    pass


class Leaf(Sh):
    def __init__(self, kind, src, ops=(), also=()):
        self.kind = kind
        self.src = tuple(src) if not isinstance(src, str) else (src,)
        self.ops = tuple(ops)
        self.also = tuple(also)  # further source fields combined into this value

    def derive(self, op, kind=None):
        return Leaf(kind or self.kind, self.src, self.ops + (op,), self.also)

    def combine(self, other, op, kind=None):
        also = tuple(dict.fromkeys(self.also + (other.src,) + other.also))
        also = tuple(a for a in also if a != self.src)
        return Leaf(kind or self.kind, self.src, self.ops + (f"{op}(" + ",".join(other.ops) + ")",), also)

    def __repr__(self):
        o = "".join(f"|>{x}" for x in self.ops)
        a = "".join(f" +{'.'.join(x)}" for x in self.also)
        return f"<{self.kind} {'.'.join(self.src)}{a}{o}>"


class Const(Sh):
    def __init__(self, v):
        self.v = v

    def __repr__(self):
        return f"Const({self.v!r})"


class DictS(Sh):
    def __init__(self, items=None, optional=None):
        self.items = OrderedDict(items or [])
        self.optional = set(optional or ())

    def copy(self):
        return DictS(self.items, self.optional)

    def __repr__(self):
        return "{" + ", ".join(f"{k!r}{'?' if k in self.optional else ''}: {v!r}" for k, v in self.items.items()) + "}"


class ListOf(Sh):
    """homogeneous list of symbolic length"""

    def __init__(self, elem, n, maybe_empty=False):
        self.elem = elem
        self.n = n
        self.maybe_empty = maybe_empty

    def __repr__(self):
        return f"[{self.elem!r} x {self.n}]"


class ListLit(Sh):
    def __init__(self, elts):
        self.elts = list(elts)

    def __repr__(self):
        return "[" + ", ".join(map(repr, self.elts)) + "]"


class TupS(Sh):
    def __init__(self, elts):
        self.elts = list(elts)

    def __repr__(self):
        return "(" + ", ".join(map(repr, self.elts)) + ")"


class SetS(Sh):
    def __init__(self, elts):
        self.elts = list(elts)


class Top(Sh):
    def __init__(self, reason, deps=()):
        self.reason = reason
        self.deps = tuple(deps)

    def __repr__(self):
        return f"Top({self.reason})"


def _join_label(a, b):
    if a and b:
        return f"{a} & {b}"
    return a or b


class Choice(Sh):
    """join of alternatives; ``labels[i]`` says (when known) which input condition selects alts[i]"""

    def __init__(self, alts, labels=None):
        flat, labs = [], []
        for i, a in enumerate(alts):
            lab = labels[i] if labels else None
            if isinstance(a, Choice):
                for j, b in enumerate(a.alts):
                    flat.append(b)
                    labs.append(_join_label(lab, a.labels[j]))
            else:
                flat.append(a)
                labs.append(lab)
        self.alts = flat
        self.labels = labs

    def __repr__(self):
        return "Choice(" + " | ".join((f"{l}: " if l else "") + repr(a) for a, l in zip(self.alts, self.labels)) + ")"


class Obj(Sh):
    def __init__(self, cls, fields, klass=None):
        self.cls = cls
        self.fields = dict(fields)
        self.klass = klass  # (module, ast.ClassDef) for instances of classes of the package

    def __repr__(self):
        return f"{self.cls}({self.fields})"


class Fn(Sh):
    def __init__(self, kind, **kw):
        self.kind = kind  # repo | lambda | partial | compose | lib | method | classctor
        self.__dict__.update(kw)

    def __repr__(self):
        return f"Fn({self.kind}:{getattr(self, 'name', '')})"


class Sentinel(Sh):
    def __init__(self, name):
        self.name = name


class ModuleRef(Sh):
    def __init__(self, mod=None, ext=None):
        self.mod = mod
        self.ext = ext


class _Return(Exception):
    def __init__(self, v):
        self.v = v


class _Continue(Exception):
    pass


class _Break(Exception):
    pass


class NonTermination(ShapeError):
    """a loop that does not end on a model input within the interpreter's bound"""


class _Raise(Exception):
    def __init__(self, what, classes=None):
        self.what = what
        self.classes = tuple(classes) if classes else None  # names of the raised class and its bases, when known

    @staticmethod
    def of(exc, where=""):
        """a Python exception raised while folding a pure library function on constants"""
        return _Raise(f"{type(exc).__name__} in {where}: {str(exc)[:60]}", [c.__name__ for c in type(exc).__mro__])

    def __str__(self):
        return self.what


# ---------------------------------------------------------------------------
# shapes of parsed structs


ADAPTER_SHAPE = {
    "AsciiInteger": lambda base, a, path: Leaf("int", path),
    "AsciiFloat": lambda base, a, path: Leaf("float", path),
    "AsciiComplex": lambda base, a, path: Leaf("complex", path),
    "PaddedString": lambda base, a, path: Leaf("str", path),
    "Factor": lambda base, a, path: Leaf("float", path, (f"*{a.attrs.get('factor')!r}",)),
    "StripNullBytes": lambda base, a, path: Leaf("bytes", path),
    "DatetimeYdms": lambda base, a, path: Leaf("datetime", path),
    "DatetimeYdus": lambda base, a, path: Leaf("datetime", path),
    "Flag": lambda base, a, path: Leaf("bool", path),
}


def shape_of_con(con, path=(), text=False):
    core, chain = unwrap(con)
    k = core.kind
    if k == "fixedsized":
        base = shape_of_con(core.sub, path, text)  # a byte window around the sub-construct: same value
    elif k == "wrapper":
        # construct's own value wrappers: StringEncoded turns the bytes below it into text, NullStripped strips trailing padding
        base = shape_of_con(core.sub, path, text or core.cls == "StringEncoded")
    elif k == "struct":
        items = OrderedDict()
        for f in core.fields:
            if f.kind == "renamed":
                items[f.name] = shape_of_con(f, path + (f.name,))
        base = DictS(items)
    elif k == "array":
        from .poly import lift
        cnt = lift(core.count)
        maybe_empty = any(sym.endswith(("number_of_records", "number_of_file_pointer_records", "number_of_low_resolution_images")) for sym in cnt.symbols())
        base = ListOf(shape_of_con(core.sub, path[:-1] + ((path[-1] + "[]") if path else "[]",)), cnt, maybe_empty)
    elif k in ("int", "tell", "seek", "computed"):
        base = Leaf("int", path)
    elif k in ("bytes", "padding"):
        base = Leaf("str" if text else "bytes", path)
    elif k == "str":
        base = Leaf("str", path)
    else:
        raise ShapeError(f"no shape for construct kind {k}")
    for a in reversed(chain):
        if a.kind == "enum":
            base = Leaf("enum", path)
        elif a.cls == "Metadata":
            attrs = a.attrs.get("attrs", {})
            base = TupS([base, DictS(OrderedDict((kk, Const(vv)) for kk, vv in attrs.items()))])
        elif a.cls in ADAPTER_SHAPE:
            base = ADAPTER_SHAPE[a.cls](base, a, path)
        else:
            raise ShapeError(f"adapter {a.cls} has no shape rule")
    return base


# ---------------------------------------------------------------------------
# interpreter


class LazyField:
    """a field of a model object that is computed on access (e.g. Path.parent)"""

    def __init__(self, fn):
        self.fn = fn


class Scope:
    def __init__(self, owner, parent=None, vars=None):
        self.owner = owner  # FuncInfo or Module
        self.parent = parent
        self.vars = dict(vars or {})

    def lookup(self, name):
        s = self
        while s is not None:
            if name in s.vars:
                return s.vars[name]
            s = s.parent
        return None

    def child(self, owner=None, vars=None):
        return Scope(owner or self.owner, self, vars)


LIB_NAMES = {
    "pipe", "curry", "compose_left", "compose", "valmap", "keymap", "keyfilter", "valfilter", "itemfilter", "merge_with", "merge",
    "first", "second", "get", "cons", "groupby", "partition", "partition_all", "remove", "identity", "concat", "assoc", "assoc_in",
    "get_in", "dissoc", "unique", "last", "nth", "itemmap",
}


class Interp:
    def __init__(self, repo, max_depth=60, strict=True):
        """strict: evaluation on model values - whatever cannot be decided is an undecided run (ShapeError), never a guess;
        strict=False is shape inference on symbolic inputs, where an undecidable filter keeps its element as optional"""
        self.strict = strict
        self.cond_raises = []
        self.repo = repo
        self.depth = 0
        self.max_depth = max_depth
        self.events = []  # notes: (kind, where, detail)
        self.module_cache = {}
        self.assumptions = set()
        self.tables = {}
        self.max_loop = 5000
        self.environ = None  # None: unknown environment (reads are unknown values); "unset": no variable is set; any other text: every variable read has that value
        self.environ_reads = []
        self.cond_depth = 0  # > 0 while statements run under a condition that could not be decided (the other way they are skipped)

    def note(self, kind, where, detail):
        self.events.append((kind, where, detail))

    # ------------------------------------------------------------- names
    def module_scope(self, mod):
        if mod.name not in self.module_cache:
            self.module_cache[mod.name] = sc = Scope(mod, None, {})
            self._import_effects(mod, sc)
        return self.module_cache[mod.name]

    NEUTRAL_DECORATORS = ("curry", "staticmethod", "classmethod", "property", "dataclass", "contextmanager", "wraps", "cache", "lru_cache", "cached_property", "total_ordering")

    def _neutral_decorator(self, d):
        f = d.func if isinstance(d, ast.Call) else d
        return norm(f).split(".")[-1] in self.NEUTRAL_DECORATORS

    def _import_effects(self, mod, sc):
        """what importing the module does besides binding names: module-level names are resolved lazily from their defining
        expression, so statements that change an object after it was bound (``table.update(...)``, ``table[k] = v``, a
        registering decorator, a top-level call, a loop) are replayed here in source order.  One that cannot be evaluated
        taints the names it may have changed (every name of the module when that is not known): reading a tainted name is
        an undecided evaluation, never a guess at the unchanged object"""
        tree = getattr(mod, "tree", None)
        if tree is None:
            return
        self.import_taint = getattr(self, "import_taint", {})
        from collections import Counter
        bound = Counter(t.id for st in tree.body if isinstance(st, ast.Assign) for t in st.targets if isinstance(t, ast.Name))
        for st in tree.body:
            names = None
            if isinstance(st, ast.Assign) and all(isinstance(t, ast.Name) for t in st.targets) and any(bound[t.id] > 1 for t in st.targets):
                # a name bound more than once: its bindings are replayed in order (the later one usually reads the earlier)
                names = {t.id for t in st.targets}
                try:
                    self.exec_stmt(st, sc, [])
                    for n in names:
                        self.import_taint.get(mod.name, {}).pop(n, None)
                except (ShapeError, _Raise, RecursionError, NonTermination) as e:
                    for n in names:
                        self.import_taint.setdefault(mod.name, {})[n] = f"{mod.relpath}:{st.lineno}: the module-level binding `{norm(st)[:60]}` cannot be evaluated ({str(e)[:100]})"
                continue
            if isinstance(st, ast.FunctionDef):
                deco = [d for d in st.decorator_list if not self._neutral_decorator(d)]
                if not deco:
                    continue
                run = lambda st=st, deco=deco: self._apply_decorators(st, deco, sc, mod)
            elif isinstance(st, ast.Expr) and isinstance(st.value, ast.Call):
                f = st.value.func
                if isinstance(f, ast.Attribute) and isinstance(f.value, ast.Name):
                    names = {f.value.id}
                run = lambda st=st: self.eval(st.value, sc)
            elif isinstance(st, (ast.Assign, ast.AugAssign)):
                tg = st.targets if isinstance(st, ast.Assign) else [st.target]
                if all(isinstance(t, ast.Name) for t in tg) and isinstance(st, ast.Assign):
                    continue
                roots = set()
                for t in tg:
                    while isinstance(t, (ast.Subscript, ast.Attribute)):
                        t = t.value
                    if isinstance(t, ast.Name):
                        roots.add(t.id)
                names = roots or None
                if isinstance(st, ast.AugAssign) and isinstance(st.target, ast.Name):
                    # rebinding: the name is assigned twice, which the lazy resolution already refuses to guess
                    continue
                run = lambda st=st: self.exec_stmt(st, sc, [])
            elif isinstance(st, (ast.For, ast.While)):
                run = lambda st=st: self.exec_stmt(st, sc, [])
            else:
                continue
            try:
                run()
            except (ShapeError, _Raise, RecursionError, NonTermination) as e:
                why = f"{mod.relpath}:{st.lineno}: the import-time statement `{norm(st)[:60]}` cannot be evaluated ({str(e)[:100]})"
                if names is None:
                    self.import_taint.setdefault(mod.name, {})[None] = why
                else:
                    for n in names:
                        self.import_taint.setdefault(mod.name, {})[n] = why

    def _apply_decorators(self, st, deco, sc, mod):
        fi = mod.funcs.get(st.name)
        v = Fn("repo", func=fi, name=st.name, closure=None)
        for d in reversed(deco):
            v = self.call(self.eval(d, sc), [v], {}, d)
        sc.vars[st.name] = v

    def resolve_global(self, mod, name):
        sc = self.module_scope(mod)
        taint = getattr(self, "import_taint", {}).get(mod.name)
        if taint and (name in taint or None in taint):
            raise ShapeError(taint.get(name) or taint[None])
        if name in sc.vars:
            return sc.vars[name]
        r = self.repo.resolve_module_name(mod, name)
        if r.kind == "unknown":
            from .core import BUILTINS
            if name in BUILTINS:
                v = Fn("lib", name=f"builtins.{name}")
                sc.vars[name] = v
                return v
        v = self.value_of_ref(r, name, mod)
        sc.vars[name] = v
        return v

    def value_of_ref(self, r, name, mod):
        if r.kind == "func":
            return Fn("repo", func=r.func, name=r.func.qualname, closure=None)
        if r.kind == "class":
            return Fn("classctor", cls=r.node, mod=r.mod, name=r.node.name)
        if r.kind == "module":
            return ModuleRef(mod=r.mod)
        if r.kind == "external":
            return self.external(r.fq)
        if r.kind == "value":
            if len(r.exprs) != 1:
                return Top(f"{r.mod.name}:{name} assigned several times")
            return self.eval(r.exprs[0], self.module_scope(r.mod))
        return Top(f"unresolved name {name} in {mod.name}")

    def external(self, fq):
        last = fq.split(".")[-1]
        root = fq.split(".")[0]
        if root in ("tlz", "toolz", "cytoolz") and last in LIB_NAMES:
            return Fn("lib", name=last)
        if fq.startswith("builtins."):
            return Fn("lib", name="builtins." + last)
        if fq in ("operator.or_",):
            return Fn("lib", name="operator.or_")
        if fq in ("itertools.groupby", "operator.itemgetter", "itertools.accumulate", "itertools.product", "itertools.chain", "itertools.chain.from_iterable", "itertools.repeat", "itertools.islice", "itertools.pairwise"):
            return Fn("lib", name=fq)
        if fq in ("copy.deepcopy", "copy.copy"):
            return Fn("lib", name=fq)
        if fq in ("re.compile", "re.split", "re.sub", "re.subn", "re.match", "re.fullmatch", "re.search", "re.findall", "re.escape"):
            return Fn("lib", name=fq)
        if root == "re" and last.isupper():
            import re as _re
            if isinstance(getattr(_re, last, None), _re.RegexFlag):
                return Const(getattr(_re, last))
        if root == "datetime" and last in ("min", "max", "resolution", "utc") and fq.count(".") == 2:
            import datetime as _dtm
            owner = getattr(_dtm, fq.split(".")[1], None)
            if isinstance(owner, type) and not callable(getattr(owner, last, None)) and hasattr(owner, last):
                return Const(getattr(owner, last))  # class constants of the standard library (datetime.time.min)
        if fq == "collections.OrderedDict":
            return Fn("lib", name="builtins.dict")
        if fq == "types.MappingProxyType":
            return Fn("lib", name="identity")  # a read-only view of the same mapping
        if fq.startswith("numpy.") or fq.startswith("math.") or fq.startswith("datetime.") or fq.startswith("dateutil.") or fq.startswith("posixpath."):
            return Fn("lib", name=fq)
        if root in ("operator", "copy", "itertools", "json") and "." in fq:
            return Fn("lib", name=fq)  # a function of the module, not a sub-module
        if root in ("numpy", "math", "datetime", "operator", "copy", "itertools", "re", "dateutil", "posixpath", "json", "fsspec"):
            return ModuleRef(ext=fq)
        return Fn("lib", name=fq)

    def lookup(self, name, scope):
        v = scope.lookup(name)
        if v is not None:
            return v
        owner = scope.owner
        s = scope
        while s is not None:
            owner = s.owner
            s = s.parent
        mod = owner.module if isinstance(owner, FuncInfo) else owner
        # enclosing function definitions are found through Scope chain; fall back to module
        return self.resolve_global(mod, name)

    # ------------------------------------------------------------- expressions
    def eval(self, e, sc):
        m = getattr(self, "e_" + type(e).__name__, None)
        if m is None:
            return Top(f"expression {type(e).__name__}: {short(e, 40)}")
        return m(e, sc)

    def e_Constant(self, e, sc):
        return Const(e.value)

    def e_Name(self, e, sc):
        return self.lookup(e.id, sc)

    def e_JoinedStr(self, e, sc):
        parts = []
        allconst = True
        lv = []
        for v in e.values:
            if isinstance(v, ast.Constant):
                parts.append(str(v.value))
            else:
                x = self.eval(v.value, sc)
                spec = None
                if v.format_spec is not None:
                    sp = self.eval(v.format_spec, sc)
                    spec = sp.v if isinstance(sp, Const) and isinstance(sp.v, str) else False
                if isinstance(x, Const) and spec is not False:
                    val = x.v
                    if v.conversion == ord("r"):
                        val = repr(val)
                    elif v.conversion == ord("s"):
                        val = str(val)
                    elif v.conversion == ord("a"):
                        val = ascii(val)
                    try:
                        parts.append(format(val, spec or ""))
                    except (ValueError, TypeError) as ex:
                        raise _Raise.of(ex, "format")
                else:
                    allconst = False
                    parts.append("{}")
                    lv.extend(self.leaves(x))
        if allconst:
            return Const("".join(parts))
        if lv:
            out = lv[0].derive("f" + repr("".join(parts)), "str")
            for o in lv[1:]:
                out = out.combine(o, "fmt", "str")
            return out
        return Top("f-string")

    def e_Tuple(self, e, sc):
        return TupS(self._elts(e.elts, sc))

    def e_List(self, e, sc):
        v = ListLit(self._elts(e.elts, sc))
        self._register_table(e, v, sc)
        return v

    def e_Set(self, e, sc):
        v = SetS(self._elts(e.elts, sc))
        self._register_table(e, v, sc)
        return v

    def _register_table(self, node, v, sc):
        """literal list/set/dict of string constants defined inside a repo function: track which
        members are ever matched when the table is probed (membership test / lookup)"""
        if isinstance(v, DictS):
            members = [k for k in v.items if isinstance(k, (str, tuple))]
            ok = bool(members) and len(members) == len(v.items)
        else:
            members = [x.v for x in v.elts if isinstance(x, Const) and isinstance(x.v, str)]
            ok = bool(members) and len(members) == len(v.elts)
        if not ok:
            return
        owner = sc.owner
        s = sc
        while s is not None and not isinstance(s.owner, (FuncInfo, Module)):
            s = s.parent
        t = self.tables.setdefault(id(node), {"node": node, "members": list(members), "hits": set(), "probed": False,
                                              "owner": getattr(owner, "key", getattr(owner, "name", "?")), "kind": type(v).__name__})
        v.table = t

    def _elts(self, elts, sc):
        out = []
        for x in elts:
            if isinstance(x, ast.Starred):
                v = self.eval(x.value, sc)
                out.extend(self.iterate(v, x))
            else:
                out.append(self.eval(x, sc))
        return out

    def e_Dict(self, e, sc):
        d = DictS()
        for k, v in zip(e.keys, e.values):
            if k is None:
                vv = self.eval(v, sc)
                if isinstance(vv, DictS):
                    d.items.update(vv.items)
                    d.optional |= vv.optional
                else:
                    return Top("dict unpacking of unknown")
            else:
                kk = self.eval(k, sc)
                if isinstance(kk, TupS) and all(isinstance(x, Const) for x in kk.elts):
                    kk = Const(tuple(x.v for x in kk.elts))
                if not isinstance(kk, Const):
                    return Top("dict literal with non-constant key")
                d.items[kk.v] = self.eval(v, sc)
        self._register_table(e, d, sc)
        return d

    def e_Lambda(self, e, sc):
        fi = self._lambda_info(e, sc)
        return Fn("lambda", node=e, scope=sc, name=f"<lambda>", func=fi)

    def _lambda_info(self, e, sc):
        owner = sc.owner
        s = sc
        while s is not None and s.owner is None:
            s = s.parent
        mod = owner.module if isinstance(owner, FuncInfo) else owner
        for fi in mod.funcs.values():
            if fi.node is e:
                return fi
        return None

    def e_IfExp(self, e, sc):
        t = self.truth(self.eval(e.test, sc))
        if t is True:
            return self.eval(e.body, sc)
        if t is False:
            return self.eval(e.orelse, sc)
        return Choice([self.eval(e.body, sc), self.eval(e.orelse, sc)])

    def e_UnaryOp(self, e, sc):
        v = self.eval(e.operand, sc)
        if isinstance(e.op, ast.Not):
            t = self.truth(v)
            return Const(not t) if t is not None else Top("not <unknown>")
        if isinstance(v, Const) and isinstance(e.op, ast.USub):
            return Const(-v.v)
        return Top("unary op")

    def e_BoolOp(self, e, sc):
        is_and = isinstance(e.op, ast.And)
        last = None
        for x in e.values:
            last = self.eval(x, sc)
            t = self.truth(last)
            if t is None and isinstance(last, Leaf) and len(e.values) == 2 and x is e.values[0]:
                # <scalar> or <default> / <scalar> and <then>: the scalar's own truth value selects the operand
                other = self.eval(e.values[1], sc)
                if is_and:
                    return Choice([other, last], [f"{'.'.join(last.src)} truthy", f"{'.'.join(last.src)} falsy"])
                return Choice([last, other], [f"{'.'.join(last.src)} truthy", f"{'.'.join(last.src)} falsy"])
            if t is None:
                return Top("bool op on unknown", deps=self.leaves(last))
            if is_and and not t:
                return last
            if not is_and and t:
                return last
        return last

    def e_Compare(self, e, sc):
        if len(e.ops) != 1:
            return Top("chained compare")
        l = self.eval(e.left, sc)
        r = self.eval(e.comparators[0], sc)
        return self.compare(e.ops[0], l, r)

    def compare(self, op, l, r):
        """one comparison on model values (also what operator.eq & co. compute)"""
        if isinstance(op, (ast.In, ast.NotIn)):
            res = self.contains(r, l)
            if res is None:
                return Top("membership unknown", deps=self.leaves(l))
            return Const(res if isinstance(op, ast.In) else not res)
        if isinstance(op, (ast.Is, ast.IsNot)):
            same = None
            if isinstance(l, Sentinel) or isinstance(r, Sentinel):
                same = isinstance(l, Sentinel) and isinstance(r, Sentinel) and l.name == r.name
            elif isinstance(r, Const) and r.v is None:
                same = isinstance(l, Const) and l.v is None if not isinstance(l, (Top, Choice)) else None
            if same is None and isinstance(l, Fn) and isinstance(r, Fn) and l.kind == "lib" and r.kind == "lib" and str(l.name).startswith("builtins.") and str(r.name).startswith("builtins."):
                same = l.name == r.name  # two builtin classes (`type(x) is str`)
            if same is None:
                return Top("identity unknown")
            return Const(same if isinstance(op, ast.Is) else not same)
        if not (isinstance(l, Const) and isinstance(r, Const)) and isinstance(op, (ast.Eq, ast.NotEq, ast.Lt, ast.LtE, ast.Gt, ast.GtE)):
            from .shapes_lib import _NOPY, to_py
            pl, pr = to_py(l), to_py(r)
            if pl is not _NOPY and pr is not _NOPY:  # containers of constants compare like the Python values they denote
                l, r = Const(pl), Const(pr)
        if isinstance(l, Const) and isinstance(r, Const):
            try:
                fn = {ast.Eq: lambda a, b: a == b, ast.NotEq: lambda a, b: a != b, ast.Lt: lambda a, b: a < b, ast.LtE: lambda a, b: a <= b,
                      ast.Gt: lambda a, b: a > b, ast.GtE: lambda a, b: a >= b}[type(op)]
                return Const(fn(l.v, r.v))
            except Exception:
                pass
        return Top("comparison of unknowns", deps=self.leaves(l) + self.leaves(r))

    def e_BinOp(self, e, sc):
        return self.binop(self.eval(e.left, sc), self.eval(e.right, sc), e.op)

    def binop(self, l, r, op):
        class _E:  # the operator, as the expression node carried it
            pass
        e = _E()
        e.op = op
        for x, reflected in ((l, False), (r, True)):
            if isinstance(x, Obj) and "__binop__" in x.fields:
                return self.call(x.fields["__binop__"], [Const(type(op).__name__), r if not reflected else l, Const(reflected)], {}, None)
        if isinstance(e.op, (ast.BitAnd, ast.BitOr, ast.Sub, ast.BitXor)):
            # set algebra on sets and dict key views of constants
            def as_set(x):
                if isinstance(x, SetS) or (isinstance(x, ListLit) and getattr(x, "pyname", None) == "dict_keys"):
                    return [y.v for y in x.elts] if all(isinstance(y, Const) for y in x.elts) else None
                return False
            sl, sr = as_set(l), as_set(r)
            if sl is not False and sr is not False and not (isinstance(e.op, ast.BitOr) and isinstance(l, DictS)):
                if sl is None or sr is None:
                    return Top("set operation on symbolic members")
                if isinstance(e.op, ast.BitAnd):
                    out = [x for x in sl if x in sr]
                elif isinstance(e.op, ast.BitOr):
                    out = sl + [x for x in sr if x not in sl]
                elif isinstance(e.op, ast.Sub):
                    out = [x for x in sl if x not in sr]
                else:
                    out = [x for x in sl if x not in sr] + [x for x in sr if x not in sl]
                return SetS([Const(x) for x in out])
        if isinstance(e.op, ast.BitOr):
            return self.dict_union(l, r)
        if isinstance(e.op, ast.Add):
            if isinstance(l, TupS) and isinstance(r, TupS):
                return TupS(l.elts + r.elts)
            if isinstance(l, ListLit) and isinstance(r, ListLit):
                return ListLit(l.elts + r.elts)
            if isinstance(l, Const) and isinstance(r, Const):
                try:
                    return Const(l.v + r.v)
                except Exception:
                    pass
        if isinstance(e.op, ast.Mult):
            # sequence repetition by a constant count: [x] * 3, 3 * (a, b)
            for seq, cnt in ((l, r), (r, l)):
                if isinstance(seq, (ListLit, TupS)) and not getattr(seq, "pyname", None) and isinstance(cnt, Const) and isinstance(cnt.v, int) and not isinstance(cnt.v, bool) and cnt.v * len(seq.elts) <= 100000:
                    return type(seq)(list(seq.elts) * max(cnt.v, 0))
        if isinstance(l, Const) and isinstance(r, Const):
            try:
                ops = {ast.Sub: lambda a, b: a - b, ast.Mult: lambda a, b: a * b, ast.FloorDiv: lambda a, b: a // b, ast.Mod: lambda a, b: a % b, ast.Pow: lambda a, b: a ** b, ast.Div: lambda a, b: a / b,
                       ast.BitAnd: lambda a, b: a & b, ast.BitXor: lambda a, b: a ^ b, ast.LShift: lambda a, b: a << b, ast.RShift: lambda a, b: a >> b, ast.MatMult: lambda a, b: a @ b}
                return Const(ops[type(e.op)](l.v, r.v))
            except Exception:
                pass
        return self.arith(l, r, type(e.op).__name__)

    def arith(self, l, r, opname):
        if isinstance(l, ListOf) and isinstance(r, ListOf):
            return ListOf(self.arith(l.elem, r.elem, opname), l.n, l.maybe_empty)
        if isinstance(l, ListOf):
            return ListOf(self.arith(l.elem, r, opname), l.n, l.maybe_empty)
        if isinstance(r, ListOf):
            return ListOf(self.arith(l, r.elem, opname), r.n, r.maybe_empty)
        if isinstance(l, Leaf) and isinstance(r, Leaf):
            kind = "datetime" if "datetime" in (l.kind, r.kind) else "timedelta" if "timedelta" in (l.kind, r.kind) else "number"
            return l.combine(r, opname, kind)
        if opname == "Mod" and isinstance(l, Const) and isinstance(l.v, (str, bytes)) and isinstance(r, (TupS, ListLit, DictS)):
            # "...%d..." % (constants): printf-style formatting folds like the Python values it denotes
            from .shapes_lib import _NOPY, to_py
            pr = to_py(r)
            if pr is not _NOPY:
                try:
                    return Const(l.v % pr)
                except Exception as ex_:
                    raise _Raise(f"{type(ex_).__name__}: {ex_}", [c_.__name__ for c_ in type(ex_).__mro__])
        if isinstance(l, Leaf) and isinstance(r, Const):
            return l.derive(f"{opname}({r.v!r})")
        if isinstance(r, Leaf) and isinstance(l, Const):
            return r.derive(f"r{opname}({l.v!r})")
        lv = self.leaves(l) + self.leaves(r)
        return Top(f"arithmetic {opname}", deps=lv)

    def dict_union(self, l, r):
        if isinstance(l, DictS) and isinstance(r, DictS):
            d = l.copy()
            for k, v in r.items.items():
                d.items[k] = v
                if k in r.optional and k not in l.items:
                    d.optional.add(k)
                else:
                    d.optional.discard(k)
            return d
        if isinstance(l, Choice):
            return Choice([self.dict_union(a, r) for a in l.alts])
        if isinstance(r, Choice):
            return Choice([self.dict_union(l, a) for a in r.alts])
        return Top("| on non-dicts")

    def e_Attribute(self, e, sc):
        v = self.eval(e.value, sc)
        return self.getattr(v, e.attr, e)

    def getattr(self, v, attr, node=None):
        if isinstance(v, ModuleRef):
            if v.mod is not None:
                pre = self.module_scope(v.mod).vars.get(attr)
                if pre is not None:
                    return pre
                r = self.repo.resolve_module_name(v.mod, attr)
                if r.kind == "unknown":
                    sub = self.repo.modules.get(f"{v.mod.name}.{attr}")
                    if sub is not None:
                        return ModuleRef(mod=sub)
                return self.value_of_ref(r, attr, v.mod)
            return self.external(f"{v.ext}.{attr}")
        if isinstance(v, Obj):
            if attr in v.fields:
                if isinstance(v.fields[attr], LazyField):
                    return v.fields[attr].fn()
                return v.fields[attr]
            if getattr(v, "klass", None) is not None:
                found = self.find_class_attr(v.klass[0], v.klass[1], attr)
                if found is not None:
                    kind, mod_, item = found
                    if kind == "method":
                        fi = mod_.funcs.get(item[0])
                        if fi is not None:
                            deco = [norm(d) for d in fi.node.decorator_list]
                            bound = Fn("repo", func=fi, name=fi.qualname, closure=None, bound=v)
                            if "property" in deco or any(d.endswith("cached_property") for d in deco):
                                return self.call(bound, [], {}, node)
                            if "staticmethod" in deco:
                                return Fn("repo", func=fi, name=fi.qualname, closure=None)
                            if "classmethod" in deco:
                                return Fn("repo", func=fi, name=fi.qualname, closure=None, bound=Fn("classctor", cls=v.klass[1], mod=v.klass[0], name=v.klass[1].name))
                            return bound
                    elif kind == "value":
                        return self.eval(item, self.module_scope(mod_))
            if "__plain_list__" in v.fields and attr not in ("append", "extend", "insert", "remove", "pop", "clear", "index", "count", "sort", "reverse", "copy"):
                raise _Raise(f"AttributeError: 'list' object has no attribute '{attr}'", ["AttributeError", "Exception", "BaseException", "object"])
            if v.cls == "Group" and attr in ("groups", "variables"):
                data = v.fields.get("data")
                if isinstance(data, DictS):
                    want = "Group" if attr == "groups" else "Variable"
                    return DictS(OrderedDict((k, x) for k, x in data.items.items() if isinstance(x, Obj) and x.cls == want))
            if v.cls == "Group" and attr == "name":
                p_ = v.fields.get("path")
                if isinstance(p_, Const) and isinstance(p_.v, str):
                    return Const(p_.v.rstrip("/").rsplit("/", 1)[-1] if p_.v.strip("/") else "")
                return Top("group name")
            return Fn("method", recv=v, name=attr)
        if isinstance(v, Const) and not isinstance(v.v, (str, bytes, int, float, bool, type(None), tuple, list, dict)) and hasattr(v.v, attr) and not callable(getattr(v.v, attr)):
            a = getattr(v.v, attr)
            return Const(a)
        if isinstance(v, (DictS, ListLit, ListOf, TupS, Const, Leaf, SetS, Choice, Top)):
            return Fn("method", recv=v, name=attr)
        if isinstance(v, Fn) and v.kind == "lib":
            if str(v.name).startswith("datetime.") and attr in ("min", "max", "resolution", "utc"):
                return self.external(f"{v.name}.{attr}")
            return Fn("lib", name=f"{v.name}.{attr}")
        if isinstance(v, Fn) and v.kind == "classctor":
            found = self.find_class_attr(v.mod, v.cls, attr) if getattr(v, "mod", None) is not None else None
            if found is not None:
                kind, mod_, item = found
                if kind == "method":
                    fi = mod_.funcs.get(item[0])
                    if fi is not None:
                        deco = [norm(d) for d in fi.node.decorator_list]
                        if "classmethod" in deco:
                            return Fn("repo", func=fi, name=fi.qualname, closure=None, bound=v)
                        if "property" in deco or any(d.endswith("cached_property") for d in deco):
                            return Top(f"property object {attr}")
                        return Fn("repo", func=fi, name=fi.qualname, closure=None)  # plain function through the class
                elif kind == "value":
                    return self.eval(item, self.module_scope(mod_))
            if str(v.name).startswith("datetime.") and attr in ("min", "max", "resolution", "utc"):
                return self.external(f"{v.name}.{attr}")
            return Fn("lib", name=f"{v.name}.{attr}")
        return Top(f"attribute {attr} of {type(v).__name__}")

    def find_class_attr(self, mod, cls, attr, _depth=0):
        """-> ('method', module, (qualified name,)) | ('value', module, expr) for an attribute defined in a class of the package (or its bases)"""
        for st in cls.body:
            if isinstance(st, (ast.FunctionDef, ast.AsyncFunctionDef)) and st.name == attr:
                q = self.repo._class_qual(mod, cls) + "." + attr
                return "method", mod, (q,)
            if isinstance(st, ast.Assign) and any(isinstance(t, ast.Name) and t.id == attr for t in st.targets):
                return "value", mod, st.value
        if _depth < 5:
            for b in cls.bases:
                r = self.repo.resolve_expr(mod, b)
                if r.kind == "class":
                    got = self.find_class_attr(r.mod, r.node, attr, _depth + 1)
                    if got is not None:
                        return got
        return None

    def e_Subscript(self, e, sc):
        v = self.eval(e.value, sc)
        if isinstance(e.slice, ast.Slice):
            lo = self.eval(e.slice.lower, sc) if e.slice.lower is not None else Const(None)
            hi = self.eval(e.slice.upper, sc) if e.slice.upper is not None else Const(None)
            st = self.eval(e.slice.step, sc) if e.slice.step is not None else Const(None)
            if isinstance(lo, Const) and isinstance(hi, Const) and isinstance(st, Const) and e.slice.step is not None and isinstance(v, (ListLit, TupS)):
                return type(v)(v.elts[lo.v:hi.v:st.v])
            if isinstance(lo, Const) and isinstance(hi, Const) and e.slice.step is None:
                if isinstance(v, (ListLit, TupS)):
                    return type(v)(v.elts[lo.v:hi.v])
                if isinstance(v, Const) and isinstance(v.v, (str, tuple, list, bytes, range)):
                    return Const(v.v[lo.v:hi.v])
                if isinstance(v, Leaf):
                    return v.derive(f"[{lo.v}:{hi.v}]")
                if isinstance(v, Obj) and v.cls in ("Buffer", "BufferView"):
                    n = len(range(v.fields["size"].v)[lo.v:hi.v])
                    return Obj("BufferView", OrderedDict(size=Const(n), base=v.fields.get("base", v)))
            return Top("slice")
        k = self.eval(e.slice, sc)
        return self.getitem(v, k, e)

    def getitem(self, v, k, node=None):
        if isinstance(v, Fn) and v.kind == "lib" and v.name == "os.environ" and self.environ is not None and isinstance(k, Const):
            self.environ_reads.append(k.v)
            if self.environ == "unset":
                raise _Raise(f"KeyError {k.v!r}", ["KeyError", "LookupError", "Exception", "BaseException", "object"])
            return Const(self.environ)
        if isinstance(v, Obj) and v.cls == "Match" and isinstance(k, Const) and isinstance(v.fields.get("groups"), DictS):
            # match["name"] is match.group("name")
            if k.v in v.fields["groups"].items:
                return v.fields["groups"].items[k.v]
            if k.v == 0 and isinstance(v.fields.get("text"), (Const, Leaf)):
                return v.fields["text"]
            raise _Raise(f"IndexError: no such group {k.v!r}", ["IndexError", "LookupError", "Exception", "BaseException", "object"])
        if isinstance(v, Obj) and "__getitem__" in v.fields:
            return self.call(v.fields["__getitem__"], [k], {}, node)
        if isinstance(v, Obj) and getattr(v, "klass", None) is not None and self.find_class_attr(v.klass[0], v.klass[1], "__getitem__") is not None:
            return self.call(self.getattr(v, "__getitem__"), [k], {}, node)
        if isinstance(v, Choice):
            return Choice([self.getitem(a, k, node) for a in v.alts])
        if isinstance(k, Choice) and isinstance(v, (DictS, ListLit, TupS)) and all(isinstance(a, Const) for a in k.alts):
            # table[<one of several known keys>]: the entry of each alternative, under the alternative's condition
            return Choice([self.getitem(v, a, node) for a in k.alts], list(k.labels))
        if isinstance(v, DictS) and isinstance(k, Leaf) and v.items and not v.optional and not self.strict:
            # table[<field value>]: one alternative per entry (a key outside the table raises KeyError and yields nothing)
            t = getattr(v, "table", None)
            if t is not None:
                t["probed"] = True
                t["hits"].update(v.items)
            return Choice(list(v.items.values()), [f"key=={kk!r}" for kk in v.items])
        if isinstance(v, DictS) and isinstance(k, Const):
            t = getattr(v, "table", None)
            if t is not None:
                t["probed"] = True
            if k.v in v.items:
                if t is not None:
                    t["hits"].add(k.v)
                return v.items[k.v]
            self.note("missing-key", short(node, 60) if node is not None else "", f"key {k.v!r} not in {list(v.items)[:8]}")
            raise _Raise(f"KeyError {k.v!r}", ["KeyError", "LookupError", "Exception", "BaseException", "object"])
        if isinstance(v, (ListLit, TupS)) and isinstance(k, Const) and isinstance(k.v, int):
            try:
                return v.elts[k.v]
            except IndexError:
                raise _Raise("IndexError", ["IndexError", "LookupError", "Exception", "BaseException", "object"])
        if isinstance(v, (ListLit, TupS)) and isinstance(k, Const) and isinstance(k.v, slice):
            try:
                return type(v)(v.elts[k.v])
            except (TypeError, ValueError):
                raise _Raise("bad slice")
        if isinstance(v, ListOf) and isinstance(k, Const) and isinstance(k.v, int):
            return v.elem
        if isinstance(v, Const) and isinstance(k, Const):
            try:
                return Const(v.v[k.v])
            except (IndexError, KeyError) as ex_:
                # subscripting a constant (a string, a tuple, a table) with a constant that is not there raises, as in Python
                raise _Raise(f"{type(ex_).__name__}: {ex_}", [c_.__name__ for c_ in type(ex_).__mro__])
            except Exception:
                return Top("const subscript")
        if isinstance(v, Obj) and v.cls == "Group" and isinstance(k, Const):
            data = v.fields.get("data")
            if isinstance(data, DictS) and k.v in data.items:
                return data.items[k.v]
        if isinstance(v, Leaf):
            return v.derive(f"[{k.v!r}]" if isinstance(k, Const) else "[?]")
        return Top(f"subscript of {type(v).__name__}")

    def e_Call(self, e, sc):
        f = self.eval(e.func, sc)
        args = []
        for a in e.args:
            if isinstance(a, ast.Starred):
                sv = self.eval(a.value, sc)
                if isinstance(sv, ListOf):
                    from .shapes_lib import StarArgs
                    args.append(StarArgs(sv))
                elif isinstance(sv, Top):
                    return sv
                else:
                    args.extend(self.iterate(sv, a))
            else:
                args.append(self.eval(a, sc))
        kwargs = OrderedDict()
        for k in e.keywords:
            if k.arg is None:
                v = self.eval(k.value, sc)
                if isinstance(v, DictS):
                    kwargs.update(v.items)
                else:
                    return Top("**kwargs unknown")
            else:
                kwargs[k.arg] = self.eval(k.value, sc)
        return self.call(f, args, kwargs, e)

    def _comp(self, e, sc, kind):
        results = []
        homogeneous = [None]

        maybe = set()

        def rec(i, scope):
            if i == len(e.generators):
                if kind == "dict":
                    results.append((self.eval(e.key, scope), self.eval(e.value, scope)))
                else:
                    results.append(self.eval(e.elt, scope))
                return
            g = e.generators[i]
            it = self.eval(g.iter, scope)
            if isinstance(it, ListOf):
                if len(e.generators) != 1:
                    raise ShapeError("nested comprehension over a symbolic list")
                inner = scope.child()
                self.bind(g.target, it.elem, inner)
                for c in g.ifs:
                    t = self.truth(self.eval(c, inner))
                    if t is None:
                        self.note("filter-unknown", short(e, 60), "comprehension filter on symbolic list")
                    elif t is False:
                        homogeneous[0] = ("empty", it.n)
                        return
                if kind == "dict":
                    raise ShapeError("dict comprehension over a symbolic list")
                homogeneous[0] = ("of", self.eval(e.elt, inner), it.n)
                return
            for item in self.iterate(it, g.iter):
                inner = scope.child()
                self.bind(g.target, item, inner)
                keep = True
                unsure = False
                for c in g.ifs:
                    t = self.truth(self.eval(c, inner))
                    if t is None:
                        if self.strict:
                            raise ShapeError(f"comprehension filter `{short(c, 50)}` is undecidable on the model value")
                        self.note("filter-unknown", short(e, 60), "comprehension filter undecidable; element kept as optional")
                        unsure = True
                    elif t is False:
                        keep = False
                if keep:
                    before = len(results)
                    rec(i + 1, inner)
                    if unsure:
                        maybe.update(range(before, len(results)))

        rec(0, sc)
        if homogeneous[0] is not None:
            if homogeneous[0][0] == "empty":
                return ListLit([])
            return ListOf(homogeneous[0][1], homogeneous[0][2])
        if kind == "dict":
            d = DictS()
            for idx, (k, v) in enumerate(results):
                if isinstance(k, TupS) and all(isinstance(x, Const) for x in k.elts):
                    k = Const(tuple(x.v for x in k.elts))
                if not isinstance(k, Const):
                    return Top("dict comprehension with non-constant key")
                d.items[k.v] = v
                if idx in maybe:
                    d.optional.add(k.v)  # kept or dropped by a filter that depends on the (unknown) value: an optional entry
                else:
                    d.optional.discard(k.v)
            return d
        return ListLit(results)

    def e_ListComp(self, e, sc):
        return self._comp(e, sc, "list")

    def e_GeneratorExp(self, e, sc):
        v = self._comp(e, sc, "list")
        if isinstance(v, ListLit):
            v.pyname, v.pybases = "generator", ()  # evaluated eagerly, but it is an iterator: next() takes from it, an empty one raises StopIteration
        return v

    def e_SetComp(self, e, sc):
        v = self._comp(e, sc, "list")
        return SetS(v.elts) if isinstance(v, ListLit) else v

    def e_DictComp(self, e, sc):
        return self._comp(e, sc, "dict")

    # ------------------------------------------------------------- helpers
    def leaves(self, v, _d=0):
        out = []
        if _d > 6:
            return out
        if isinstance(v, Leaf):
            out.append(v)
        elif isinstance(v, (ListLit, TupS, SetS)):
            for x in v.elts:
                out.extend(self.leaves(x, _d + 1))
        elif isinstance(v, ListOf):
            out.extend(self.leaves(v.elem, _d + 1))
        elif isinstance(v, DictS):
            for x in v.items.values():
                out.extend(self.leaves(x, _d + 1))
        elif isinstance(v, Choice):
            for x in v.alts:
                out.extend(self.leaves(x, _d + 1))
        elif isinstance(v, Top):
            out.extend(v.deps)
        elif isinstance(v, Obj):
            for x in v.fields.values():
                out.extend(self.leaves(x, _d + 1))
        return out

    def truth(self, v):
        if isinstance(v, Const):
            return bool(v.v)
        if isinstance(v, DictS):
            if not v.items:
                return False
            if v.optional >= set(v.items):
                return None
            return True
        if isinstance(v, (ListLit, TupS, SetS)):
            return bool(v.elts)
        if isinstance(v, ListOf):
            if v.n.is_const():
                return v.n.value() > 0
            if v.maybe_empty:
                return None
            self.assumptions.add(f"list of length {v.n} is non-empty (count domain starts at 1)")
            return True
        if isinstance(v, (Obj, Fn)):
            return True
        return None

    def contains(self, coll, item):
        if isinstance(coll, Fn) and coll.kind == "lib" and coll.name == "os.environ" and self.environ is not None and isinstance(item, Const):
            self.environ_reads.append(item.v)
            return self.environ != "unset"
        if isinstance(coll, Obj) and "__contains__" in coll.fields:
            return self.truth(self.call(coll.fields["__contains__"], [item], {}, None))
        t = getattr(coll, "table", None)
        if t is not None:
            t["probed"] = True
        if isinstance(coll, (ListLit, TupS, SetS)) and isinstance(item, Const):
            if all(isinstance(x, Const) for x in coll.elts):
                res = item.v in [x.v for x in coll.elts]
                if res and t is not None:
                    t["hits"].add(item.v)
                return res
        def _builtin_class(x):
            # a class of builtins / datetime, by its name (type(<a datetime constant>) and datetime.datetime are the same class)
            if isinstance(x, Fn) and x.kind == "lib" and (str(x.name).startswith("builtins.") or str(x.name) in ("datetime.datetime", "datetime.date", "datetime.time", "datetime.timedelta")):
                return str(x.name).rsplit(".", 1)[-1]
            return None
        if isinstance(coll, (ListLit, TupS, SetS)) and _builtin_class(item) and all(_builtin_class(x) for x in coll.elts):
            return _builtin_class(item) in [_builtin_class(x) for x in coll.elts]  # `type(x) in (int, float, str)`
        if isinstance(coll, DictS) and isinstance(item, Const):
            if item.v in coll.items:
                if t is not None:
                    t["hits"].add(item.v)
                return None if item.v in coll.optional else True
            return False
        if isinstance(coll, Const) and isinstance(item, Const):
            try:
                return item.v in coll.v
            except Exception:
                return None
        if isinstance(coll, Obj) and coll.cls == "Group" and isinstance(item, Const):
            data = coll.fields.get("data")
            if isinstance(data, DictS):
                if item.v in data.items:
                    return None if item.v in data.optional else True
                return False
        return None

    def iterate(self, v, node=None):
        if isinstance(v, Obj) and v.cls == "iterator":
            # an explicit iterator object (iter(x)): consumed one element at a time, so that a loop left by `break` and
            # entered again goes on where it stopped
            def gen(it=v):
                items = it.fields["items"].elts
                while it.fields["pos"].v < len(items):
                    i = it.fields["pos"].v
                    it.fields["pos"] = Const(i + 1)
                    yield items[i]
            return gen()
        if isinstance(v, (ListLit, TupS, SetS)):
            return list(v.elts)
        if isinstance(v, DictS):
            return [Const(k) for k in v.items]
        if isinstance(v, Obj) and v.cls != "Group" and ("__iter__" in v.fields or (getattr(v, "klass", None) is not None and self.find_class_attr(v.klass[0], v.klass[1], "__iter__") is not None)):
            return self.iterate(self.call(self.getattr(v, "__iter__", node), [], {}, node), node)
        if isinstance(v, Const) and isinstance(v.v, (list, tuple, str, set, frozenset)):
            return [Const(x) for x in v.v]
        if isinstance(v, Const) and hasattr(v.v, "keys") and hasattr(v.v, "__getitem__") and not isinstance(v.v, (str, bytes)):
            return [Const(x) for x in v.v]
        if isinstance(v, Obj) and v.cls == "Group":
            data = v.fields.get("data")
            if isinstance(data, DictS):
                return [Const(k) for k in data.items]
        if isinstance(v, Const) and isinstance(v.v, (bytes, bytearray)):
            return [Const(x) for x in v.v]
        if isinstance(v, Const) and isinstance(v.v, range):
            return [Const(x) for x in v.v]
        if isinstance(v, Const) and (v.v is None or isinstance(v.v, (int, float, bool))):
            raise _Raise(f"TypeError: '{type(v.v).__name__}' object is not iterable", ["TypeError", "Exception", "BaseException", "object"])
        raise ShapeError(f"cannot iterate over {v!r} ({short(node, 50) if node is not None else ''})")

    def bind(self, target, value, sc):
        if isinstance(target, ast.Name):
            sc.vars[target.id] = value
            return
        if isinstance(target, (ast.Tuple, ast.List)):
            if isinstance(value, Choice):
                # bind component-wise joins
                parts = [self._unpack(a, target) for a in value.alts]
                for i, t in enumerate(target.elts):
                    tt = t.value if isinstance(t, ast.Starred) else t
                    self.bind(tt, Choice([p[i] for p in parts]), sc)
                return
            vals = self._unpack(value, target)
            for t, v in zip(target.elts, vals):
                self.bind(t.value if isinstance(t, ast.Starred) else t, v, sc)
            return
        if isinstance(target, ast.Attribute):
            obj = self.eval(target.value, sc)
            if isinstance(obj, Obj):
                obj.fields[target.attr] = value
                return
            raise ShapeError(f"attribute store on {obj!r}")
        if isinstance(target, ast.Subscript):
            obj = self.eval(target.value, sc)
            if isinstance(target.slice, ast.Slice):
                # xs[lo:hi] = iterable replaces the elements of the very list object (every alias sees it)
                sl = target.slice
                parts = [self.eval(x, sc) if x is not None else Const(None) for x in (sl.lower, sl.upper, sl.step)]
                if isinstance(obj, ListLit) and all(isinstance(x, Const) for x in parts) and parts[2].v is None:
                    if isinstance(value, (ListLit, TupS)):
                        new = list(value.elts)
                    elif isinstance(value, (ListOf, Top, Leaf, Choice)):
                        raise ShapeError(f"slice store of {value!r:.60}")
                    else:
                        new = list(self.iterate(value, target))
                    obj.elts[parts[0].v:parts[1].v] = new
                    return
                raise ShapeError(f"slice store on {obj!r:.60}")
            k = self.eval(target.slice, sc)
            if isinstance(obj, Obj) and getattr(obj, "klass", None) is not None and self.find_class_attr(obj.klass[0], obj.klass[1], "__setitem__") is not None:
                self.call(self.getattr(obj, "__setitem__"), [k, value], {}, target)
                return
            if isinstance(k, TupS) and all(isinstance(x, Const) for x in k.elts):
                k = Const(tuple(x.v for x in k.elts))
            if isinstance(k, Const):
                if isinstance(obj, ListLit) and isinstance(k.v, int) and not isinstance(k.v, bool):
                    try:
                        obj.elts[k.v] = value
                    except IndexError:
                        raise _Raise("IndexError: list assignment index out of range", ["IndexError", "LookupError", "Exception", "BaseException", "object"])
                    return
                if isinstance(obj, DictS):
                    if self.cond_depth > 0 and (k.v not in obj.items or k.v in obj.optional):
                        # stored under a condition that could not be decided: the entry may or may not exist afterwards
                        if self.strict:
                            raise ShapeError(f"item store {norm(target)[:50]} under a condition that cannot be decided")
                        obj.items[k.v] = value
                        obj.optional.add(k.v)
                        return
                    if self.cond_depth > 0 and self.strict and not (obj.items.get(k.v) is value):
                        raise ShapeError(f"item store {norm(target)[:50]} under a condition that cannot be decided")
                    obj.items[k.v] = value
                    obj.optional.discard(k.v)
                    return
                if isinstance(obj, Obj) and obj.cls == "Group":
                    obj.fields["data"].items[k.v] = value
                    return
            raise ShapeError(f"item store on {obj!r}")
        raise ShapeError(f"unsupported binding target {norm(target)}")

    def _unpack(self, value, target):
        n = len(target.elts)
        star = [i for i, t in enumerate(target.elts) if isinstance(t, ast.Starred)]
        if isinstance(value, (TupS, ListLit)):
            elts = value.elts
        elif isinstance(value, Const) and isinstance(value.v, (tuple, list)):
            elts = [Const(x) for x in value.v]
        elif isinstance(value, Const) and hasattr(value.v, "keys") and hasattr(value.v, "__getitem__") and not isinstance(value.v, (str, bytes)):
            elts = [Const(x) for x in value.v]  # a constant mapping (a pattern's groupindex): its keys
        elif isinstance(value, DictS):
            elts = [Const(k) for k in value.items]
        elif isinstance(value, ListOf) and not star:
            elts = [value.elem] * n
        else:
            raise ShapeError(f"cannot unpack {value!r} into {norm(target)}")
        if star:
            i = star[0]
            after = n - i - 1
            if len(elts) < n - 1:
                raise _Raise("unpack")
            mid = ListLit(elts[i: len(elts) - after])
            return elts[:i] + [mid] + (elts[len(elts) - after:] if after else [])
        if len(elts) != n:
            raise _Raise(f"cannot unpack {len(elts)} values into {n}")
        return elts

    # ------------------------------------------------------------- statements
    def exec_block(self, stmts, sc, yields):
        for i, st in enumerate(stmts):
            if isinstance(st, ast.Assign) and len(st.targets) == 1 and isinstance(st.targets[0], ast.Tuple) and all(isinstance(t, ast.Name) for t in st.targets[0].elts) and stmts[i + 1:]:
                # `a, b = table[key]` with one of several known entries: the names belong together, the rest of the block runs once per entry
                val = self.eval(st.value, sc)
                n_t = len(st.targets[0].elts)
                if isinstance(val, Choice) and 1 < len(val.alts) <= 24 and all(isinstance(a, (TupS, ListLit)) and len(a.elts) == n_t for a in val.alts):
                    results, labels = [], []
                    for alt, lab in zip(val.alts, val.labels):
                        s2 = sc.child()
                        self.bind(st.targets[0], alt, s2)
                        try:
                            self.exec_block(stmts[i + 1:], s2, yields)
                            raise ShapeError(f"case split on {norm(st.targets[0])}: a branch falls through without returning")
                        except _Return as r:
                            results.append(r.v)
                            labels.append(lab)
                        except _Raise:
                            continue
                    if not results:
                        raise _Raise("all cases raise")
                    raise _Return(Choice(results, labels) if len(results) > 1 else results[0])
                self.bind(st.targets[0], val, sc)
                continue
            self.exec_stmt(st, sc, yields)
            # case split: a name bound to a small choice of constants forks the rest of the block
            if isinstance(st, ast.Assign) and len(st.targets) == 1 and isinstance(st.targets[0], ast.Name):
                v = sc.vars.get(st.targets[0].id)
                if isinstance(v, Choice) and 1 < len(v.alts) <= 24 and all(isinstance(a, Const) for a in v.alts) and stmts[i + 1:]:
                    cases = []  # (value, merged label)
                    for alt, lab in zip(v.alts, v.labels):
                        for c in cases:
                            if c[0].v == alt.v and type(c[0].v) is type(alt.v):
                                c[1].append(lab)
                                break
                        else:
                            cases.append((alt, [lab]))
                    results, labels = [], []
                    for alt, labs in cases:
                        s2 = sc.child()
                        s2.vars[st.targets[0].id] = alt
                        try:
                            self.exec_block(stmts[i + 1:], s2, yields)
                            raise ShapeError(f"case split on {st.targets[0].id}: a branch falls through without returning")
                        except _Return as r:
                            results.append(r.v)
                            labels.append("|".join(sorted(x for x in labs if x)) or None)
                        except _Raise:
                            continue
                    if not results:
                        raise _Raise("all cases raise")
                    raise _Return(Choice(results, labels) if len(results) > 1 else results[0])

    def exec_stmt(self, st, sc, yields):
        if isinstance(st, ast.Expr):
            v = st.value
            if isinstance(v, ast.Yield):
                yields.append(self.eval(v.value, sc) if v.value is not None else Const(None))
                return
            if isinstance(v, ast.YieldFrom):
                yields.extend(self.iterate(self.eval(v.value, sc), v))
                return
            self.eval(v, sc)
            return
        if isinstance(st, ast.Assign):
            val = self.eval(st.value, sc)
            for t in st.targets:
                self.bind(t, val, sc)
            return
        if isinstance(st, ast.AnnAssign):
            if st.value is not None:
                self.bind(st.target, self.eval(st.value, sc), sc)
            return
        if isinstance(st, ast.AugAssign):
            cur = self.eval(st.target, sc)
            val = self.eval(st.value, sc)
            if isinstance(st.op, ast.BitOr):
                if isinstance(cur, DictS) and isinstance(val, DictS):
                    # d |= other updates the very dict object (every alias sees it), unlike d = d | other
                    for k_, v_ in val.items.items():
                        cur.items[k_] = v_
                        if k_ in val.optional:
                            if k_ not in cur.items:
                                cur.optional.add(k_)
                        else:
                            cur.optional.discard(k_)
                    return
                self.bind(st.target, self.dict_union(cur, val), sc)
                return
            if isinstance(cur, ListLit) and isinstance(st.op, ast.Add) and isinstance(val, (ListLit, TupS)):
                cur.elts.extend(val.elts)  # list += ... extends in place
                return
            res = self.binop(cur, val, st.op)
            self.bind(st.target, res if not isinstance(res, Top) else Top("augmented assignment", deps=res.deps), sc)
            return
        if isinstance(st, ast.Return):
            raise _Return(self.eval(st.value, sc) if st.value is not None else Const(None))
        if isinstance(st, ast.If):
            t = self.truth(self.eval(st.test, sc))
            if t is True:
                self.exec_block(st.body, sc, yields)
            elif t is False:
                self.exec_block(st.orelse, sc, yields)
            else:
                self.branch(st, sc, yields)
            return
        if isinstance(st, ast.Match):
            subject = self.eval(st.subject, sc)
            for case in st.cases:
                binds = {}
                m = self._match_pattern(case.pattern, subject, sc, binds)
                if m is None:
                    raise ShapeError(f"match: whether {short(case.pattern, 40)} matches {subject!r:.40} cannot be decided")
                if not m:
                    continue
                for k_, v_ in binds.items():
                    sc.vars[k_] = v_
                if case.guard is not None:
                    g = self.truth(self.eval(case.guard, sc))
                    if g is None:
                        raise ShapeError(f"match: guard {short(case.guard, 40)} cannot be decided")
                    if not g:
                        continue
                self.exec_block(case.body, sc, yields)
                return
            return
        if isinstance(st, ast.For):
            it = self.eval(st.iter, sc)
            if isinstance(it, ListOf) and not self.strict:
                # a loop over a list of symbolic length: the body is run once on the symbolic element; a list that is empty before
                # the loop and gets exactly one append per iteration becomes the list of that many such elements; anything else a
                # list undergoes in the body is not modelled
                rec = {}
                self._sym_appends = getattr(self, "_sym_appends", [])
                self._sym_appends.append(rec)
                depth0 = self.cond_depth
                try:
                    self.bind(st.target, it.elem, sc)
                    try:
                        self.exec_block(st.body, sc, yields)
                    except _Continue:
                        pass
                    except _Break:
                        raise ShapeError("`break` in a loop over a list of symbolic length")
                finally:
                    self._sym_appends.pop()
                    self.cond_depth = depth0
                for lst, count, before in rec.values():
                    if before == 0 and count == 1 and len(lst.elts) == 1:
                        elem = lst.elts[0]
                        lst.__class__ = ListOf
                        lst.__dict__.clear()
                        lst.__dict__.update(ListOf(elem, it.n, it.maybe_empty).__dict__)
                    else:
                        raise ShapeError(f"a list is appended to {count} time(s) per iteration of a loop over a list of symbolic length (it held {before} element(s) before): not modelled")
                if st.orelse:
                    self.exec_block(st.orelse, sc, yields)
                return
            broke = False
            depth0 = self.cond_depth
            for item in self.iterate(it, st.iter):
                self.bind(st.target, item, sc)
                try:
                    self.exec_block(st.body, sc, yields)
                except _Continue:
                    continue
                except _Break:
                    broke = True
                    break
                finally:
                    self.cond_depth = depth0
            if not broke and st.orelse:
                self.exec_block(st.orelse, sc, yields)
            return
        if isinstance(st, (ast.FunctionDef,)):
            owner = sc.owner
            fi = None
            if isinstance(owner, FuncInfo):
                fi = owner.children.get(st.name)
            v = Fn("repo", func=fi, name=st.name, closure=sc, node=st)
            for d in reversed([d for d in st.decorator_list if not self._neutral_decorator(d)]):
                v = self.call(self.eval(d, sc), [v], {}, d)
            sc.vars[st.name] = v
            return
        if isinstance(st, (ast.With, ast.AsyncWith)) and len(st.items) == 1 and self._contextmanager_call(st.items[0].context_expr, sc) is not None:
            # `with cm(...):` where cm is a generator function of the package under @contextmanager: the statements up to its
            # yield run on entry, the rest on exit (inside `try: yield / finally:` also when the body raises; otherwise only
            # when it does not)
            fi, gsc, pre, post, guarded, yielded = self._contextmanager_call(st.items[0].context_expr, sc)
            handlers = getattr(self, "_cm_handlers", [])
            self.exec_block(pre, gsc, [])
            if st.items[0].optional_vars is not None:
                self.bind(st.items[0].optional_vars, self.eval(yielded, gsc) if yielded is not None else Const(None), sc)
            if guarded:
                try:
                    try:
                        self.exec_block(st.body, sc, yields)
                    except _Raise as ex:
                        # the exception is thrown into the generator at its yield: a matching handler there runs (and may raise
                        # something else); when it ends without raising, the with statement suppresses the exception
                        h = self.matching_handler(handlers, ex, gsc) if handlers else None
                        if h is None:
                            raise
                        if h.name:
                            val = getattr(ex, "value", None)
                            gsc.vars[h.name] = val if isinstance(val, Obj) else Obj("Exception", OrderedDict(args=TupS([Const(ex.what)]), classes=Const(ex.classes)))
                        self.exec_block(h.body, gsc, [])
                finally:
                    self.exec_block(post, gsc, [])
            else:
                self.exec_block(st.body, sc, yields)
                self.exec_block(post, gsc, [])
            return
        if isinstance(st, (ast.With, ast.AsyncWith)):
            entered = []
            for it in st.items:
                cm = self.eval(it.context_expr, sc)
                val = cm
                if self.strict and isinstance(cm, (Choice, Top)):
                    raise ShapeError(f"`with {short(it.context_expr, 40)}`: which context manager is entered cannot be decided ({cm!r:.60})")
                if isinstance(cm, Obj):
                    ent = cm.fields.get("__enter__") or (self.getattr(cm, "__enter__") if getattr(cm, "klass", None) is not None and self.find_class_attr(cm.klass[0], cm.klass[1], "__enter__") else None)
                    if ent is not None:
                        val = self.call(ent, [], {}, st)
                entered.append(cm)
                if it.optional_vars is not None:
                    self.bind(it.optional_vars, val, sc)
            try:
                self.exec_block(st.body, sc, yields)
            finally:
                for cm in reversed(entered):
                    if isinstance(cm, Obj) and "__exit__" in cm.fields:
                        self.call(cm.fields["__exit__"], [Const(None), Const(None), Const(None)], {}, st)
            return
        if isinstance(st, ast.While):
            n = 0
            while True:
                t = self.truth(self.eval(st.test, sc))
                if t is None:
                    raise ShapeError(f"while loop on a condition of unknown truth: {short(st.test, 50)}")
                if not t:
                    self.exec_block(st.orelse, sc, yields)
                    break
                n += 1
                if n > self.max_loop:
                    raise NonTermination(f"`while {short(st.test, 40)}` is still running after {self.max_loop} iterations")
                try:
                    self.exec_block(st.body, sc, yields)
                except _Continue:
                    continue
                except _Break:
                    break
            return
        if isinstance(st, ast.Break):
            raise _Break()
        if isinstance(st, ast.Continue):
            raise _Continue()
        if isinstance(st, ast.Pass):
            return
        if isinstance(st, ast.Raise):
            classes = self.exception_classes(st.exc, sc)
            ex = _Raise(short(st, 50), classes)
            ex.value = self.exception_value(st.exc, sc, classes)
            raise ex
        if isinstance(st, (ast.Import, ast.ImportFrom)):
            return
        if isinstance(st, ast.Try):
            # shapes are inferred for the path on which the body completes (well-formed input); a body that
            # certainly raises is decided by its handlers
            self.assumptions.add("try statements: shapes follow the path on which the protected block does not raise")
            try:
                self.exec_block(st.body, sc, yields)
            except _Raise as ex:
                h = self.matching_handler(st.handlers, ex, sc)
                if h is None:
                    raise
                if h.name:
                    val = getattr(ex, "value", None)
                    sc.vars[h.name] = val if isinstance(val, Obj) else Obj("Exception", OrderedDict(args=TupS([Const(ex.what)]), classes=Const(ex.classes)))
                self.exec_block(h.body, sc, yields)
            else:
                self.exec_block(st.orelse, sc, yields)
            finally:
                if st.finalbody:
                    self.exec_block(st.finalbody, sc, yields)
            return
        raise ShapeError(f"statement outside the modelled fragment: {short(st, 60)}")

    def _match_pattern(self, pat, subject, sc, binds):
        """structural pattern matching on a model value -> True / False / None (undecided); captures go to ``binds``"""
        from .shapes_lib import isinstance_rule
        if isinstance(pat, ast.MatchAs):
            if pat.pattern is not None:
                m = self._match_pattern(pat.pattern, subject, sc, binds)
                if m is not True:
                    return m
            if pat.name is not None:
                binds[pat.name] = subject
            return True
        if isinstance(pat, ast.MatchOr):
            res = [self._match_pattern(p, subject, sc, binds) for p in pat.patterns]
            if any(r is True for r in res):
                return True
            return None if any(r is None for r in res) else False
        if isinstance(pat, ast.MatchSingleton):
            if isinstance(subject, Const):
                return subject.v is pat.value
            return False if isinstance(subject, (DictS, ListLit, TupS, Obj, SetS)) else None
        if isinstance(pat, ast.MatchValue):
            v = self.eval(pat.value, sc)
            if isinstance(v, Const) and isinstance(subject, Const):
                return bool(subject.v == v.v)
            return False if isinstance(subject, (DictS, ListLit, TupS, Obj, SetS)) and isinstance(v, Const) else None
        if isinstance(pat, ast.MatchClass):
            r = isinstance_rule(self, subject, self.eval(pat.cls, sc))
            if not isinstance(r, Const):
                return None
            if not r.v:
                return False
            if pat.patterns:
                return None  # positional sub-patterns (__match_args__) are not modelled
            for name, p in zip(pat.kwd_attrs, pat.kwd_patterns):
                try:
                    attr = self.getattr(subject, name)
                except _Raise:
                    return False
                m = self._match_pattern(p, attr, sc, binds)
                if m is not True:
                    return m
            return True
        return None

    def exception_value(self, exc, sc, classes):
        """the exception object a raise statement creates, as far as it can be evaluated (args of builtin exception classes,
        objects built by stubs, re-raised handler variables)"""
        if exc is None:
            return None
        try:
            if isinstance(exc, ast.Call):
                f = exc.func
                name = f.id if isinstance(f, ast.Name) else f.attr if isinstance(f, ast.Attribute) else None
                bound = sc.lookup(name) if isinstance(f, ast.Name) else None
                if isinstance(bound, Fn) and bound.kind == "py":
                    return self.eval(exc, sc)
                if isinstance(f, ast.Name):
                    try:
                        fv = self.lookup(f.id, sc)
                    except (ShapeError, _Raise):
                        fv = None
                    if isinstance(fv, Fn) and fv.kind in ("repo", "lambda", "partial"):
                        # `raise helper(...)`: the exception object is what the package's helper builds
                        v = self.eval(exc, sc)
                        return v if isinstance(v, Obj) else None
                args = [self.eval(a, sc) for a in exc.args if not isinstance(a, ast.Starred)]
                return Obj("Exception", OrderedDict(args=TupS(args), classes=Const(tuple(classes) if classes else None)))
            v = self.eval(exc, sc)
            return v if isinstance(v, Obj) else None
        except ShapeError:
            return None  # (an exception raised while the arguments are evaluated is what the statement raises: it propagates)

    def exception_classes(self, exc, sc):
        """names of the class an expression raises, with its bases (builtins by their MRO, repo classes by their base list)"""
        if exc is None:
            return None
        e = exc.func if isinstance(exc, ast.Call) else exc
        if isinstance(e, ast.Name):
            v = sc.lookup(e.id)
            if isinstance(v, Obj) and v.cls == "Exception" and isinstance(v.fields.get("classes"), Const):
                return v.fields["classes"].v  # re-raise of a caught exception object
        name = e.id if isinstance(e, ast.Name) else e.attr if isinstance(e, ast.Attribute) else None
        if name is None:
            return None
        import builtins
        b = getattr(builtins, name, None)
        if isinstance(b, type) and issubclass(b, BaseException):
            return [c.__name__ for c in b.__mro__]
        owner = sc
        while owner.parent is not None:
            owner = owner.parent
        mod = owner.owner.module if isinstance(owner.owner, FuncInfo) else owner.owner
        out, todo, seen = [], [(mod, e)], 0
        while todo and seen < 12:
            m, x = todo.pop(0)
            seen += 1
            try:
                r = self.repo.resolve_expr(m, x)
            except Exception:
                break
            if r.kind == "class":
                out.append(r.node.name)
                todo += [(r.mod, bb) for bb in r.node.bases]
            elif r.kind == "external":
                nm = r.fq.split(".")[-1]
                bb = getattr(builtins, nm, None)
                out += [c.__name__ for c in bb.__mro__] if isinstance(bb, type) else [nm]
        return out or [name]

    def matching_handler(self, handlers, ex, sc):
        if not handlers:
            return None
        if ex.classes is None:
            return handlers[0]  # class unknown: the first handler is taken (shape inference only follows well-formed paths)
        for h in handlers:
            if h.type is None:
                return h
            types = h.type.elts if isinstance(h.type, ast.Tuple) else [h.type]
            for t in types:
                nm = t.id if isinstance(t, ast.Name) else t.attr if isinstance(t, ast.Attribute) else None
                if nm in ex.classes or nm in ("Exception", "BaseException"):
                    return h
        return None

    def branch(self, st, sc, yields):
        """data-dependent if: run both arms on copies and join the results"""
        outcomes = []
        for i_arm, arm in enumerate((st.body, st.orelse)):
            s2 = sc.child()
            self.cond_depth += 1
            try:
                self.exec_block(arm, s2, yields)
                outcomes.append(("fall", s2.vars))
            except _Return as r:
                outcomes.append(("ret", r.v))
            except _Continue:
                outcomes.append(("continue", None))
            except _Break:
                raise ShapeError(f"`break` under a condition that cannot be decided ({short(st.test, 50)}): whether the loop goes on is not known")
            except _Raise as ex:
                outcomes.append(("raise", None))
                # a raise guarded by a data-dependent test: kept for rules that ask on which inputs it fires
                owner = sc.owner
                s_ = sc
                while s_ is not None:
                    owner = s_.owner
                    if isinstance(owner, FuncInfo):
                        break
                    s_ = s_.parent
                self.cond_raises.append({"test": st.test, "scope": sc, "when": i_arm == 0, "where": owner, "what": ex.what})
            finally:
                self.cond_depth -= 1
        rets = [o[1] for o in outcomes if o[0] == "ret"]
        falls = [o[1] for o in outcomes if o[0] == "fall"]
        conts = [o for o in outcomes if o[0] == "continue"]
        if conts and not falls and not rets:
            raise _Continue()
        if conts and falls:
            # one arm goes on to the next iteration, the other falls through: the rest of this iteration runs conditionally (the
            # enclosing loop restores the depth when the iteration ends)
            self.cond_depth += 1
        if rets and not falls:
            if len(rets) > 1 and all(isinstance(r, Const) and type(r.v) is type(rets[0].v) and r.v == rets[0].v and r.v == r.v for r in rets):
                rets = rets[:1]  # both arms give the same constant
            raise _Return(Choice(rets) if len(rets) > 1 else rets[0])
        if rets and falls:
            # one arm returns, the other continues: remember the early result
            sc.vars.setdefault("__early_returns__", ListLit([])).elts.extend(rets)
        names = set().union(*[set(f) for f in falls]) if falls else set()
        for n in names:
            vals = [f[n] for f in falls if n in f]
            old = sc.lookup(n)
            if len(vals) < len(falls) and old is not None:
                vals.append(old)
            sc.vars[n] = vals[0] if len(vals) == 1 else Choice(vals)
        if not falls and not rets:
            raise _Raise("both arms raise")

    # ------------------------------------------------------------- calls
    def call(self, f, args, kwargs, node=None):
        self.depth += 1
        try:
            if self.depth > self.max_depth:
                raise ShapeError("recursion too deep")
            return self._call(f, args, kwargs, node)
        finally:
            self.depth -= 1

    def is_callable(self, v):
        return isinstance(v, Fn) or (isinstance(v, Obj) and ("__call__" in v.fields or (getattr(v, "klass", None) is not None and self.find_class_attr(v.klass[0], v.klass[1], "__call__") is not None)))

    def _call(self, f, args, kwargs, node):
        if isinstance(f, Choice):
            return Choice([self.call(a, args, kwargs, node) for a in f.alts])
        if isinstance(f, Obj) and ("__call__" in f.fields or (getattr(f, "klass", None) is not None and self.find_class_attr(f.klass[0], f.klass[1], "__call__") is not None)):
            return self.call(self.getattr(f, "__call__", node), args, kwargs, node)  # an instance of a class of the package that defines __call__
        if not isinstance(f, Fn):
            return Top(f"call of {type(f).__name__}: {short(node, 40) if node is not None else ''}")
        k = f.kind
        if k == "const":
            return f.value
        if k == "py":
            return f.impl(self, args, kwargs)
        if k == "partial":
            a2 = list(f.args) + list(args)
            kw = OrderedDict(f.kwargs)
            kw.update(kwargs)
            return self.call(f.fn, a2, kw, node)
        if k == "compose":
            if not f.fns:
                return args[0]
            v = self.call(f.fns[0], args, kwargs, node)
            for g in f.fns[1:]:
                v = self.call(g, [v], {}, node)
            return v
        if k in ("lambda", "repo", "lib", "method") and not (k == "lib" and f.name in ("curry", "pipe", "compose_left", "compose", "identity", "builtins.isinstance", "builtins.len", "builtins.bool")):
            for i, a in enumerate(args):
                if isinstance(a, Choice) and not all(isinstance(x, Const) for x in a.alts):
                    outs, labs = [], []
                    for alt, lab in zip(a.alts, a.labels):
                        try:
                            outs.append(self.call(f, list(args[:i]) + [alt] + list(args[i + 1:]), kwargs, node))
                            labs.append(lab)
                        except _Raise:
                            continue
                    if not outs:
                        raise _Raise("every alternative raises")
                    return outs[0] if len(outs) == 1 else Choice(outs, labs)
        if k == "lambda":
            sc = f.scope.child(owner=f.func if f.func is not None else f.scope.owner)
            self.bind_params(f.node.args, args, kwargs, sc, "<lambda>")
            return self.eval(f.node.body, sc)
        if k == "repo":
            return self.call_repo(f, args, kwargs, node)
        if k == "classctor":
            return self.construct(f, args, kwargs, node)
        if k == "method":
            return self.call_method(f.recv, f.name, args, kwargs, node)
        if k == "lib":
            from .shapes_lib import call_lib
            return call_lib(self, f.name, args, kwargs, node)
        return Top(f"call of Fn {k}")

    def bind_params(self, a, args, kwargs, sc, fname):
        pos = [x.arg for x in a.posonlyargs + a.args]
        defaults = [None] * (len(pos) - len(a.defaults)) + list(a.defaults)
        args = list(args)
        kwargs = OrderedDict(kwargs)
        for i, p in enumerate(pos):
            if i < len(args):
                sc.vars[p] = args[i]
            elif p in kwargs:
                sc.vars[p] = kwargs.pop(p)
            elif defaults[i] is not None:
                sc.vars[p] = self.eval(defaults[i], sc.parent or sc)
            else:
                raise _Raise(f"missing argument {p} for {fname}")
        if len(args) > len(pos):
            if a.vararg:
                sc.vars[a.vararg.arg] = TupS(args[len(pos):])
            else:
                raise _Raise(f"too many arguments for {fname}")
        elif a.vararg:
            sc.vars[a.vararg.arg] = TupS([])
        for p, d in zip(a.kwonlyargs, a.kw_defaults):
            if p.arg in kwargs:
                sc.vars[p.arg] = kwargs.pop(p.arg)
            elif d is not None:
                sc.vars[p.arg] = self.eval(d, sc.parent or sc)
            else:
                raise _Raise(f"missing keyword {p.arg} for {fname}")
        if kwargs:
            if a.kwarg:
                sc.vars[a.kwarg.arg] = DictS(kwargs)
            else:
                raise _Raise(f"unexpected keyword {list(kwargs)} for {fname}")
        elif a.kwarg:
            sc.vars[a.kwarg.arg] = DictS()

    def call_repo(self, f, args, kwargs, node):
        fi = f.func
        fnode = fi.node if fi is not None else f.node
        closure = getattr(f, "closure", None)
        if closure is not None:
            sc = closure.child(owner=fi if fi is not None else closure.owner)
        else:
            sc = self.module_scope(fi.module).child(owner=fi)
        if getattr(f, "bound", None) is not None:
            args = [f.bound] + list(args)
        self.bind_params(fnode.args, args, kwargs, sc, fi.qualname if fi else "<fn>")
        yields = []
        is_gen = any(isinstance(n, (ast.Yield, ast.YieldFrom)) for n in ast.walk(fnode) if n is not fnode) and not any(
            isinstance(n, (ast.FunctionDef, ast.Lambda)) and any(isinstance(m, (ast.Yield, ast.YieldFrom)) for m in ast.walk(n)) for n in ast.iter_child_nodes(fnode) if False)
        try:
            self.exec_block(fnode.body, sc, yields)
            ret = Const(None)
        except _Return as r:
            ret = r.v
        early = sc.vars.get("__early_returns__")
        if early is not None and early.elts:
            alts = early.elts + [ret]
            if all(isinstance(r, Const) and type(r.v) is type(alts[0].v) and r.v == alts[0].v and r.v == r.v for r in alts):
                ret = alts[0]  # every way out gives the same constant
            else:
                ret = Choice(alts)
        if is_gen and self._is_generator(fnode):
            return ListLit(yields)
        return ret

    def _contextmanager_call(self, e, sc):
        """(function, its activation scope, statements before the yield, statements after it, after-part is in a finally?, yielded
        expression) when ``e`` calls a generator function of the package decorated with contextlib.contextmanager whose body has one
        yield at statement level (possibly as the only statement of a try ... finally); None otherwise"""
        if not isinstance(e, ast.Call):
            return None
        try:
            f = self.eval(e.func, sc)
        except (ShapeError, _Raise):
            return None
        if not (isinstance(f, Fn) and f.kind == "repo" and f.func is not None and isinstance(f.func.node, ast.FunctionDef)):
            return None
        fnode = f.func.node
        if not any(norm(d).split(".")[-1] == "contextmanager" for d in fnode.decorator_list) or not self._is_generator(fnode):
            return None
        body = [s_ for s_ in fnode.body if not (isinstance(s_, ast.Expr) and isinstance(s_.value, ast.Constant))]

        def is_yield(s_):
            return isinstance(s_, ast.Expr) and isinstance(s_.value, ast.Yield)
        def is_with_yield(s_):
            return isinstance(s_, ast.With) and len(s_.items) == 1 and len(s_.body) == 1 and is_yield(s_.body[0])
        idx = [i for i, s_ in enumerate(body) if is_yield(s_) or is_with_yield(s_) or (isinstance(s_, ast.Try) and len(s_.body) == 1 and is_yield(s_.body[0]) and not s_.orelse)]
        n_yields = sum(1 for n_ in ast.walk(fnode) if isinstance(n_, (ast.Yield, ast.YieldFrom)))
        if len(idx) != 1 or n_yields != 1:
            raise ShapeError(f"context manager {f.func.qualname}: not of the form <setup>; yield; <teardown> (or try: yield / except / finally, or with <cm> as x: yield x)")
        i = idx[0]
        st_y = body[i]
        self._cm_handlers = []
        if is_with_yield(st_y):
            # `with X as v: yield v`: entering X is the setup, leaving it the (guaranteed) teardown
            item = st_y.items[0]
            cm_name = "__cm_of_with__"
            setup = [ast.Assign(targets=[ast.Name(id=cm_name, ctx=ast.Store())], value=item.context_expr)]
            enter = ast.Call(func=ast.Attribute(value=ast.Name(id=cm_name, ctx=ast.Load()), attr="__enter__", ctx=ast.Load()), args=[], keywords=[])
            if item.optional_vars is not None:
                setup.append(ast.Assign(targets=[item.optional_vars], value=enter))
            else:
                setup.append(ast.Expr(value=enter))
            leave = ast.Expr(value=ast.Call(func=ast.Attribute(value=ast.Name(id=cm_name, ctx=ast.Load()), attr="__exit__", ctx=ast.Load()), args=[ast.Constant(None), ast.Constant(None), ast.Constant(None)], keywords=[]))
            for n_ in setup + [leave]:
                ast.copy_location(n_, st_y)
                ast.fix_missing_locations(n_)
            args, kwargs = self._elts(e.args, sc), OrderedDict((k.arg, self.eval(k.value, sc)) for k in e.keywords if k.arg)
            gsc = self.module_scope(f.func.module).child(owner=f.func)
            self.bind_params(fnode.args, args, kwargs, gsc, f.func.qualname)
            return f.func, gsc, body[:i] + setup, [leave] + body[i + 1:], True, st_y.body[0].value.value
        guarded = isinstance(st_y, ast.Try)
        if guarded:
            self._cm_handlers = list(st_y.handlers)
        yexpr = (st_y.body[0] if guarded else st_y).value.value
        post = (list(st_y.finalbody) if guarded else []) + body[i + 1:]
        args, kwargs = self._elts(e.args, sc), OrderedDict((k.arg, self.eval(k.value, sc)) for k in e.keywords if k.arg)
        gsc = self.module_scope(f.func.module).child(owner=f.func)
        self.bind_params(fnode.args, args, kwargs, gsc, f.func.qualname)
        return f.func, gsc, body[:i], post, guarded, yexpr

    @staticmethod
    def _is_generator(fnode):
        for n in ast.walk(fnode):
            if isinstance(n, (ast.Yield, ast.YieldFrom)):
                # belongs to fnode itself (not a nested def)?
                p = getattr(n, "_parent", None)
                while p is not None and not isinstance(p, (ast.FunctionDef, ast.Lambda)):
                    p = getattr(p, "_parent", None)
                if p is fnode:
                    return True
        return False

    def construct(self, f, args, kwargs, node):
        name = f.name
        if name in ("Group", "Variable") and not getattr(self, "real_hierarchy", False):
            fields = ["path", "url", "data", "attrs"] if name == "Group" else ["dims", "data", "attrs"]
            vals = OrderedDict()
            for i, a in enumerate(args):
                vals[fields[i]] = a
            for k, v in kwargs.items():
                vals[k] = v
            for fl in fields:
                if fl not in vals:
                    raise _Raise(f"{name}() missing {fl}")
            obj = Obj(name, vals)
            if name == "Group":
                data = vals["data"]
                if isinstance(data, DictS):
                    obj.fields["data"] = data.copy()
                if isinstance(vals["path"], Const) and vals["path"].v is None:
                    obj.fields["path"] = Const("/")
            if name == "Variable" and isinstance(vals["dims"], Const) and isinstance(vals["dims"].v, str):
                obj.fields["dims"] = ListLit([vals["dims"]])
            return obj
        cls, mod = getattr(f, "cls", None), getattr(f, "mod", None)
        if cls is None or mod is None:
            return Obj(name, dict(kwargs))
        obj = Obj(name, OrderedDict(), klass=(mod, cls))
        is_dc = any("dataclass" in norm(d) for d in cls.decorator_list)
        if is_dc:
            names, defaults, noinit = [], {}, set()
            for st in cls.body:
                if isinstance(st, ast.AnnAssign) and isinstance(st.target, ast.Name):
                    nm = st.target.id
                    init = True
                    if isinstance(st.value, ast.Call) and norm(st.value.func).split(".")[-1] == "field":
                        for k in st.value.keywords:
                            if k.arg == "init" and isinstance(k.value, ast.Constant) and k.value.value is False:
                                init = False
                            if k.arg == "default":
                                defaults[nm] = k.value
                            if k.arg == "default_factory":
                                defaults[nm] = ast.Call(func=k.value, args=[], keywords=[])
                    elif st.value is not None:
                        defaults[nm] = st.value
                    if init:
                        names.append(nm)
                    else:
                        noinit.add(nm)
            if len(args) > len(names):
                raise _Raise(f"{name}() takes {len(names)} positional arguments")
            vals = dict(zip(names, args))
            for k, v in kwargs.items():
                if k not in names or k in vals:
                    raise _Raise(f"{name}() got an unexpected / repeated keyword {k}")
                vals[k] = v
            msc = self.module_scope(mod)
            for nm in names:
                if nm not in vals:
                    if nm not in defaults:
                        raise _Raise(f"{name}() missing {nm}")
                    vals[nm] = self.eval(defaults[nm], msc)
                obj.fields[nm] = vals[nm]
            for nm in noinit:
                if nm in defaults:
                    obj.fields[nm] = self.eval(defaults[nm], msc)
            if self.find_class_attr(mod, cls, "__post_init__") is not None:
                self.call(self.getattr(obj, "__post_init__"), [], {}, node)
            return obj
        if self.find_class_attr(mod, cls, "__init__") is not None:
            self.call(self.getattr(obj, "__init__"), list(args), dict(kwargs), node)
            return obj
        obj.fields.update(kwargs)
        return obj

    def call_method(self, recv, name, args, kwargs, node):
        from .shapes_lib import call_method
        return call_method(self, recv, name, args, kwargs, node)
