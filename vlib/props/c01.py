"""C01 -- pixel fidelity (structural links of the header -> bytes -> array chain)"""
from __future__ import annotations

import ast

from .. import dtypes
from ..core import AnalysisError, const_str, norm, short
from ..dataflow import Flow, calls_in
from ..interproc import dataclass_fields, resolve_callees, single_return
from ..poly import Poly, lift
from ..records import Layouts
from ..symexpr import Canon, Undecidable, show, show_paths, summarize, summarize_source

LEVEL = "other"

ARRAY = "ceos_alos2.array"
IMG_IO = "ceos_alos2.sar_image.io"
IMG_MD = "ceos_alos2.sar_image.metadata"

BIT_PRESERVING_METHODS = {"view", "astype", "copy", "reshape", "byteswap", "newbyteorder", "ravel", "squeeze", "flatten", "tobytes", "transpose"}
BIT_PRESERVING_FUNCS = {"numpy.ascontiguousarray", "numpy.asarray", "numpy.array", "numpy.frombuffer", "numpy.reshape", "numpy.copy", "numpy.squeeze"}

# specifications of the small pure helpers, written as Python and normalised by the same machinery
SPECS = {
    "to_offset_size": "def f(ranges):\n    return {i: {'offset': a, 'size': b - a} for i, (a, b) in ranges.items()}",
    "relocate_ranges": "def f(chunk_info, ranges):\n    return chunk_info, [(a - chunk_info['offset'], b - chunk_info['offset']) for a, b in ranges]",
    "extract_ranges": "def f(content, ranges):\n    return [content[a:b] for a, b in ranges]",
    "merge_chunk_info": "def f(selected, chunk_offsets):\n    return [(chunk_offsets[i], r) for i, r in selected.items()]",
    "compute_chunk_offsets": "def f(byte_ranges, chunks):\n    return to_offset_size(compute_chunk_ranges(byte_ranges, chunks))",
    "compute_chunk_ranges": "def f(byte_ranges, chunks):\n    return {n: (min(map(first, r)), max(map(second, r))) for n, r in enumerate(partition_all(chunks, byte_ranges))}",
    "groupby_chunks": "def f(byte_ranges, chunksize):\n    grouped = groupby(lambda it: it[0] // chunksize, byte_ranges)\n    return {k: [v for _, v in r] for k, r in grouped.items()}",
    "compute_selected_ranges": """def f(byte_ranges, indexer):
    n_rows = len(byte_ranges)
    if isinstance(indexer, int):
        indexer = [indexer]
    if isinstance(indexer, slice):
        selected_rows = range(n_rows)[indexer]
    else:
        selected_rows = indexer
    return list(get(list(selected_rows), list(enumerate(byte_ranges))))""",
}
IO_SPECS = {
    "adjust_offsets": "def f(records, offset):\n    return [_adjust_offset(r, offset) for r in records]",
    "read_file_descriptor": "def f(f_):\n    return file_descriptor_record.parse(f_.read(720))",
}
CHUNKSIZES_SPEC = "lambda records_per_chunk, n_records, n_chunks: [records_per_chunk if records_per_chunk * (index + 1) <= n_records else n_records - records_per_chunk * index for index in range(n_chunks)]"
NCHUNKS_SPEC = "lambda records_per_chunk, n_records: math.ceil(n_records / records_per_chunk)"


_BR = [(100 * i + 720, 100 * i + 800) for i in range(7)]
_BR2 = [(0, 10), (10, 30), (30, 35), (35, 80), (80, 81)]


def _py_selected(byte_ranges, indexer):
    if isinstance(indexer, int):
        rows = [indexer]
    elif isinstance(indexer, slice):
        rows = list(range(len(byte_ranges))[indexer])
    else:
        rows = list(indexer)
    pairs = list(enumerate(byte_ranges))
    return [pairs[r] for r in rows]


def _py_groupby(byte_ranges, chunksize):
    out = {}
    for i, r in byte_ranges:
        out.setdefault(i // chunksize, []).append(r)
    return out


def _py_chunk_ranges(byte_ranges, chunks):
    parts = [byte_ranges[i:i + chunks] for i in range(0, len(byte_ranges), chunks)]
    return {n: (min(a for a, _ in p), max(b for _, b in p)) for n, p in enumerate(parts)}


# python specifications and representatives (one per class of indexer / ordering of sizes) of the parametric helpers
REPRESENTATIVES = {
    "compute_selected_ranges": (_py_selected, [(b, i) for b in (_BR, _BR2) for i in (0, 3, 4, -1, 9, slice(None), slice(1, 4), slice(0, 5, 2), slice(4, 1, -1), slice(None, None, -1),
                                                                                     slice(2, 2), slice(3, 100), slice(-3, None), [4, 1], [], [0, 0], [2, 3, 4])]),
    "groupby_chunks": (_py_groupby, [(_py_selected(_BR, s), c) for s in (slice(None), slice(1, 6), [0, 6], [5], []) for c in (1, 2, 3, 7, 10)]),
    "compute_chunk_ranges": (_py_chunk_ranges, [(b, c) for b in (_BR, _BR2, _BR[:1]) for c in (1, 2, 3, 5, 7, 8)]),
    "compute_chunk_offsets": (lambda b, c: {n: {"offset": lo, "size": hi - lo} for n, (lo, hi) in _py_chunk_ranges(b, c).items()}, [(b, c) for b in (_BR, _BR2) for c in (1, 2, 3, 7, 8)]),
    "to_offset_size": (lambda r: {i: {"offset": a, "size": b - a} for i, (a, b) in r.items()}, [({0: (720, 1000), 1: (1020, 1300)},), ({},), ({3: (5, 5)},)]),
    "relocate_ranges": (lambda ci, rs: (ci, [(a - ci["offset"], b - ci["offset"]) for a, b in rs]), [({"offset": 720, "size": 300}, [(820, 900), (920, 1000)]), ({"offset": 0, "size": 1}, []), ({"offset": 5, "size": 9}, [(5, 14)])]),
    "extract_ranges": (lambda c, rs: [c[a:b] for a, b in rs], [(b"0123456789", [(1, 3), (4, 8)]), (b"0123456789", []), (b"0123456789", [(0, 10), (9, 10), (3, 3)])]),
    "merge_chunk_info": (lambda sel, co: [(co[i], r) for i, r in sel.items()], [({0: [(1, 2)], 2: [(3, 4)]}, {0: {"offset": 1, "size": 2}, 1: {"offset": 9, "size": 9}, 2: {"offset": 3, "size": 2}}), ({}, {0: {"offset": 1, "size": 2}})]),
}


def decide_on_representatives(repo, fi, name):
    """-> (True, n) | (False, text); raises AnalysisError when the interpreter cannot fold"""
    from .. import repeval
    if name not in REPRESENTATIVES:
        return None
    spec, cases = REPRESENTATIVES[name]
    verdict, info = repeval.agree(repo, fi, spec, cases)
    if verdict == "equal":
        return True, info
    args, got, want = info
    return False, f"{name}{tuple(args)!r:.120} gives {got!r:.160}, the specification {want!r:.160}"


def load_interrupted(chk, repo):
    """C01-R13: a load during which one request fails raises or returns exactly the selected lines (vlib/loadmodel.py with a failing
    request injected)"""
    from .load_rules import fault_rules
    fault_rules(chk, repo, "C01-R13")


def load_rows(chk, repo):
    """C01-R10: a pixel load evaluated on model images (vlib/loadmodel.py): every output row is decoded from exactly the sample
    bytes of its own line, for every selection, line count and records_per_chunk of the grid"""
    from .load_rules import load_rules
    load_rules(chk, repo, "C01-R10", ("rows", "confined"),
               "model loads: each output row is decoded from the sample bytes [data.start, data.stop) of its own line (requests inside the file, rows cut out at their own offsets)",
               thorough=chk.tier == "thorough")


def trace_positions(chk, repo):
    """C01-R9: the metadata pass evaluated on model image files (vlib/tracemodel.py): the byte ranges that come back are the
    lines' own absolute file positions, for every line count and records_per_chunk of the grid"""
    from .trace_rules import intact_rules
    intact_rules(chk, repo, "C01-R9", ("descriptor", "positions"),
                 "metadata pass on model files: the descriptor is the first 720 bytes and every line record comes back with its absolute file positions", thorough=chk.tier == "thorough")


def normal_form_equal(fi, spec_src):
    try:
        p1, got = summarize(fi.node)
        p2, want = summarize_source(spec_src)
    except Undecidable as e:
        raise AnalysisError(f"{fi.key} is outside the decidable fragment: {e}")
    from ..symexpr import compare_paths
    verdict = compare_paths(got, want)
    if verdict == "incomparable":
        raise AnalysisError(
            f"{fi.key}: normal form {show_paths(got)[:200]} has a different shape than the specification "
            f"{show_paths(want)[:200]}; equivalence is outside what normalisation decides")
    return verdict == "equal", show_paths(got), show_paths(want)


def open_array(chk, repo):
    """C01-R11: pixel array wiring (vlib/openmodel.py)"""
    from .open_rules import open_rules
    open_rules(chk, repo, "C01-R11", ('array', 'open-args', 'shape'), "open_image wires the pixel array to this image on the live filesystem with the parsed byte ranges and the header's shape")


def run(chk, repo):
    L = Layouts(repo)
    chk.explanation = (
        "Decides the links of the pixel chain whose correctness is shape, not run-time arithmetic: decode tables "
        "(big-endian, sizes, component order) agree with the advertised dtypes; decoded values flow to the caller only "
        "through bit-preserving operations; the sample area of both line records is framed by Tell at the end of the "
        "fixed prefix (544/192) and Seek(record_start + record_length); every position-valued field is rebased "
        "exactly once by the chunk offset; chunk offsets are acc*record_size + <descriptor size> with the descriptor "
        "size computed from the layout; shape/type/byte ranges are wired to the right header fields; the chunk size "
        "that keys the offsets table is the one that keys row grouping; the small range helpers equal their "
        "specifications in normal form. Does NOT decide chunk partition arithmetic over run-time sizes or NumPy's decode."
    )
    chk.trusted = ["numpy views/astype between equal-kind dtypes preserve values bit for bit", "model of construct primitives (vlib/layout.py)"]
    chk.rule("C01-R1", "decode table == advertised dtype table (keys, big-endian, item sizes, component order)", 6)
    chk.rule("C01-R2", "decoded samples reach the caller only through bit-preserving operations", 2)
    chk.rule("C01-R3", "sample area framing of both line records (Tell at end of prefix, Seek(record_start + record_length))", 8)
    chk.rule("C01-R4", "every position-valued record field is rebased by the chunk offset exactly once", 3)
    chk.rule("C01-R5", "chunk offsets = running record count * record size + size of the file descriptor", 4)
    chk.rule("C01-R6", "shape, type code, record count/length and byte ranges are wired to the right header/record fields, which sit at their reference offsets and widths", 12)
    chk.rule("C01-R7", "one chunk size keys both the offsets table and the row grouping", 4)
    chk.rule("C01-R8", "range helpers equal their specification (normal form)", 6)
    chk.attempt(r1, chk, repo)
    chk.attempt(r2, chk, repo)
    chk.attempt(r3, chk, repo, L)
    chk.attempt(trace_positions, chk, repo)
    chk.attempt(r4, chk, repo, L, covered_by="trace_positions", rules=("C01-R4",))
    chk.attempt(r5, chk, repo, L, covered_by="trace_positions", rules=("C01-R5",))
    chk.attempt(r6, chk, repo, L)
    chk.attempt(r6_read_metadata, chk, repo, L, covered_by="trace_positions", rules=("C01-R6",))
    chk.attempt(open_array, chk, repo)
    chk.attempt(r6_wiring, chk, repo, L, covered_by="open_array", rules=("C01-R6",))
    chk.attempt(load_rows, chk, repo)
    chk.attempt(load_interrupted, chk, repo)
    chk.attempt(r7, chk, repo, covered_by="load_rows", rules=("C01-R7",))
    chk.attempt(r8, chk, repo, covered_by="load_rows", rules=("C01-R8",))
    chk.count("functions", 20)


# ---------------------------------------------------------------------------
def _table(mod, name):
    from ..interproc import dict_entries
    e = mod.assigns.get(name)
    got = dict_entries(mod.repo, mod, e[-1]) if e else None
    if not got:
        raise AnalysisError(f"anchor vanished: table {mod.name}:{name}")
    return got


def r1(chk, repo):
    am = repo.module(ARRAY)
    mm = repo.module(IMG_MD)
    raw = {k: dtypes.parse_expr(v) for k, v in _table(am, "raw_dtypes").items()}
    adv = {k: dtypes.parse_expr(v) for k, v in _table(mm, "dtypes").items()}
    where = f"{am.relpath}:raw_dtypes / {mm.relpath}:dtypes"
    chk.require(set(raw) == set(adv) and set(raw) >= {"C*8", "IU2"}, "C01-R1", where, f"both tables cover {sorted(raw)}",
                f"decode table covers {sorted(raw)}, advertised table {sorted(adv)}", key="tables:keys")
    for k in sorted(set(raw) & set(adv)):
        r, a = raw[k], adv[k]
        chk.require(dtypes.big_endian(r), "C01-R1", f"{am.relpath}:raw_dtypes[{k!r}]", f"{r['text']}: every multi-byte component is big-endian",
                    f"{r['text']} is not explicitly big-endian: samples are byte-swapped on little-endian hosts", key=f"raw:{k}:endian",
                    sample={"type": k, "raw": r["text"], "advertised": a["text"]})
        chk.require(r["itemsize"] == a["itemsize"], "C01-R1", where, f"{k}: item size {r['itemsize']} on both sides",
                    f"{k}: raw item size {r['itemsize']} vs advertised {a['itemsize']}", key=f"raw:{k}:itemsize")
        if a["kind"] == "c":
            f = r["fields"] or []
            ok = len(f) == 2 and f[0]["name"] == "real" and f[1]["name"] == "imag" and f[0]["offset"] == 0 and f[1]["offset"] == a["itemsize"] // 2 \
                and f[0]["kind"] == "f" and f[1]["kind"] == "f" and f[0]["itemsize"] == f[1]["itemsize"] == a["itemsize"] // 2
            chk.require(ok, "C01-R1", f"{am.relpath}:raw_dtypes[{k!r}]", "complex sample = (real @0, imag @4), two big-endian floats",
                        f"complex sample layout is {[(x['name'], x['offset'], x['text']) for x in f]}: real and imaginary parts are swapped or mis-sized", key=f"raw:{k}:components")
        else:
            chk.require(r["fields"] is None and r["kind"] == a["kind"], "C01-R1", f"{am.relpath}:raw_dtypes[{k!r}]", f"{k}: kind {r['kind']!r} on both sides",
                        f"{k}: raw kind {r['kind']!r} vs advertised kind {a['kind']!r}", key=f"raw:{k}:kind")


def r2(chk, repo):
    am = repo.module(ARRAY)
    pd = am.func("parse_data")
    where = f"{am.relpath}:parse_data"
    flow = Flow(pd)
    raw_names = set()
    for name, entries in pd.local_bindings().items():
        for kind, val in entries:
            if kind == "assign" and isinstance(val, ast.Call) and norm(val.func) in ("np.frombuffer", "numpy.frombuffer"):
                raw_names.add(name)
                # the buffer and dtype are the function's content and the table entry
                kw = {k.arg: k.value for k in val.keywords if k.arg}
                buf = val.args[0] if val.args else kw.get("buffer")
                dt = val.args[1] if len(val.args) > 1 else kw.get("dtype")
                from ..dataflow import wired
                content, tcode = pd.positional_params[0], pd.positional_params[1]
                v_buf, t_buf = wired(flow, buf, content)
                v_dt, t_dt = wired(flow, dt, [f"raw_dtypes[{tcode}]", f"raw_dtypes.get({tcode})"]) if dt is not None else ("different", "float (numpy's default)")
                if v_dt == "unknown" and t_dt.replace(" ", "") in (f"raw_dtypes.get({tcode})", f"raw_dtypes.get({tcode},None)"):
                    v_dt = "equal"
                if "unknown" in (v_buf, v_dt):
                    raise AnalysisError(f"{where}: np.frombuffer({t_buf}, {t_dt}): the decode dtype is computed rather than looked up; not decided")
                chk.require(v_buf == "equal" and v_dt == "equal", "C01-R2", where, "np.frombuffer(content, raw_dtypes[type_code])",
                            f"samples are decoded with np.frombuffer({t_buf}, {t_dt}): not the table entry of the type code", key="parse_data:frombuffer")
    if not raw_names:
        raise AnalysisError("anchor vanished: np.frombuffer in parse_data")
    derived = flow.names_derived_from(raw_names)
    bad = []
    n_ret = 0
    raw_dt = {k: dtypes.parse_expr(v) for k, v in _table(am, "raw_dtypes").items()}
    for n in pd.own_nodes():
        if isinstance(n, (ast.BinOp, ast.UnaryOp, ast.AugAssign)):
            used = {x.id for x in ast.walk(n) if isinstance(x, ast.Name)}
            if used & derived:
                # arithmetic on decoded samples
                par = getattr(n, "_parent", None)
                if isinstance(par, (ast.BinOp, ast.UnaryOp)):
                    continue  # report the outermost only
                bad.append(f"arithmetic on decoded samples: {short(n, 60)}")
        if isinstance(n, ast.Call):
            used = {x.id for a in list(n.args) + [k.value for k in n.keywords] for x in ast.walk(a) if isinstance(x, ast.Name)}
            recv = {x.id for x in ast.walk(n.func) if isinstance(x, ast.Name)}
            if (used | recv) & derived:
                if isinstance(n.func, ast.Attribute) and (recv & derived):
                    if n.func.attr not in BIT_PRESERVING_METHODS:
                        bad.append(f"{short(n, 60)}: method {n.func.attr} is not bit-preserving")
                    elif n.func.attr == "view" and n.args:
                        try:
                            d = dtypes.parse_expr(n.args[0])
                        except AnalysisError:
                            d = None
                        if d is not None and not (dtypes.big_endian(d) and d["itemsize"] in {r["itemsize"] for r in raw_dt.values()}):
                            bad.append(f"{short(n, 60)}: view dtype {d['text']} is not the big-endian type of the stored samples")
                    elif n.func.attr == "astype" and n.args:
                        try:
                            d = dtypes.parse_expr(n.args[0])
                        except AnalysisError:
                            d = None
                        if d is not None and d["kind"] not in ("c", "u"):
                            bad.append(f"{short(n, 60)}: astype changes the sample kind to {d['kind']!r}")
                        elif d is not None:
                            adv = {k: dtypes.parse_expr(v) for k, v in _table(repo.module(IMG_MD), "dtypes").items()}
                            if (d["kind"], d["itemsize"]) not in {(a_["kind"], a_["itemsize"]) for a_ in adv.values()}:
                                bad.append(f"{short(n, 60)}: the samples are converted to {d['text']}, which is none of the advertised dtypes {sorted(a_['text'] for a_ in adv.values())} - "
                                           f"the loaded data has another dtype (and size) than the variable declares")
                else:
                    r = repo.resolve_expr(pd, n.func) if isinstance(n.func, (ast.Name, ast.Attribute)) else None
                    fq = r.fq if r is not None and r.kind == "external" else None
                    if fq not in BIT_PRESERVING_FUNCS and fq not in ("builtins.len",):
                        bad.append(f"{short(n, 60)}: {fq or norm(n.func)} applied to decoded samples")
        if isinstance(n, ast.Return):
            n_ret += 1
    # component-wise assembly must pair real<-real, imag<-imag
    for kind_, root, target, node in __import__("vlib.effects", fromlist=["stores"]).stores(repo, pd):
        if kind_ == "attr_store" and isinstance(target, ast.Attribute) and target.attr in ("real", "imag") and isinstance(node, ast.Assign):
            v = node.value
            fld = const_str(v.slice) if isinstance(v, ast.Subscript) else None
            if fld is not None and fld != target.attr:
                bad.append(f"{short(node, 60)}: {target.attr} part assigned from field {fld!r}")
    chk.require(not bad, "C01-R2", where, f"values derived from np.frombuffer ({sorted(derived)}) reach the {n_ret} return(s) through field selection / view / astype only",
                f"decoded samples are recomputed instead of reinterpreted: {bad[:2]} - IEEE arithmetic does not preserve NaN payloads, inf*0 and -0 (not bit for bit)",
                key="parse_data:bit-preserving", sample={"derived": sorted(derived), "returns": n_ret})


def r3(chk, repo, L):
    for key, prefix in (("signal", 544), ("processed", 192)):
        names = L.by_name(key)
        leaves, end, start = L.get(key)
        where = f"{key}_data_record"
        at = Poly.sym("@")
        rs = names.get("record_start")
        chk.require(rs is not None and rs.kind == "tell" and rs.offset == at, "C01-R3", where, "record_start is a Tell at offset 0 of the record",
                    f"record_start is {rs!r}", key=f"{key}:record_start")
        ds = names.get("data.start")
        chk.require(ds is not None and ds.kind == "tell" and ds.offset == at + prefix, "C01-R3", where,
                    f"data.start is a Tell at the end of the {prefix}-byte prefix",
                    f"data.start is at {ds.offset if ds else None} (kind {ds.kind if ds else None}); the format's prefix is {prefix} bytes: pixel 0 is read from the wrong byte",
                    key=f"{key}:data.start", sample={"record": key, "data.start": str(ds.offset) if ds else None})
        dp = names.get("data.stop")
        want = at + Poly.sym("preamble.record_length")
        chk.require(dp is not None and dp.kind == "seek" and dp.extra["target"] == want, "C01-R3", where,
                    "data.stop = Seek(record_start + preamble.record_length)",
                    f"data.stop seeks to {dp.extra['target'] if dp and dp.kind == 'seek' else dp!r}, expected record_start + preamble.record_length", key=f"{key}:data.stop")
        chk.require(end == want, "C01-R3", where, "the record ends at record_start + record_length (element stride of record[n])",
                    f"the record ends at {end}", key=f"{key}:stride")
        rl = names.get("preamble.record_length")
        chk.require(rl is not None and rl.offset == at + 8 and rl.base == "Int32ub" and not rl.chain, "C01-R3", where, "record_length is the Int32ub at bytes 8..12",
                    f"record_length field is {rl!r}", key=f"{key}:record_length")


def r4(chk, repo, L):
    """every record of every chunk is rebased: <record>.<position field> += offset, once per field, for each record.
    The bumps sit either in the per-record helper (_adjust_offset) mapped over the records, or in a loop / comprehension
    of adjust_offsets itself."""
    io = repo.module(IMG_IO)
    aos = io.func("adjust_offsets")
    records_p, offset_p = aos.positional_params[:2]
    helper = io.funcs.get("_adjust_offset")
    mapped_ok, how = False, ""
    site_fi, rec, off, scope_nodes = None, None, None, None
    r = single_return(aos)
    if helper is not None and isinstance(r, (ast.ListComp, ast.GeneratorExp)) or (helper is not None and isinstance(r, ast.Call) and norm(r.func) in ("list", "tuple")):
        comp = r if isinstance(r, (ast.ListComp, ast.GeneratorExp)) else (r.args[0] if r.args else None)
        if isinstance(comp, ast.Call) and norm(comp.func) == "map" and len(comp.args) == 2:
            # list(map(curry(_adjust_offset, offset=offset), records))
            cs = resolve_callees(repo, aos, comp.args[0])
            mapped_ok = any(c.func is helper for c in cs) and norm(comp.args[1]) == records_p and any(norm(v) == offset_p for c in cs for v in list(c.pre_kwargs.values()) + c.pre_args)
            how = short(r, 70)
        elif isinstance(comp, (ast.ListComp, ast.GeneratorExp)) and len(comp.generators) == 1:
            g = comp.generators[0]
            from ..interproc import bind_args
            cs = resolve_callees(repo, aos, comp.elt.func) if isinstance(comp.elt, ast.Call) else []
            if any(c.func is helper for c in cs):
                b, _ = bind_args(cs[0], comp.elt)
                hp = helper.positional_params
                mapped_ok = not g.ifs and norm(g.iter) == records_p and norm(b.get(hp[0])) == norm(g.target) and norm(b.get(hp[1])) == offset_p
                how = short(r, 70)
        site_fi, (rec, off) = helper, helper.positional_params[:2]
        scope_nodes = list(helper.own_nodes())
        ret = [n for n in helper.own_nodes() if isinstance(n, ast.Return)]
        chk.require(len(ret) == 1 and norm(ret[0].value) == rec, "C01-R4", f"{io.relpath}:_adjust_offset", "returns the adjusted record", "does not return the record", key="adjust:return")
    else:
        # bumps written in adjust_offsets itself: one loop over the records
        loops = [n for n in aos.own_nodes() if isinstance(n, ast.For) and norm(n.iter) == records_p and isinstance(n.target, ast.Name)]
        if len(loops) != 1:
            raise AnalysisError(f"{io.relpath}:adjust_offsets: neither a map of _adjust_offset over the records nor a single loop over them; not decided")
        loop = loops[0]
        site_fi, rec, off = aos, loop.target.id, offset_p
        scope_nodes = [n for st in loop.body for n in ast.walk(st)]
        exits = [n for n in scope_nodes if isinstance(n, (ast.Break, ast.Continue, ast.Return))]
        # the loop must hand every (adjusted) record on: appended unconditionally, or the input list itself is returned
        appended = [st for st in loop.body if isinstance(st, ast.Expr) and isinstance(st.value, ast.Call) and isinstance(st.value.func, ast.Attribute) and st.value.func.attr == "append"
                    and st.value.args and norm(st.value.args[0]) == rec]
        rets = [n for n in aos.own_nodes() if isinstance(n, ast.Return)]
        returns_input = len(rets) == 1 and norm(rets[0].value) == records_p
        returns_out = len(rets) == 1 and appended and isinstance(appended[0].value.func.value, ast.Name) and norm(rets[0].value) == appended[0].value.func.value.id
        mapped_ok = not exits and (returns_input or bool(returns_out))
        how = f"for {rec} in {records_p}: ... ({'appended to the result' if returns_out else 'adjusted in place'})"
        chk.ok("C01-R4", f"{io.relpath}:adjust_offsets", "returns the adjusted records")
    where = f"{site_fi.module.relpath}:{site_fi.qualname}"
    bumped = {}
    # local names for parts of the record (`byte_range = record.data`): stores through them are stores into the record
    alias = {}
    for n in scope_nodes:
        if isinstance(n, ast.Assign) and len(n.targets) == 1 and isinstance(n.targets[0], ast.Name) and isinstance(n.value, ast.Attribute) and norm(n.value).startswith(rec + "."):
            alias[n.targets[0].id] = norm(n.value)

    def unalias(txt):
        head, _, rest = txt.partition(".")
        return alias[head] + "." + rest if head in alias and rest else txt
    for n in scope_nodes:
        path = None
        if isinstance(n, ast.AugAssign) and isinstance(n.op, ast.Add) and isinstance(n.value, ast.Name) and n.value.id == off:
            path = norm(n.target)
        elif isinstance(n, ast.AugAssign):
            path = norm(n.target) + "!"
        elif isinstance(n, ast.Assign) and len(n.targets) == 1 and isinstance(n.targets[0], ast.Attribute):
            t = norm(n.targets[0])
            v = n.value
            if isinstance(v, ast.BinOp) and isinstance(v.op, ast.Add) and {norm(v.left), norm(v.right)} == {t, off}:
                path = t
            else:
                path = t + "!"
        if path is not None:
            path = unalias(path)
            bumped[path] = bumped.get(path, 0) + 1
    pos_fields = set()
    for key in ("signal", "processed"):
        for lf in L.by_name(key).values():
            if lf.kind in ("tell", "seek"):
                pos_fields.add(f"{rec}." + lf.name)
    if not any(bumped.get(p) for p in pos_fields):
        raise AnalysisError(f"{where}: no `<record>.<position field> += {off}` found in the recognised form; whether every position comes back absolute is decided by evaluating the metadata pass (C01-R9)")
    for p in sorted(pos_fields):
        chk.require(bumped.get(p) == 1, "C01-R4", where, f"{p} += offset (once)",
                    f"{p} is a stream position recorded relative to the chunk but it is rebased {bumped.get(p, 0)} time(s): rows are sliced from the wrong file offset",
                    key=f"adjust:{p.replace(rec + '.', 'record.', 1)}", sample={"field": p})
    extra = [p for p in bumped if p not in pos_fields]
    chk.require(not extra, "C01-R4", where, "no other field is modified", f"the rebasing also modifies {extra}", key="adjust:extra")
    chk.require(mapped_ok, "C01-R4", f"{io.relpath}:adjust_offsets", f"every record is rebased by the chunk offset ({how})",
                f"adjust_offsets does not rebase every record by the offset it is given: {how or short(r, 80) if r is not None else '?'}", key="adjust_offsets:map")


def r5(chk, repo, L):
    io = repo.module(IMG_IO)
    leaves, end, _ = L.get("image_descriptor")
    if not end.is_const():
        raise AnalysisError("image file descriptor has a dynamic size")
    dsize = end.value()
    rfd = io.func("read_file_descriptor")
    reads = [c for c in calls_in(rfd) if isinstance(c.func, ast.Attribute) and c.func.attr == "read"]
    k = reads[0].args[0].value if len(reads) == 1 and reads[0].args and isinstance(reads[0].args[0], ast.Constant) else None
    if k is None and len(reads) == 1 and reads[0].args and norm(reads[0].args[0]).endswith("file_descriptor_record.sizeof()"):
        k = dsize  # the struct's own size
    if k is None:
        raise AnalysisError(f"{io.relpath}:read_file_descriptor: the number of bytes read ({short(reads[0], 50) if reads else 'no read'}) is not a literal; not decided")
    chk.require(k == dsize, "C01-R5", f"{io.relpath}:read_file_descriptor", f"reads {k} bytes == static size of file_descriptor_record ({dsize})",
                f"reads {k} bytes but file_descriptor_record is {dsize} bytes: the line records are parsed from shifted bytes", key="descriptor:read-size",
                sample={"read": k, "struct": dsize})
    rm = io.func("read_metadata")
    where = f"{io.relpath}:read_metadata"
    target = None
    for c in calls_in(rm):
        cs = resolve_callees(repo, rm, c.func)
        if any(x.key.endswith(":adjust_offsets") for x in cs):
            target = c
    if target is None:
        raise AnalysisError("anchor vanished: adjust_offsets call in read_metadata")
    from ..readloop import ReadLoop
    from ..symexpr import p_add, const as tconst, poly_of
    rl = ReadLoop(repo, rm, target)
    rec_e, off_e = rl.args()
    if rec_e is None or off_e is None:
        raise AnalysisError(f"{where}: {short(target, 60)} does not pass records and offset; not decided")
    t_rec = rl.term(rec_e)
    reads = rl.read_of(t_rec)
    if len(reads) != 1:
        raise AnalysisError(f"{where}: the records handed to adjust_offsets are {show(t_rec)[:120]}: not parse_chunk(<file>.read(<size>), <record size>); not decided")
    size, elt, _ = reads[0]
    elt_ok = elt is not None and elt[0] == "sub" and elt[2] == ("const", "str", "sar_data_record_length")
    chk.require(elt_ok, "C01-R5", where, "each chunk is parsed with the header's record length as element size",
                f"chunks are parsed with element size {show(elt) if elt is not None else None}, not the header's record length", key="read_metadata:parse_chunk")
    whole = all(elt in mono for mono, c in poly_of(size).items()) if elt is not None else False
    if not whole:
        raise AnalysisError(f"{where}: the request size {show(size)} is not <records> * <record length>; not decided")
    chk.ok("C01-R5", where, f"each request asks for a whole number of records: {show(size)} bytes")
    t_off = rl.term(off_e)
    t_off2, carried = rl.substitute_carried(t_off)
    expected = p_add(rl.total_before(size), tconst(dsize))
    if t_off2 == expected:
        chk.ok("C01-R5", where, f"the rebasing offset of every chunk is the descriptor size plus the bytes requested before it: {show(t_off)} == {show(expected)}",
               sample={"offset": show(t_off), "bytes before": show(expected)})
        return

    def atoms(t):
        out = set()
        for mono, c in poly_of(t).items():
            out |= set(mono)
        return out
    known = atoms(expected) | {("index",)}
    extra = [a for a in atoms(t_off2) if a not in known and not rl.recognised(a)]
    if extra:
        raise AnalysisError(f"{where}: the rebasing offset is {show(t_off2)[:160]}, the bytes requested before the chunk are {show(expected)[:160]}; the offset uses "
                            f"{[show(a)[:40] for a in extra[:3]]}, whose relation to the requests is not decided")
    chk.fail("C01-R5", where, f"the rebasing offset of a chunk is {show(t_off2)[:200]} but the chunk's bytes start at {show(expected)[:200]} (descriptor size {dsize} + bytes requested before it): "
                              f"byte ranges are not absolute file offsets, rows are sliced from other lines", key="read_metadata:chunk-offsets")


def _subscript_chain(e):
    keys = []
    while isinstance(e, ast.Subscript):
        keys.append(const_str(e.slice))
        e = e.value
    return e, list(reversed(keys))


def r6(chk, repo, L):
    md = repo.module(IMG_MD)
    io = repo.module(IMG_IO)
    hdr = L.by_name("image_descriptor")

    def check_field(fi, expr, want, what, keyname):
        base, keys = _subscript_chain(expr)
        path = ".".join(k for k in keys if k)
        ok = path == want and path in hdr
        chk.require(ok, "C01-R6", f"{fi.module.relpath}:{fi.qualname}", f"{what} = header[{want}]",
                    f"{what} is read from header field {path!r}, expected {want!r}" + ("" if path in hdr else " (no such field in the struct)"), key=keyname,
                    sample={"what": what, "field": path})

    # the header fields the pixel chain depends on sit where the format puts them (layout reference)
    from ..reference import compare
    PIXEL_FIELDS = ("number_of_sar_data_records", "sar_data_record_length", "sar_related_data_in_the_record.number_of_lines_per_dataset",
                    "sar_related_data_in_the_record.number_of_data_groups_per_line", "prefix_suffix_data_locators.sar_data_format_type_code",
                    "sar_related_data_in_the_record.number_of_bytes_per_data_group", "sar_related_data_in_the_record.number_of_bits_per_sample")
    compare(chk, "C01-R6", L, "image_descriptor", select=lambda p: p in PIXEL_FIELDS)
    r6_inferred(chk, repo, L)


def r6_inferred(chk, repo, L):
    """the array metadata transform_metadata hands to the pixel array, by shape inference on (descriptor record, n parsed line
    records) - whatever the helper functions look like: shape = the header's (lines per dataset, data groups per line), type code =
    the header's sample format code, advertised dtype = the table entry of that code, byte ranges = (data.start, data.stop) of every
    parsed record, in order"""
    from ..poly import Poly
    from ..shapes import Choice, DictS, Interp, Leaf, ListLit, ListOf, ShapeError, TupS, _Raise, shape_of_con
    md = repo.module(IMG_MD)
    where = f"{md.relpath}:transform_metadata"
    I = Interp(repo, strict=False)
    n_lines = Poly.sym("n_lines")
    for rec_name in ("signal", "processed"):
        try:
            out = I.call(I.resolve_global(md, "transform_metadata"), [shape_of_con(L.con("image_descriptor")), ListOf(shape_of_con(L.con(rec_name)), n_lines)], {})
        except (_Raise, ShapeError, RecursionError) as e:
            raise AnalysisError(f"{where}: shape inference fails ({str(e)[:100]}); the wiring of the array metadata is not decided")
        if not (isinstance(out, TupS) and len(out.elts) == 2 and isinstance(out.elts[1], DictS)):
            raise AnalysisError(f"{where}: result is not (group, array metadata): {out!r:.80}")
        am = out.elts[1]

        def leaf_path(x):
            return ".".join(x.src) if isinstance(x, Leaf) and not x.ops and not x.also else None
        shape = am.items.get("shape")
        if not (isinstance(shape, (TupS, ListLit)) and len(shape.elts) == 2):
            raise AnalysisError(f"{where}: array metadata 'shape' is {shape!r:.80}; not decided")
        for axis, (x, want, what) in enumerate(zip(shape.elts, ("sar_related_data_in_the_record.number_of_lines_per_dataset", "sar_related_data_in_the_record.number_of_data_groups_per_line"), ("lines", "pixels"))):
            got = leaf_path(x)
            if got is None and not isinstance(x, Leaf):
                raise AnalysisError(f"{where}: shape[{axis}] is {x!r:.80}; its origin is not decided by shape inference")
            chk.require(got == want, "C01-R6", where, f"shape[{axis}] ({what}) = header[{want}] ({rec_name})",
                        f"shape[{axis}] ({what}) is {x!r:.90}, expected the header field {want!r} as it stands", key=f"shape:{what}", sample={"what": f"shape[{axis}]", "field": got})
        tc = am.items.get("type_code")
        got = leaf_path(tc)
        if got is None and not isinstance(tc, Leaf):
            raise AnalysisError(f"{where}: type_code is {tc!r:.80}; not decided")
        chk.require(got == "prefix_suffix_data_locators.sar_data_format_type_code", "C01-R6", where, f"sample type code = header[prefix_suffix_data_locators.sar_data_format_type_code] ({rec_name})",
                    f"sample type code is {tc!r:.90}, expected the header's sar_data_format_type_code", key="type_code")
        dt = am.items.get("dtype")
        keyed = isinstance(dt, Choice) and dt.labels and all("key" in str(l) for l in dt.labels)
        if not keyed:
            raise AnalysisError(f"{where}: the advertised dtype is {dt!r:.80}: not a table lookup keyed by a field; not decided")
        chk.ok("C01-R6", where, "advertised dtype is a table entry selected by the header's type code")
        br = am.items.get("byte_ranges")
        symbolic = isinstance(br, ListOf) and isinstance(br.elem, (TupS, ListLit)) and len(br.elem.elts) == 2
        ends = [leaf_path(x) for x in br.elem.elts] if symbolic else [None]
        if not symbolic or (None in ends and not all(isinstance(x, Leaf) for x in br.elem.elts)):
            # computed from the records and the header (clipped, shifted, re-aligned ...): evaluated on model descriptors of both
            # product kinds with consistent sample-size fields - the ranges must be the records' own sample areas
            from .common_rules import MODEL_PRODUCTS, array_metadata_on_model
            decided = 0
            for code in MODEL_PRODUCTS:
                res = array_metadata_on_model(repo, L, code)
                if res is None or res["byte_ranges"] is None:
                    continue
                decided += 1
                got = [tuple(x) for x in res["byte_ranges"]]
                chk.require(got == res["want_ranges"], "C01-R6", where, f"byte ranges of a {code} image are the records' own sample areas (model evaluation)",
                            f"for a {code} image of {res['want_shape'][1]} pixels per line the sample area of the first line record is {res['want_ranges'][0]} but the array is given {got[0] if got else None}: "
                            f"pixels are decoded from other bytes than the line's samples", key=f"byte_ranges:{code}")
            if decided < len(MODEL_PRODUCTS):
                raise AnalysisError(f"{where}: byte_ranges is {br!r:.80}; not decided")
            continue
        chk.require(ends == ["data.start", "data.stop"] and br.n == n_lines and not getattr(br, "tags", None), "C01-R6", where, f"byte_ranges = [(m['data']['start'], m['data']['stop']) for every record, in order] ({rec_name})",
                    f"byte ranges are {br!r:.100}: not (data.start, data.stop) of every parsed record in order", key="byte_ranges")


def r6_read_metadata(chk, repo, L):
    """form rules on read_metadata (decided by evaluation on model files in C01-R9 when it is written differently)"""
    io = repo.module(IMG_IO)
    hdr = L.by_name("image_descriptor")
    rm = io.func("read_metadata")
    flow = Flow(rm)
    used = {}
    for n in rm.own_nodes():
        if isinstance(n, ast.Subscript) and const_str(n.slice) in ("number_of_sar_data_records", "sar_data_record_length"):
            used[const_str(n.slice)] = n
    for f, what in (("number_of_sar_data_records", "record count"), ("sar_data_record_length", "record length")):
        n = used.get(f)
        if n is None:
            raise AnalysisError(f"{io.relpath}:read_metadata: no subscript with the key {f!r}; not decided by the form rule")
        ok = f in hdr and "read_file_descriptor" in norm(flow.expand(n.value))
        if not ok and f in hdr:
            raise AnalysisError(f"{io.relpath}:read_metadata: {f} is read from {short(flow.expand(n.value), 50)}, not recognisably from the parsed descriptor; not decided by the form rule")
        chk.require(ok, "C01-R6", f"{io.relpath}:read_metadata", f"{what} = header[{f!r}]", f"{what} is not read from header[{f!r}]", key=f"read_metadata:{f}")
    # the count drives the chunk sizes, the length the read sizes
    nrec = [name for name, ent in rm.local_bindings().items() for k, v in ent if k == "assign" and isinstance(v, ast.Subscript) and const_str(v.slice) == "number_of_sar_data_records"]
    # the sizes of the requests (and how many there are) must depend on the header's record count: dependence closure over the
    # function (definitions, in-place updates, guarding tests and iterables) - an over-approximation, so absence is definite
    from ..dataflow import dep_closure, enclosing_iterations
    from ..core import parents as _parents
    exprs = []
    for c in calls_in(rm):
        if isinstance(c.func, ast.Attribute) and c.func.attr in ("read", "readinto") and c.args and not any(isinstance(p_, ast.FunctionDef) and p_ is not rm.node for p_ in _parents(c)):
            looped = [it for it, tgt in enclosing_iterations(c, rm.node) if it is not None] + [p_.test for p_ in _parents(c) if isinstance(p_, ast.While)] \
                + [p_.iter for p_ in _parents(c) if isinstance(p_, ast.For)]
            if looped:
                exprs += [c.args[0]] + looped
    if not exprs:
        raise AnalysisError(f"{io.relpath}:read_metadata: no sized read in a loop or comprehension; dependence of the request sizes on the record count not decided")
    seen = dep_closure(rm, exprs)
    ok = bool(nrec) and nrec[0] in seen
    if not nrec:
        raise AnalysisError(f"{io.relpath}:read_metadata: the header's record count is not bound to a local; dependence of the requests on it not decided")
    chk.require(ok, "C01-R6", f"{io.relpath}:read_metadata", "chunk sizes are derived from the header's record count", "chunk sizes do not depend on the header's record count", key="read_metadata:chunksizes-from-count")


def r6_wiring(chk, repo, L):
    """form rules on the hand-over of the array metadata to Array (decided by evaluation of open_image in C01-R11 when written differently)"""
    md = repo.module(IMG_MD)
    tm = md.func("transform_metadata")
    # array metadata feeds every Array init field exactly once
    am = repo.module(ARRAY)
    fields = dataclass_fields(am.classes["Array"])
    amd = None
    for n in tm.own_nodes():
        if isinstance(n, ast.Dict) and n.keys and all(const_str(k) for k in n.keys) and "byte_ranges" in [const_str(k) for k in n.keys]:
            amd = n
    if amd is None:
        raise AnalysisError("anchor vanished: array_metadata dict in transform_metadata")
    akeys = {const_str(k): v for k, v in zip(amd.keys, amd.values)}
    oi = repo.module("ceos_alos2.sar_image").func("open_image")
    ctor = None
    for c in calls_in(oi):
        if any(x.cls is not None and x.cls.name == "Array" for x in resolve_callees(repo, oi, c.func)):
            ctor = c
    if ctor is None:
        raise AnalysisError("anchor vanished: Array(...) in open_image")
    explicit = {k.arg for k in ctor.keywords if k.arg}
    star = [k for k in ctor.keywords if k.arg is None]
    provided = set(explicit) | (set(akeys) if star and norm(star[0].value) == "array_metadata" else set())
    chk.require(provided == set(fields) and not (explicit & set(akeys)), "C01-R6", f"{oi.module.relpath}:open_image",
                f"Array receives each of {fields} exactly once", f"Array receives {sorted(provided)}, its init fields are {fields}", key="Array:fields")
    urlkw = {k.arg: norm(k.value) for k in ctor.keywords if k.arg}
    chk.require(urlkw.get("url") == oi.positional_params[1] and urlkw.get("fs") == "fs", "C01-R6", f"{oi.module.relpath}:open_image",
                "the Array reads the same file (path) through the filesystem built from the live mapper", f"Array url/fs are {urlkw.get('url')}/{urlkw.get('fs')}", key="Array:url-fs")


def r7(chk, repo):
    am = repo.module(ARRAY)
    pi = am.func_any("Array.__post_init__", "Array.__init__")
    gi = am.func("Array.__getitem__")
    # the initialiser computes the offsets table from the byte ranges and the chunk size AFTER its normalisation
    from ..dataflow import canon_self, init_aliases, is_access_path
    where_pi = f"{am.relpath}:{pi.qualname}"
    ali = init_aliases(pi)
    offs = [n for n in pi.own_nodes() if isinstance(n, ast.Assign) and any(norm(t) == "self.chunk_offsets" for t in n.targets)]
    if len(offs) != 1 or not isinstance(offs[0].value, ast.Call) or not any(x.key.endswith(":compute_chunk_offsets") for x in resolve_callees(repo, pi, offs[0].value.func)):
        raise AnalysisError(f"{where_pi}: self.chunk_offsets is not assigned once from compute_chunk_offsets(...); not decided by the form rule")
    last = offs[0]
    from ..interproc import bind_args as _bind
    bound, _ = _bind(resolve_callees(repo, pi, last.value.func)[0], last.value)
    callee = resolve_callees(repo, pi, last.value.func)[0].func
    a_ranges, a_size = bound.get(callee.positional_params[0]), bound.get(callee.positional_params[1])
    if a_ranges is None or a_size is None:
        raise AnalysisError(f"{where_pi}: arguments of compute_chunk_offsets not bound; not decided by the form rule")
    t_ranges, t_size = canon_self(pi, a_ranges, ali), canon_self(pi, a_size, ali)
    # a local that is what gets stored as self.records_per_chunk (`self.records_per_chunk = n` with n assigned on every path before)
    if isinstance(a_size, ast.Name) and a_size.id not in pi.params:
        stored_from = [n for n in pi.own_nodes() if isinstance(n, ast.Assign) and any(norm(t) == "self.records_per_chunk" for t in n.targets) and isinstance(n.value, ast.Name) and n.value.id == a_size.id]
        rebinds_after = [n for n in pi.own_nodes() if isinstance(n, ast.Assign) and any(isinstance(t, ast.Name) and t.id == a_size.id for t in n.targets) and stored_from and n.lineno > stored_from[-1].lineno]
        if len(stored_from) == 1 and not rebinds_after and stored_from[0].lineno < last.lineno:
            t_size = "self.records_per_chunk"
    rpc_stores = [n for n in pi.own_nodes() if isinstance(n, ast.Assign) and any(norm(t) == "self.records_per_chunk" for t in n.targets)]
    if t_ranges != "self.byte_ranges" and not is_access_path(a_ranges):
        raise AnalysisError(f"{where_pi}: the offsets table is computed from `{t_ranges}`; not decided by the form rule")
    if t_size != "self.records_per_chunk" and not (isinstance(a_size, ast.Name) and a_size.id in pi.params):
        raise AnalysisError(f"{where_pi}: the offsets table is keyed by `{t_size}`; whether that is the normalised chunk size is not decided by the form rule")
    ok = t_ranges == "self.byte_ranges" and t_size == "self.records_per_chunk" and all(n.lineno < last.lineno for n in rpc_stores)
    chk.require(ok, "C01-R7", where_pi, "chunk_offsets = compute_chunk_offsets(self.byte_ranges, self.records_per_chunk), computed after the normalisation of the chunk size",
                f"the offsets table is built by {short(last, 80)} (must use the byte ranges and self.records_per_chunk after its normalisation; found `{t_ranges}`, `{t_size}`)", key="post_init:offsets-key")
    gcall = None
    for c in calls_in(gi):
        if any(x.key.endswith(":groupby_chunks") for x in resolve_callees(repo, gi, c.func)):
            gcall = c
    if gcall is None:
        raise AnalysisError("anchor vanished: groupby_chunks call in __getitem__")
    from ..interproc import bind_args
    b, _ = bind_args(resolve_callees(repo, gi, gcall.func)[0], gcall)
    chk.require(norm(b.get("chunksize")) == "self.records_per_chunk", "C01-R7", f"{am.relpath}:Array.__getitem__", "rows are grouped by self.records_per_chunk",
                f"rows are grouped by {norm(b.get('chunksize')) if b.get('chunksize') is not None else None}, the offsets table is keyed by self.records_per_chunk: chunks are looked up under the wrong key",
                key="getitem:grouping-key", sample={"grouping": norm(b.get("chunksize")) if b.get("chunksize") is not None else None})
    mcall = None
    for c in calls_in(gi):
        if any(x.key.endswith(":merge_chunk_info") for x in resolve_callees(repo, gi, c.func)):
            mcall = c
    b2, _ = bind_args(resolve_callees(repo, gi, mcall.func)[0], mcall) if mcall is not None else ({}, None)
    chk.require(mcall is not None and norm(b2.get("chunk_offsets")) == "self.chunk_offsets" and norm(Flow(gi).expand(b2.get("selected"))) == norm(Flow(gi).expand(gcall)),
                "C01-R7", f"{am.relpath}:Array.__getitem__", "grouped rows are joined with self.chunk_offsets", "grouped rows are not joined with self.chunk_offsets", key="getitem:merge")
    # grouping key is row // chunksize on the enumerate index; partition_all(chunks) keys by enumerate.  The written form is
    # recognised when it is the pinned idiom; any other form is decided against the helper's specification on representatives
    def by_spec(fi, name, good, bad, key):
        try:
            res = decide_on_representatives(repo, fi, name)
        except AnalysisError as e:
            raise AnalysisError(f"{am.relpath}:{name}: not the recognised form and not decidable on representatives: {e}")
        chk.require(res[0], "C01-R7", f"{am.relpath}:{name}", f"{good} (agrees with its specification on {res[1]} representatives)", f"{bad}: {res[1]}", key=key)

    gc = am.func("groupby_chunks")
    keyfun = None
    for c in calls_in(gc):
        if isinstance(c.func, ast.Name) and c.func.id == "groupby" and c.args:
            keyfun = c.args[0]
    ok = isinstance(keyfun, ast.Lambda) and isinstance(keyfun.body, ast.BinOp) and isinstance(keyfun.body.op, ast.FloorDiv) and norm(keyfun.body.right) == gc.positional_params[1] \
        and norm(keyfun.body.left) == f"{keyfun.args.args[0].arg}[0]"
    if ok:
        chk.ok("C01-R7", f"{am.relpath}:groupby_chunks", "grouping key = row index // chunksize")
    else:
        by_spec(gc, "groupby_chunks", "rows are grouped by row index // chunksize", "rows are not grouped by row index // chunksize", "groupby_chunks:key")
    cr = am.func("compute_chunk_ranges")
    ret = single_return(cr)
    ok = False
    if isinstance(ret, ast.DictComp) and len(ret.generators) == 1:
        g = ret.generators[0]
        it = Flow(cr).expand(g.iter)
        ok = isinstance(it, ast.Call) and norm(it.func) == "enumerate" and isinstance(it.args[0], ast.Call) and norm(it.args[0].func) == "partition_all" \
            and [norm(a) for a in it.args[0].args] == [cr.positional_params[1], cr.positional_params[0]] and isinstance(g.target, ast.Tuple) and norm(ret.key) == norm(g.target.elts[0])
    if ok:
        chk.ok("C01-R7", f"{am.relpath}:compute_chunk_ranges", "offsets table key = index of partition_all(chunks, byte_ranges)")
    else:
        by_spec(cr, "compute_chunk_ranges", "the offsets table is keyed by the index of consecutive groups of `chunks` rows",
                "the offsets table is not keyed by the index of consecutive groups of `chunks` rows", "compute_chunk_ranges:key")
    # selected rows carry their absolute row index: decided with the specification of compute_selected_ranges
    sr = am.func("compute_selected_ranges")
    try:
        same, got, want = normal_form_equal(sr, SPECS["compute_selected_ranges"])
        res = (same, f"normal form {got[:120]}")
    except AnalysisError:
        res = decide_on_representatives(repo, sr, "compute_selected_ranges")
    chk.require(res[0], "C01-R7", f"{am.relpath}:compute_selected_ranges", "selected rows are (absolute row index, byte range) pairs",
                f"selected rows do not carry the absolute row index: {res[1]}", key="compute_selected_ranges:enumerate")


def r8(chk, repo):
    am = repo.module(ARRAY)
    for name, spec in SPECS.items():
        fi = am.func(name)
        try:
            same, got, want = normal_form_equal(fi, spec)
        except AnalysisError as e:
            # the normal forms have different shapes: decide the (parametric) helper on representatives instead
            try:
                res = decide_on_representatives(repo, fi, name)
            except AnalysisError as e2:
                raise AnalysisError(f"{e}; evaluation on representatives: {e2}")
            if res is None:
                raise
            chk.require(res[0], "C01-R8", f"{am.relpath}:{name}", f"{name} agrees with its specification on all {res[1]} representatives of its input classes (normal forms differ in shape)",
                        f"{name} differs from its specification: {res[1]}", key=f"spec:{name}", sample={"function": name, "decided": "representatives"})
            continue
        chk.require(same, "C01-R8", f"{am.relpath}:{name}", f"{name} == specification ({want[:90]})",
                    f"{name} computes {got[:160]} but the specification is {want[:160]}", key=f"spec:{name}", sample={"function": name, "normal form": got[:160]})
    io = repo.module(IMG_IO)
    for name, spec in IO_SPECS.items():
        fi = io.func(name)
        if name == "adjust_offsets" and "_adjust_offset" not in io.funcs:
            continue  # written as a loop: decided by R4
        same, got, want = normal_form_equal(fi, spec)
        chk.require(same, "C01-R8", f"{io.relpath}:{name}", f"{name} == specification ({want[:90]})",
                    f"{name} computes {got[:160]} but the specification is {want[:160]}", key=f"spec:{name}")
    chk.attempt(chunk_sizes_spec, chk, repo, covered_by="trace_positions", rules=("C01-R8",))
    # span components of compute_chunk_ranges
    cr = am.func("compute_chunk_ranges")
    ret = single_return(cr)
    if not (isinstance(ret, ast.DictComp) and isinstance(ret.value, ast.Tuple) and len(ret.value.elts) == 2):
        # another way of writing it: the comparison with the specification above has decided the spans
        chk.note(f"{am.relpath}:compute_chunk_ranges is not a dict comprehension of (lower, upper) pairs; its spans were decided against the specification only")
        return
    lo, hi = ret.value.elts

    def comp(e):
        t = norm(e)
        uses_first = "first" in t or "[0]" in t.replace("[-1]", "")
        uses_second = "second" in t or "[1]" in t
        return t, uses_first, uses_second

    tl, lf, ls = comp(lo)
    th, hf, hs = comp(hi)
    lo_ok = lf and not ls and (tl.startswith("min(") or "[0][0]" in tl)
    hi_ok = hs and not hf and (th.startswith("max(") or "[-1][1]" in th)
    chk.require(lo_ok, "C01-R8", f"{am.relpath}:compute_chunk_ranges", f"chunk span starts at the smallest row start ({tl})",
                f"chunk span lower bound is {tl}: it must be the minimum of the row *starts*", key="span:lower")
    chk.require(hi_ok, "C01-R8", f"{am.relpath}:compute_chunk_ranges", f"chunk span ends at the largest row stop ({th})",
                f"chunk span upper bound is {th}: it must be the maximum of the row *stops* (rows at the end of a chunk are cut off)", key="span:upper")


def chunk_sizes_spec(chk, repo):
    """read_metadata: number of chunks and the size of each chunk, compared with the reference formula in
    normal form (comparisons are normalised to `difference <op> 0`)"""
    from ..symexpr import compare_paths
    io = repo.module(IMG_IO)
    rm = io.func("read_metadata")
    where = f"{io.relpath}:read_metadata"
    flow = Flow(rm)
    if flow.single_def("chunksizes") is None:
        return request_recurrence(chk, repo, rm)
    env = {"records_per_chunk": ("param", 0), "n_records": ("param", 1), "n_chunks": ("param", 2)}
    for var, spec, stop in (("chunksizes", CHUNKSIZES_SPEC, ("n_chunks", "n_records", "record_size", "records_per_chunk")), ("n_chunks", NCHUNKS_SPEC, ("n_records", "records_per_chunk"))):
        d = flow.single_def(var)
        if d is None:
            raise AnalysisError(f"anchor vanished: {var} in read_metadata")
        try:
            got = Canon(dict(env))(flow.expand(d, stop=stop))
            want = summarize_source(spec)[1][0][1]
        except Undecidable as e:
            raise AnalysisError(f"{where}: {var} outside the fragment: {e}")
        verdict = compare_paths([((), got)], [((), want)])
        if verdict == "incomparable":
            raise AnalysisError(f"{where}: {var} = {show(got)[:200]} has a different shape than the reference formula {show(want)[:200]}; equivalence not decidable by normalisation")
        chk.require(verdict == "equal", "C01-R8", where, f"{var} equals the reference formula ({show(want)[:100]})",
                    f"{var} = {show(got)[:200]} differs from the reference formula {show(want)[:200]}: some admissible (lines, records_per_chunk) pair is read with wrong chunk sizes",
                    key=f"spec:read_metadata:{var}", sample={"variable": var, "normal form": show(got)[:160]})


def request_recurrence(chk, repo, rm):
    """read_metadata without a list of chunk sizes: the requests must still add up to the header's record count.
    Accepted: the recurrence  while <received> < n: k = min(records_per_chunk, n - <received>).  A loop-invariant request
    size k repeated ceil(n / k) times asks for more records than the file holds unless k divides n: rejected."""
    from ..readloop import ReadLoop
    from ..symexpr import p_add, p_mul, const as tconst
    where = f"{rm.module.relpath}:read_metadata"
    target = None
    for c in calls_in(rm):
        if any(x.key.endswith(":adjust_offsets") for x in resolve_callees(repo, rm, c.func)):
            target = c
    if target is None:
        raise AnalysisError("anchor vanished: adjust_offsets call in read_metadata")
    rl = ReadLoop(repo, rm, target)
    rec_e, _ = rl.args()
    k = rl._length(rl.term(rec_e))
    N = None
    for n in rm.own_nodes():
        if isinstance(n, ast.Subscript) and const_str(n.slice) == "number_of_sar_data_records":
            N = rl.term(n)
    if N is None:
        raise AnalysisError(f"{where}: the record count of the header is not used")
    RPC = ("name", "records_per_chunk")
    if isinstance(rl.loop, ast.While):
        test = rl.term(rl.loop.test)
        car = rl.carried()
        counters = [a for a, (v0, delta, _) in car.items() if v0 == tconst(0) and delta == k]
        for C in counters:
            want_k = {("call", ("name", "min"), (RPC, p_add(N, C, -1)), ()), ("call", ("name", "min"), (p_add(N, C, -1), RPC), ())}
            want_test = ("cmp", "Lt", p_add(C, N, -1), tconst(0))
            if k in want_k and test == want_test:
                chk.ok("C01-R8", where, f"requests follow the recurrence k = min(records_per_chunk, n - received) while received < n (received = {show(C)}): they add up to the record count",
                       sample={"request (records)": show(k), "loop test": show(test)})
                chk.ok("C01-R8", where, "number of requests = ceil(n / records_per_chunk) (same recurrence)")
                return
        raise AnalysisError(f"{where}: while-loop requesting {show(k)[:120]} records per iteration under the test {show(test)[:80]}: not the recognised recurrence; whether the requests add up to the record count is not decided")
    if not any(rl.is_variant(a) for mono, c in __import__("vlib.symexpr", fromlist=["poly_of"]).poly_of(k).items() for a in mono):
        chk.fail("C01-R8", where, f"every request asks for the same {show(k)[:100]} records: together they ask for more than the header's record count unless it is a multiple of that, "
                                  f"so the last request depends on where the file happens to end (trailing bytes or padding are parsed as line records)", key="spec:read_metadata:chunksizes")
        return
    raise AnalysisError(f"{where}: requests of {show(k)[:120]} records; whether they add up to the record count is not decided")
