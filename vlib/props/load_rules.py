"""rules decided on the model evaluation of a pixel load (vlib/loadmodel.py), shared by C01, C02, C06, C11 and C12"""
from __future__ import annotations

import itertools

from ..core import AnalysisError
from ..loadmodel import judge, run_load, run_load_with_fault, run_loads

_CACHE = {}
WHERE = "ceos_alos2/array.py:Array.__getitem__"
COLS = [(slice(None),), (3,), (slice(1, None, 2),), (slice(None, None, -1),), ([0, 2],)]


def row_indexers(n, thorough):
    ints = list(range(-n, n))
    starts = [None, 0, 1, 2, n - 1, n, n + 3, -1, -2, -n - 1]
    steps = [None, 1, 2, 3, -1, -2, -3] if thorough else [None, 2, 3, -1, -2]
    slices = []
    for a, b, c in itertools.product(starts, starts, steps):
        slices.append(slice(a, b, c))
    if not thorough:
        slices = slices[::4] + [slice(None), slice(0, 0), slice(None, None, -1), slice(1, n), slice(n, None), slice(-1, None)]
    lists = [[0], [n - 1], list(range(0, n, 2)), list(range(n)), [], [0, n - 1]]
    return ints + slices + lists


def loads(repo, thorough=False):
    key = (id(repo), thorough)
    if key in _CACHE:
        return _CACHE[key]
    out = {}
    grid = [(5, (1, 2, 3, 5, 1024)), (8, (3, 8, 9)), (1, (1,)), (2, (1, 2))] if not thorough else [(n, tuple(range(1, n + 3)) + (1024,)) for n in (1, 2, 3, 4, 5, 7, 8, 11)]
    k = 0
    for n, rpcs in grid:
        for rpc in rpcs:
            for gap in ((0,) if not thorough else (0, 5)):
                for rix in row_indexers(n, thorough):
                    cols = COLS[k % len(COLS)]
                    k += 1
                    ix = (rix,) + tuple(cols)
                    out[(n, rpc, gap, repr(ix))] = (ix, run_load(repo, n, 8, rpc, ix, gap=gap))
    # sequences of loads on one Array instance (what a DataArray does when it is sliced repeatedly): every load must be what a
    # load on a fresh instance is - nothing carried over from the previous selections
    seqs = [[(slice(0, 4), slice(None)), (2, slice(None)), (slice(None), 3), (5, slice(1, 3)), (slice(4, 8), slice(None)), (slice(0, 2), slice(None)), (0, slice(None))],
            [(slice(2, 7, 2), slice(None)), (slice(3, 5), slice(None)), (4, 1), (slice(None, None, -1), slice(None)), (7, slice(None)), (slice(6, 8), slice(None))]]
    for n, rpcs in ((8, (3, 8, 2) if not thorough else (1, 2, 3, 4, 5, 8, 1024)),):
        for rpc in rpcs:
            for si, seq in enumerate(seqs):
                lds, ranges, content = run_loads(repo, n, 8, rpc, seq)
                for i, (ix, ld) in enumerate(zip(seq, lds)):
                    out[(n, rpc, 0, f"sequence {si} step {i}: {ix!r} after {seq[:i]!r}"[:160])] = (ix, (ld, ranges, content))
    _CACHE[key] = out
    return out


def load_rules(chk, repo, rule, keys, text, thorough=False):
    L = loads(repo, thorough)
    chk.rule(rule, text, len(L) // 2)
    undecided, failed = [], {}
    n_ok = 0
    for (n, rpc, gap, _), (ix, (ld, ranges, content)) in L.items():
        if ld.outcome.startswith("undecided"):
            undecided.append((n, rpc, ix, ld.outcome))
            continue
        if ld.outcome != "returned":
            failed.setdefault("outcome", []).append(f"selection {ix!r} of a {n}-line image at records_per_chunk={rpc} does not load: {ld.outcome[:120]}")
            continue
        for k, ok, good, bad in judge(ld, ranges, content, n, rpc, ix):
            if k not in keys:
                continue
            if ok:
                n_ok += 1
            else:
                failed.setdefault(k, []).append(bad if bad.startswith("selection") else f"selection {ix!r} of a {n}-line image at records_per_chunk={rpc}: {bad}")
    for k, msgs in failed.items():
        chk.fail(rule, WHERE, msgs[0] + (f" (and {len(msgs) - 1} more selections)" if len(msgs) > 1 else ""), key=f"load:{k}")
    if undecided and not failed:
        n, rpc, ix, why = undecided[0]
        raise AnalysisError(f"{WHERE}: the model evaluation of a pixel load is not possible for {len(undecided)} of {len(L)} selections (e.g. {ix!r} on {n} lines, records_per_chunk={rpc}: {why[:160]})")
    if not failed:
        chk.ok(rule, WHERE, f"{len(L)} model loads ({'thorough' if thorough else 'quick'} grid: line counts x records_per_chunk x every integer row, slices over all sign patterns of start/stop/step, sorted lists; "
                            f"column indexers rotated): {', '.join(keys)} hold", sample={"model loads": len(L), "obligations": list(keys), "discharged": n_ok})
        for _ in range(len(L) - 1):
            chk.ok(rule, WHERE, "model load")
    elif undecided:
        chk.note(f"{rule}: {len(undecided)} model loads could not be evaluated ({undecided[0][3][:100]})")


FAULT_LOADS = [(9, 3, (slice(None), slice(None))), (9, 1, (slice(None), slice(None))), (9, 2, (slice(1, 8), slice(None))), (9, 4, (slice(None, None, 2), slice(None))), (9, 1024, (slice(None), slice(None))),
               (5, 2, ([0, 2, 4], slice(None)))]


def fault_rules(chk, repo, rule):
    """a pixel load during which one request fails with a connection reset (each request of the load in turn): the load either raises
    that error or - when the code retries - returns exactly the selected lines; it never returns something else"""
    chk.rule(rule, "a load interrupted by one failing request (every request in turn) raises or returns exactly the selected lines - for every records_per_chunk", 10)
    undecided, failed, n_ok = [], [], 0
    for n, rpc, ix in FAULT_LOADS:
        clean, ranges, content = run_load(repo, n, 8, rpc, ix)
        if clean.outcome != "returned":
            undecided.append((n, rpc, ix, "?", clean.outcome))
            continue
        n_reads = len([e for e in clean.trace.events if e[0] == "read"])
        for at in range(n_reads):
            ld, ranges, content = run_load_with_fault(repo, n, 8, rpc, ix, at)
            sit = f"selection {ix!r} of a {n}-line image at records_per_chunk={rpc}, request {at + 1} of {n_reads} fails once with a connection reset"
            if ld.outcome.startswith("undecided") or ld.outcome.startswith("nonterminating"):
                undecided.append((n, rpc, ix, at, ld.outcome))
                continue
            if not ld.fault.get("fired"):
                undecided.append((n, rpc, ix, at, "the failing request was never issued"))
                continue
            if ld.outcome.startswith("raised"):
                n_ok += 1
                continue
            res = [r for r in judge(ld, ranges, content, n, rpc, ix) if r[0] in ("rows", "axis")]
            bad = [r for r in res if not r[1]]
            if bad:
                failed.append(f"{sit}: the load returns, but {bad[0][3]}")
            else:
                n_ok += 1
    # short reads: a file object may hand back fewer bytes than asked for.  What the pinned tree does then is not claimed; but code
    # that reacts to a short read with further requests (a top-up loop, a per-record fallback) must end up with the selected lines
    # or raise
    short_failed = []
    for n, rpc, ix in FAULT_LOADS[:4]:
        clean, ranges, content = run_load(repo, n, 8, rpc, ix)
        if clean.outcome != "returned":
            continue
        n_reads = len([e for e in clean.trace.events if e[0] == "read"])
        for at in range(n_reads):
            ld, ranges, content = run_load_with_fault(repo, n, 8, rpc, ix, at, kind="short")
            reads = [e for e in ld.trace.events if e[0] == "read"]
            if not ld.fault.get("fired") or len(reads) <= n_reads:
                continue  # the short read was not reacted to with further requests: not judged
            sit = f"selection {ix!r} of a {n}-line image at records_per_chunk={rpc}, request {at + 1} of {n_reads} is served only in part and the load reacts with {len(reads) - n_reads} further request(s)"
            if ld.outcome.startswith("undecided") or ld.outcome.startswith("nonterminating"):
                undecided.append((n, rpc, ix, at, ld.outcome))
                continue
            if ld.outcome.startswith("raised"):
                n_ok += 1
                continue
            bad = [r for r in judge(ld, ranges, content, n, rpc, ix) if r[0] in ("rows", "confined") and not r[1]]
            if bad:
                short_failed.append(f"{sit}: the load returns, but {bad[0][3]}")
            else:
                n_ok += 1
    for m in short_failed[:1]:
        chk.fail(rule, WHERE, m + (f" (and {len(short_failed) - 1} more)" if len(short_failed) > 1 else ""), key="load:short-read-fallback")
    failed_any = failed or short_failed
    for m in failed[:1]:
        chk.fail(rule, WHERE, m + (f" (and {len(failed) - 1} more interrupted loads)" if len(failed) > 1 else ""), key="load:interrupted")
    if undecided and not failed_any:
        n, rpc, ix, at, why = undecided[0]
        raise AnalysisError(f"{WHERE}: an interrupted load cannot be evaluated for {len(undecided)} cases (e.g. {ix!r} on {n} lines, records_per_chunk={rpc}, request {at}: {why[:140]})")
    if not failed_any:
        for _ in range(n_ok):
            chk.ok(rule, WHERE, "interrupted model load")
        chk.samples.append({"rule": rule, "where": WHERE, "obligation": {"interrupted loads": n_ok, "selections": len(FAULT_LOADS)}})


WRAPPER_KEYS = [
    # (lines, records_per_chunk, key): long contiguous selections that do not start on the chunk grid, strided ones, single lines
    (40, 2, (slice(1, 40, 1), slice(None, None, None))), (40, 2, (slice(0, 40, 1), slice(0, 3, 1))), (40, 2, (slice(3, 38, 1), 1)), (40, 2, (slice(0, 40, 3), slice(None, None, None))),
    (40, 1, (slice(5, 39, 1), slice(None, None, None))), (40, 3, (slice(2, 40, 1), slice(None, None, None))), (9, 4, (slice(1, 9, 1), slice(None, None, None))), (9, 4, (5, slice(None, None, None))),
    (70, 2, (slice(7, 69, 1), slice(None, None, None))), (70, 4, (slice(1, 70, 2), 0)),
]


def wrapper_requests(chk, repo, rule):
    """one load as xarray issues it (through the backend wrapper built by its own __init__): however the wrapper splits it, every
    touched group of records_per_chunk lines is requested at most once, each request inside that group's bytes"""
    from ..loadmodel import run_wrapper_load
    where = "ceos_alos2/xarray.py:LazilyIndexedWrapper._raw_indexing_method"
    chk.rule(rule, "a load issued through the backend wrapper requests every touched group of lines at most once, confined to the group's bytes, from the image file only", len(WRAPPER_KEYS) // 2)
    undecided, failed = [], {}
    for n, rpc, key in WRAPPER_KEYS:
        ld, ranges, content = run_wrapper_load(repo, n, 8, rpc, key)
        if ld.outcome.startswith("undecided"):
            undecided.append((n, rpc, key, ld.outcome))
            continue
        if ld.outcome != "returned":
            failed.setdefault("outcome", []).append(f"selection {key!r} of a {n}-line image at records_per_chunk={rpc} does not load through the wrapper: {ld.outcome[:120]}")
            continue
        for k, ok, good, bad in judge(ld, ranges, content, n, rpc, key):
            if k not in ("requests", "confined", "one-file"):
                continue
            if not ok:
                failed.setdefault(k, []).append(bad if bad.startswith("selection") else f"selection {key!r} of a {n}-line image at records_per_chunk={rpc}: {bad}")
    for k, msgs in failed.items():
        chk.fail(rule, where, msgs[0] + (f" (and {len(msgs) - 1} more selections)" if len(msgs) > 1 else ""), key=f"wrapper-load:{k}")
    if undecided and not failed:
        n, rpc, key, why = undecided[0]
        raise AnalysisError(f"{where}: a load through the wrapper cannot be evaluated for {len(undecided)} of {len(WRAPPER_KEYS)} selections (e.g. {key!r} on {n} lines, records_per_chunk={rpc}: {why[:160]})")
    if not failed:
        for _ in WRAPPER_KEYS:
            chk.ok(rule, where, "model load through the wrapper")


def wrapper_interrupted(chk, repo, rule):
    """one load as xarray issues it, during which the first request fails once with a connection reset: the wrapper lets the error
    through, or - when it retries - the array is finally indexed in a way that gives the caller's selection: the selected lines, an
    integer row index still dropping the row axis"""
    from ..loadmodel import run_wrapper_load
    where = "ceos_alos2/xarray.py:LazilyIndexedWrapper._raw_indexing_method"
    keys = [(9, 4, (5, slice(None, None, None))), (9, 4, (slice(1, 9, 1), slice(None, None, None))), (9, 2, (0, 3))]
    chk.rule(rule, "a load through the backend wrapper whose first request fails raises or, when retried, still serves the caller's key (rows, dropped axis)", len(keys))
    undecided, failed, n_ok = [], [], 0
    for n, rpc, key in keys:
        ld, ranges, content = run_wrapper_load(repo, n, 8, rpc, key, fault={"kind": "read", "at": 0})
        sit = f"selection {key!r} of a {n}-line image at records_per_chunk={rpc}, the first request fails once with a connection reset"
        if ld.outcome.startswith("undecided") or ld.outcome.startswith("nonterminating"):
            undecided.append((n, rpc, key, ld.outcome))
            continue
        if ld.outcome.startswith("raised"):
            n_ok += 1
            continue
        bad = [r for r in judge(ld, ranges, content, n, rpc, key) if r[0] in ("rows", "axis", "columns") and not r[1]]
        if bad:
            failed.append(f"{sit}: the load returns after a retry, but {bad[0][3]}")
        else:
            n_ok += 1
    for m in failed[:1]:
        chk.fail(rule, where, m + (f" (and {len(failed) - 1} more)" if len(failed) > 1 else ""), key="wrapper-load:interrupted")
    if undecided and not failed:
        n, rpc, key, why = undecided[0]
        raise AnalysisError(f"{where}: an interrupted load through the wrapper cannot be evaluated (e.g. {key!r} on {n} lines, records_per_chunk={rpc}: {why[:160]})")
    if not failed:
        for _ in range(n_ok):
            chk.ok(rule, where, "interrupted model load through the wrapper")
