"""C02 -- indexing equivalence (narrow structural clauses)"""
from __future__ import annotations

import ast
import re

from ..callgraph import guards_of
from ..core import AnalysisError, norm, parents, short
from ..dataflow import Flow, calls_in
from ..interproc import resolve_callees

LEVEL = "other"

ARRAY = "ceos_alos2.array"
XR = "ceos_alos2.xarray"
SERVED = {"BASIC", "OUTER", "OUTER_1VECTOR"}
INT_TYPES = {"int", "numbers.Integral", "Integral", "np.integer", "numpy.integer", "(int, np.integer)", "(int, numpy.integer)"}


def run(chk, repo):
    chk.explanation = (
        "Columns are delegated to NumPy, rows are re-implemented by the backend. The value-level equivalence of the "
        "row bookkeeping (grouping by chunk, relocation, order) is arithmetic over run-time sizes and is NOT decided. "
        "Decided are four necessary shape clauses: (X1) the final NumPy subscript is one row component followed by the "
        "caller's column indexers unchanged; (X2) the rank of the result depends on whether the row indexer is an "
        "integer (BASIC hands integers to the backend and expects the axis dropped); (X3) stacking a list that is empty "
        "for an empty row selection is guarded; (X4) the declared IndexingSupport level is one the backend serves and "
        "keys are forwarded unchanged."
    )
    chk.trusted = ["xarray's explicit_indexing_adapter decomposes keys for the declared support level as read in /venv (2026.7): BASIC -> ints and positive-step slices; OUTER -> additionally sorted 1-d arrays"]
    chk.rule("C02-X1", "final subscript = (row component, *indexers[1:])", 1)
    chk.rule("C02-X2", "result rank depends on the row indexer being an integer", 1)
    chk.rule("C02-X3", "stacking of a possibly empty list of rows is guarded", 1)
    chk.rule("C02-X4", "declared indexing support is served; keys are forwarded unchanged; row dispatch covers int and slice", 5)
    chk.attempt(row_bookkeeping, chk, repo)
    from .load_rules import wrapper_interrupted
    chk.attempt(wrapper_interrupted, chk, repo, "C02-X7")
    chk.attempt(x123, chk, repo, covered_by="row_bookkeeping", rules=("C02-X1", "C02-X2", "C02-X3"))
    chk.attempt(wrapper_forwarding, chk, repo)
    chk.attempt(x4, chk, repo, covered_by="wrapper_forwarding", rules=("C02-X4",))
    chk.attempt(x4_rows, chk, repo, covered_by="row_bookkeeping", rules=("C02-X4",))


def row_bookkeeping(chk, repo):
    """C02-X5: the backend's row selection evaluated on model images (vlib/loadmodel.py): for every row indexer of the grid the
    rows handed to NumPy are range(n)[indexer] with their own bytes, in order; an integer drops the axis; the column
    indexers are NumPy's business and reach it unchanged; an empty selection is an empty block of the declared dtype"""
    from .load_rules import load_rules
    load_rules(chk, repo, "C02-X5", ("rows", "axis", "columns", "empty"),
               "model loads: for every row indexer (all integers, slices over all sign patterns, sorted lists) x line count x records_per_chunk the selected lines come back in NumPy's order with "
               "their own bytes, an integer drops the axis, the column indexers reach NumPy unchanged, an empty selection is an empty block; also in sequences of loads on one array",
               thorough=chk.tier == "thorough")


def x123(chk, repo):
    am = repo.module(ARRAY)
    gi = am.func("Array.__getitem__")
    where = f"{am.relpath}:Array.__getitem__"
    flow = Flow(gi)
    param = gi.positional_params[1]
    rets = [n for n in gi.own_nodes() if isinstance(n, ast.Return)]
    if not rets:
        raise AnalysisError("anchor vanished: return of Array.__getitem__")
    row_components = column_delegation(chk, repo, "C02-X1")
    # ---------------------------------------------------------------- X2
    tests = []
    for n in gi.own_nodes():
        if isinstance(n, ast.Call) and isinstance(n.func, ast.Name) and n.func.id == "isinstance" and len(n.args) == 2:
            subj = norm(flow.expand(n.args[0])).replace(" ", "")
            if subj == f"{param}[0]" and (norm(n.args[1]) in INT_TYPES or "int" in norm(n.args[1])):
                tests.append(n)
    influenced = False
    why = "no isinstance(<row indexer>, int) test in __getitem__"
    for t in tests:
        # control: an If / IfExp whose test contains t
        owner = None
        for p in parents(t):
            if isinstance(p, (ast.If, ast.IfExp)) and any(x is t for x in ast.walk(p.test)):
                owner = p
                break
        if owner is None:
            continue
        affected = set()
        has_ret = False
        if isinstance(owner, ast.IfExp):
            st = owner
            while not isinstance(st, ast.stmt):
                st = st._parent
            if isinstance(st, ast.Assign):
                affected |= {x.id for tt in st.targets for x in ast.walk(tt) if isinstance(x, ast.Name)}
            if isinstance(st, ast.Return):
                has_ret = True
        else:
            for st in owner.body + owner.orelse:
                for x in ast.walk(st):
                    if isinstance(x, ast.Return):
                        has_ret = True
                    if isinstance(x, (ast.Assign, ast.AugAssign)):
                        tg = x.targets if isinstance(x, ast.Assign) else [x.target]
                        affected |= {y.id for tt in tg for y in ast.walk(tt) if isinstance(y, ast.Name)}
        derived = flow.names_derived_from(affected) if affected else set()
        used_in_ret = any(isinstance(x, ast.Name) and x.id in derived for r in rets for x in ast.walk(r.value))
        if has_ret or used_in_ret:
            influenced = True
            why = f"`{short(t, 50)}` decides {'a return' if has_ret else sorted(affected)}"
    chk.require(influenced, "C02-X2", where, f"the result's rank depends on the row indexer kind: {why}",
                f"the row component of the final subscript and the stacking are the same for an integer and for a slice row indexer ({why}): "
                f"isel(rows=2) keeps the axis (shape (1, n) instead of (n,))", key="getitem:int-row-rank", sample={"tests": [short(t, 50) for t in tests]})
    # ---------------------------------------------------------------- X3
    stacks = []
    for c in calls_in(gi):
        r = repo.resolve_expr(gi, c.func) if isinstance(c.func, (ast.Name, ast.Attribute)) else None
        if r is not None and r.kind == "external" and r.fq in ("numpy.stack", "numpy.concatenate", "numpy.vstack", "numpy.array", "numpy.asarray") and c.args and isinstance(c.args[0], ast.Name):
            lst = c.args[0].id
            entries = gi.local_bindings().get(lst, [])
            starts_empty = any(k == "assign" and isinstance(v, ast.List) and not v.elts for k, v in entries)
            if starts_empty and r.fq in ("numpy.stack", "numpy.concatenate", "numpy.vstack"):
                stacks.append((c, lst))
    if not stacks:
        chk.ok("C02-X3", where, "no np.stack/concatenate over a list that starts empty (pre-allocated or comprehension-built result)")
    for c, lst in stacks:
        gs = guards_of(c, gi.node)
        guarded = False
        for test, pol in gs:
            names = {x.id for x in ast.walk(test) if isinstance(x, ast.Name)}
            if names & ({lst} | flow.names_derived_from({lst}) | {"tasks", "selected_ranges", "grouped", "merged"}):
                guarded = True
        chk.require(guarded, "C02-X3", where, f"{short(c, 40)} is guarded by an emptiness test",
                    f"{short(c, 40)} runs on the list `{lst}` that stays empty when no row is selected: an empty row selection raises ValueError instead of returning a (0, n) block",
                    key="getitem:empty-stack", sample={"call": short(c, 50)})


def wrapper_forwarding(chk, repo):
    """C02-X6: LazilyIndexedWrapper._raw_indexing_method evaluated on representative keys with a recording array stub: the key
    tuple reaches Array.__getitem__ exactly as xarray's adapter produced it (bounds 0 / None / negative, steps), once, and
    what the array returns is returned"""
    from collections import OrderedDict
    from ..shapes import Const, Fn, Interp, ListLit, Obj, ShapeError, TupS, _Raise
    xm = repo.module(XR)
    where = f"{xm.relpath}:LazilyIndexedWrapper._raw_indexing_method"
    r = repo.resolve_module_name(xm, "LazilyIndexedWrapper")
    if r.kind != "class":
        raise AnalysisError("anchor vanished: xarray.LazilyIndexedWrapper")
    keys = [(2, slice(0, 5, 1)), (slice(0, 0, 1), slice(None, None, None)), (slice(None, 0, 1), 3), (slice(0, 4, 2), slice(1, None, 3)), (0, 0), (slice(4, None, 1), slice(0, 1, 1)),
            (slice(None, None, None), slice(None, None, None)), (slice(2, 2, 1), 0), (-1, slice(-3, None, 1)), (slice(1, 9, 3), slice(None, None, None)), (slice(2, 9, 2), 1),
            (slice(3, 8, 1), slice(None, None, None)), (slice(1, 8, 5), slice(2, 6, 1)), (8, 6)]
    chk.rule("C02-X6", "the backend wrapper returns, for the key produced by xarray's adapter, exactly that selection of the array (rows in order, axis dropped for an integer, same columns, same rank) - however many pieces it fetches", len(keys))
    N, M = 9, 7

    def sel(k, n):
        return ("int", range(n)[k]) if isinstance(k, int) else ("seq", tuple(range(n)[k]))
    for key in keys:
        I = Interp(repo)
        seen = []

        def block(rows, cols):
            ndim = (rows[0] == "seq") + (cols[0] == "seq")
            return Obj("Block", OrderedDict(rows=Const(rows), cols=Const(cols), ndim=Const(ndim), shape=Const(tuple(len(x[1]) for x in (rows, cols) if x[0] == "seq"))))

        def getitem(I_, a, kw):
            k0 = a[0]
            parts = list(k0.elts) if isinstance(k0, TupS) else ([Const(x) for x in k0.v] if isinstance(k0, Const) and isinstance(k0.v, tuple) else None)
            if parts is None or not all(isinstance(p_, Const) and isinstance(p_.v, (int, slice)) and not isinstance(p_.v, bool) for p_ in parts) or len(parts) > 2:
                raise ShapeError(f"the array is indexed with {k0!r:.60}")
            parts = parts + [Const(slice(None))] * (2 - len(parts))  # an axis that is not indexed is taken whole
            seen.append(tuple(p_.v for p_ in parts))
            try:
                return block(sel(parts[0].v, N), sel(parts[1].v, M))
            except IndexError:
                raise _Raise("IndexError: index out of bounds", ["IndexError", "LookupError", "Exception", "BaseException", "object"])

        def concatenate(I_, a, kw):
            seq = a[0]
            axis = kw.get("axis", a[1] if len(a) > 1 else Const(0))
            if not (isinstance(axis, Const) and axis.v == 0) or not isinstance(seq, (ListLit, TupS)):
                raise ShapeError("np.concatenate along another axis / of an unknown sequence")
            if not seq.elts:
                raise _Raise("ValueError: need at least one array to concatenate", ["ValueError", "Exception", "BaseException", "object"])
            rows = []
            cols = None
            for x in seq.elts:
                if not (isinstance(x, Obj) and x.cls == "Block"):
                    raise ShapeError("np.concatenate of something that is not a block of the array")
                r_, c_ = x.fields["rows"].v, x.fields["cols"].v
                if r_[0] != "seq":
                    raise _Raise("ValueError: zero-dimensional arrays cannot be concatenated", ["ValueError", "Exception", "BaseException", "object"])
                if cols is not None and c_ != cols:
                    raise _Raise("ValueError: all the input array dimensions except for the concatenation axis must match", ["ValueError", "Exception", "BaseException", "object"])
                cols = c_
                rows.extend(r_[1])
            return block(("seq", tuple(rows)), cols)

        def at_least_1d(I_, a, kw):
            x = a[0]
            if not (isinstance(x, Obj) and x.cls == "Block"):
                raise ShapeError("np.ascontiguousarray of something that is not a block of the array")
            if x.fields["ndim"].v == 0:
                # numpy: ascontiguousarray returns an array of at least one dimension
                return Obj("Block", OrderedDict(rows=x.fields["rows"], cols=x.fields["cols"], ndim=Const(1), shape=Const((1,))))
            return x
        def empty(I_, a, kw):
            shp = a[0] if a else kw.get("shape")
            dims = [x.v for x in shp.elts] if isinstance(shp, (TupS, ListLit)) and all(isinstance(x, Const) and isinstance(x.v, int) for x in shp.elts) else (list(shp.v) if isinstance(shp, Const) and isinstance(shp.v, (tuple, list)) else None)
            if dims is None:
                raise ShapeError(f"np.empty({shp!r:.40})")
            return Obj("Block", OrderedDict(rows=Const(("fresh", ())), cols=Const(("fresh", ())), ndim=Const(len(dims)), shape=Const(tuple(dims))))
        lock = Obj("Lock", OrderedDict())
        lock.fields["__enter__"] = Fn("py", impl=lambda I_, a, k: lock, name="__enter__")
        lock.fields["__exit__"] = Fn("py", impl=lambda I_, a, k: Const(None), name="__exit__")
        lock.fields["acquire"] = Fn("py", impl=lambda I_, a, k: Const(True), name="acquire")
        lock.fields["release"] = Fn("py", impl=lambda I_, a, k: Const(None), name="release")
        arr = Obj("ArrayStub", OrderedDict(__getitem__=Fn("py", impl=getitem, name="__getitem__"), shape=Const((N, M)), dtype=Const("uint16"), chunks=Const((4, M)), records_per_chunk=Const(4), ndim=Const(2)))
        ident = Fn("py", impl=lambda I_, a, k: a[0], name="np.asarray")
        I.module_scope(xm).vars["np"] = Obj("numpy", OrderedDict(concatenate=Fn("py", impl=concatenate, name="np.concatenate"), vstack=Fn("py", impl=concatenate, name="np.vstack"),
                                                                    ascontiguousarray=Fn("py", impl=at_least_1d, name="np.ascontiguousarray"), asarray=ident, asanyarray=ident,
                                                                    empty=Fn("py", impl=empty, name="np.empty"), zeros=Fn("py", impl=empty, name="np.zeros"),
                                                                    dtype=Fn("py", impl=lambda I_, a, k: a[0] if a else Const(None), name="np.dtype")))
        kshape = TupS([Const(x) for x in key])
        try:
            # the wrapper as its own __init__ builds it around the array stub
            w = I.call(I.lookup("LazilyIndexedWrapper", I.module_scope(xm)), [arr, lock], {})
            out = I.call(I.getattr(w, "_raw_indexing_method"), [kshape], {})
        except _Raise as e:
            chk.fail("C02-X6", where, f"xarray hands the backend the key {key!r}: the wrapper raises ({e.what[:80]})", key="wrapper:key-forwarding")
            continue
        except (ShapeError, RecursionError) as e:
            raise AnalysisError(f"{where}: cannot be evaluated on the key {key!r}: {str(e)[:120]}")
        if not (isinstance(out, Obj) and out.cls == "Block"):
            raise AnalysisError(f"{where}: on the key {key!r} the wrapper returns {out!r:.60}, not a block of the array; not decided")
        want_rows, want_cols = sel(key[0], N), sel(key[1], M)
        want_ndim = (want_rows[0] == "seq") + (want_cols[0] == "seq")
        got_rows, got_cols, got_ndim = out.fields["rows"].v, out.fields["cols"].v, out.fields["ndim"].v
        want_shape = tuple(len(x[1]) for x in (want_rows, want_cols) if x[0] == "seq")
        if got_rows[0] == "fresh":
            # a block made without reading (np.empty): right exactly when the selection is empty and the shape is the selection's
            ok = 0 in want_shape and out.fields["shape"].v == want_shape
            chk.require(ok, "C02-X6", where, f"key {key!r}: an empty selection is answered with an empty block of the selection's shape {want_shape}",
                        f"xarray hands the backend the key {key!r}; the wrapper answers with a fresh block of shape {out.fields['shape'].v} where the selection has shape {want_shape}"
                        f" ({want_ndim} dimension(s): an integer indexer drops its axis)", key="wrapper:key-forwarding", sample={"key": repr(key)})
            continue
        ok = got_rows == want_rows and got_cols == want_cols and got_ndim == want_ndim
        chk.require(ok, "C02-X6", where, f"key {key!r}: the selection asked for is the selection returned",
                    f"xarray hands the backend the key {key!r}; the array is indexed {len(seen)} time(s) with {seen[:4]!r} and the wrapper returns rows {got_rows[1]!r}, columns {got_cols[1]!r}, "
                    f"{got_ndim} dimension(s) where rows {want_rows[1]!r}, columns {want_cols[1]!r}, {want_ndim} dimension(s) were asked for", key="wrapper:key-forwarding", sample={"key": repr(key)})


def x4(chk, repo):
    am = repo.module(ARRAY)
    xm = repo.module(XR)
    wg = xm.func("LazilyIndexedWrapper.__getitem__")
    adapter = None
    for c in calls_in(wg):
        if norm(c.func).endswith("explicit_indexing_adapter"):
            adapter = c
    if adapter is None:
        raise AnalysisError("anchor vanished: explicit_indexing_adapter call")
    # xarray.core.indexing.explicit_indexing_adapter(key, shape, indexing_support, raw_indexing_method)
    names = ["key", "shape", "indexing_support", "raw_indexing_method"]
    bound = dict(zip(names, adapter.args))
    bound.update({k.arg: k.value for k in adapter.keywords if k.arg})
    wflow = Flow(wg)

    def resolved(e, depth=0):
        e = wflow.expand(e) if e is not None else None
        if isinstance(e, ast.Name) and depth < 4:
            r = repo.resolve_name(wg, e.id)
            if r.kind == "value" and len(r.exprs) == 1:
                return resolved_in(r.mod, r.exprs[0], depth + 1)
        return e

    def resolved_in(mod_, e, depth):
        if isinstance(e, ast.Name) and depth < 4:
            r = repo.resolve_module_name(mod_, e.id)
            if r.kind == "value" and len(r.exprs) == 1:
                return resolved_in(r.mod, r.exprs[0], depth + 1)
        return e
    lv = resolved(bound.get("indexing_support"))
    t = norm(lv) if lv is not None else ""
    level = t.split("IndexingSupport.")[-1] if "IndexingSupport." in t else None
    if level is None:
        raise AnalysisError(f"{xm.relpath}:LazilyIndexedWrapper.__getitem__: the declared indexing support is `{t}`; not decided")
    chk.require(level in SERVED, "C02-X4", f"{xm.relpath}:LazilyIndexedWrapper.__getitem__", f"declared IndexingSupport.{level} is served by the backend (rows regrouped by chunk keep order for monotone selections)",
                f"declared IndexingSupport.{level}: the backend indexes broadcast index arrays as an outer product - wrong values", key="wrapper:support-level", sample={"level": level})
    a0 = norm(bound["key"]) if "key" in bound else None
    a1 = norm(bound["shape"]) if "shape" in bound else None
    a3 = norm(bound["raw_indexing_method"]) if "raw_indexing_method" in bound else None
    ok_args = a0 == wg.positional_params[1] and a1 == "self.shape" and a3 == "self._raw_indexing_method"
    if not ok_args and not all(x is not None and re.fullmatch(r"[\w.]+", x) for x in (a0, a1, a3)):
        raise AnalysisError(f"{xm.relpath}:LazilyIndexedWrapper.__getitem__: adapter receives ({a0}, {a1}, .., {a3}): computed arguments; not decided by the form rule")
    chk.require(ok_args, "C02-X4", f"{xm.relpath}:LazilyIndexedWrapper.__getitem__",
                "adapter receives (key, self.shape, level, self._raw_indexing_method)", f"adapter receives ({a0}, {a1}, .., {a3})", key="wrapper:adapter-args")
    # every key goes through the adapter; a direct path is only sound for BasicIndexer keys (ints and slices)
    from ..callgraph import guards_of as _guards
    for r in [n for n in wg.own_nodes() if isinstance(n, ast.Return)]:
        if r.value is adapter or (isinstance(r.value, ast.Call) and norm(r.value.func).endswith("explicit_indexing_adapter")):
            continue
        gs = [norm(t) for t, pol in _guards(r, wg.node) if pol]
        basic_only = any("isinstance(" in g and "BasicIndexer" in g and "OuterIndexer" not in g and "VectorizedIndexer" not in g for g in gs)
        chk.require(basic_only, "C02-X4", f"{xm.relpath}:LazilyIndexedWrapper.__getitem__", f"`{short(r, 60)}` bypasses the adapter for BasicIndexer keys only",
                    f"`{short(r, 70)}` (guards: {gs or 'none'}) hands keys to the backend without xarray's decomposition: index arrays reach a backend that regroups rows by chunk, "
                    f"so unsorted/repeated line lists come back in the wrong order", key="wrapper:bypass")
    rim = xm.func("LazilyIndexedWrapper._raw_indexing_method")
    rr = [n for n in rim.own_nodes() if isinstance(n, ast.Return)]
    kp = rim.positional_params[1]
    rflow = Flow(rim)
    got = norm(rflow.expand(rr[0].value)) if len(rr) == 1 and rr[0].value is not None else None
    if got != f"self.array[{kp}]":
        # written differently: what reaches the Array is decided by evaluation on model keys (C02-X6)
        raise AnalysisError(f"{xm.relpath}:LazilyIndexedWrapper._raw_indexing_method returns `{got}`: not the recognised form self.array[{kp}]; not decided by the form rule")
    chk.ok("C02-X4", f"{xm.relpath}:LazilyIndexedWrapper._raw_indexing_method", "the key tuple is forwarded unchanged to the Array")


def x4_rows(chk, repo):
    am = repo.module(ARRAY)
    gi = am.func("Array.__getitem__")
    where = f"{am.relpath}:Array.__getitem__"
    flow = Flow(gi)
    param = gi.positional_params[1]
    sr = am.func("compute_selected_ranges")
    kinds = set()
    for n in sr.own_nodes():
        if isinstance(n, ast.Call) and isinstance(n.func, ast.Name) and n.func.id == "isinstance" and len(n.args) == 2 and norm(n.args[0]) == sr.positional_params[1]:
            kinds.add(norm(n.args[1]))
    chk.require(any("int" in k for k in kinds) and "slice" in kinds, "C02-X4", f"{am.relpath}:compute_selected_ranges", f"row dispatch covers {sorted(kinds)} (+ sequences)",
                f"row dispatch covers only {sorted(kinds)}", key="rows:dispatch")
    # the row selection is computed from the first indexer
    c0 = None
    for c in calls_in(gi):
        if any(x.key.endswith(":compute_selected_ranges") for x in resolve_callees(repo, gi, c.func)):
            c0 = c
    if c0 is None:
        raise AnalysisError("anchor vanished: compute_selected_ranges call in Array.__getitem__")
    from ..interproc import bind_args
    from ..dataflow import require_wired
    b0, _ = bind_args(resolve_callees(repo, gi, c0.func)[0], c0)
    sr_params = am.func("compute_selected_ranges").positional_params
    require_wired(chk, flow, b0.get(sr_params[1]), f"{param}[0]", "C02-X4", where, f"rows are selected by {param}[0]", "rows are not selected by the first indexer", key="getitem:row-indexer")
    require_wired(chk, flow, b0.get(sr_params[0]), "self.byte_ranges", "C02-X4", where, "rows are selected from self.byte_ranges", "rows are not selected from self.byte_ranges", key="getitem:row-source")
    chk.count("functions", 5)


def split_key(key):
    """-> (row component expr, rest expr) of a subscript key expression, or (None, None)"""
    if isinstance(key, ast.Call) and isinstance(key.func, ast.Name) and key.func.id == "tuple" and len(key.args) == 1:
        inner = key.args[0]
        if isinstance(inner, ast.Call) and isinstance(inner.func, ast.Name) and inner.func.id == "cons" and len(inner.args) == 2:
            return inner.args[0], inner.args[1]
        return split_key(inner)
    if isinstance(key, ast.Tuple) and len(key.elts) == 2 and isinstance(key.elts[1], ast.Starred):
        return key.elts[0], key.elts[1].value
    if isinstance(key, ast.BinOp) and isinstance(key.op, ast.Add) and isinstance(key.left, ast.Tuple) and len(key.left.elts) == 1:
        rest = key.right
        if isinstance(rest, ast.Call) and isinstance(rest.func, ast.Name) and rest.func.id == "tuple" and len(rest.args) == 1:
            rest = rest.args[0]
        return key.left.elts[0], rest
    return None, None


def is_tail_of(e, param):
    return (isinstance(e, ast.Subscript) and isinstance(e.value, ast.Name) and e.value.id == param and isinstance(e.slice, ast.Slice)
            and isinstance(e.slice.lower, ast.Constant) and e.slice.lower.value == 1 and e.slice.upper is None and e.slice.step is None)


def is_empty_result(repo, gi, sub):
    return False


def column_delegation(chk, repo, rule):
    """every return of Array.__getitem__ is data[row component, *indexers[1:]]"""
    am = repo.module(ARRAY)
    gi = am.func("Array.__getitem__")
    where = f"{am.relpath}:Array.__getitem__"
    flow = Flow(gi)
    param = gi.positional_params[1]
    rets = [n for n in gi.own_nodes() if isinstance(n, ast.Return)]
    # ---------------------------------------------------------------- X1
    finals = []
    for r in rets:
        e = r.value
        if isinstance(e, ast.Name):
            d = flow.reaching_def(e.id, e)
            e = d if d is not None else e
        if isinstance(e, ast.Subscript):
            finals.append((r, e))
        else:
            # a return path that does not index the assembled rows with the caller's column indexers
            chk.fail(rule, where, f"`{short(r, 70)}` returns without applying the caller's column indexers ({param}[1:]): "
                                      f"on that path the result has all columns whatever was asked for (shape differs from NumPy's)", key="getitem:return-without-columns")
    n_ok = 0
    row_components = []
    for r, sub in finals:
        key = flow.expand(sub.slice)
        row, rest = split_key(key)
        good = rest is not None and is_tail_of(rest, param)
        if rest is None and is_empty_result(repo, gi, sub):
            continue
        chk.require(good, rule, where, f"result = data[{short(row, 30) if row is not None else '?'}, *{param}[1:]]: column indexers reach NumPy unchanged and in order",
                    f"final subscript is {short(key, 80)}: the caller's column indexers ({param}[1:]) are not applied unchanged", key="getitem:column-delegation",
                    sample={"subscript": short(key, 80)})
        n_ok += 1
        if row is not None:
            row_components.append((r, sub, row))
    if n_ok == 0:
        chk.fail(rule, where, f"no return of the form data[row, *{param}[1:]] found", key="getitem:column-delegation")
    return row_components
