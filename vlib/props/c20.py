"""C20 -- blank means missing, padding is inert"""
from __future__ import annotations

import ast

from ..abseval import Unknown, render, run_paths
from ..adapters import DATATYPES, check_adapter
from ..core import AnalysisError, const_str, norm, short
from ..records import Layouts
from ..reference import is_padding_name
from ..shapes import Choice, Const, DictS, Leaf, ListLit, ListOf, Obj, TupS
from ..shapes_rules import pipelines
from ..symexpr import Undecidable, show_paths, summarize

LEVEL = "other"

# fields that the format requires to be filled (flags, counts, codes, date-time texts): conversions on them are allowed.
# One line of reason each; keyed by struct field path.
REQUIRED = {
    "platform_position.occurrence_flag_of_a_leap_second": "flag column (0/1), always filled",
    "facility_related_data_5.prf_switching_flag": "flag column (0/1), always filled",
    "attitude.data_points[].attitude.pitch_error": "quality flag column", "attitude.data_points[].attitude.roll_error": "quality flag column",
    "attitude.data_points[].attitude.yaw_error": "quality flag column", "attitude.data_points[].rates.pitch_error": "quality flag column",
    "attitude.data_points[].rates.roll_error": "quality flag column", "attitude.data_points[].rates.yaw_error": "quality flag column",
    "attitude.data_points[].time.day_of_year": "date-time column of every attitude point", "attitude.data_points[].time.millisecond_of_day": "date-time column of every attitude point",
    "dataset_summary.scene_center_time": "date-time text", "volume_descriptor.logical_volume_creation_datetime": "date-time text",
    "platform_position.datetime_of_first_point.date": "date-time text", "platform_position.datetime_of_first_point.seconds_of_day": "date-time column",
    "facility_related_data_5.calibration_mode_data_location_flag": "code column",
}
# conversions that do not fabricate a value from a blank
HARMLESS_OPS = ("np.array[", "np.asarray[", "astype[", "*", "[", "split", "tolist", "copy")


def run(chk, repo):
    L = Layouts(repo)
    chk.explanation = (
        "Blank handling is decided on classes of inputs: the ASCII adapters are evaluated abstractly on an all-blank "
        "field (-> -1 / NaN / ''), header transformers are evaluated on the blank sentinel of the very codec of the "
        "field they are keyed by (sentinel agreement), and the output schema obtained by shape inference is searched "
        "for (a) any value whose provenance is a spare/blank/reserved area and (b) conversions (bool/int/arithmetic) "
        "applied to nullable value fields. The byte-by-byte influence map of the property's thorough tier is an "
        "execution-based notion; statically it is replaced by (a): no data-flow path from a padding leaf to the output."
    )
    chk.trusted = ["typing rules of toolz/builtins in vlib/shapes_lib.py", "construct decodes PaddedString/Bytes/IntNub without failing on any content of their class"]
    chk.rule("C20-P1", "no value whose source is a spare/blank/reserved area reaches the output tree", 5)
    chk.rule("C20-P2", "transformers keyed by a nullable field test that field's own blank sentinel; no conversion fabricates a value from a blank", 5)
    chk.rule("C20-P3", "adapter blank semantics: blank integer -> -1, blank float -> NaN, blank text -> '', NUL padding -> b''", 4)
    chk.rule("C20-P4", "optional header attributes are dropped through the empty-list marker", 3)
    chk.attempt(blank_entries_kept, chk, repo)  # an evaluation on concrete columns: decided before (and whether or not) the symbolic inference below applies
    chk.attempt(padding_content, chk, repo, L)  # decided on constant padding content, before the symbolic inference
    P = pipelines(repo, L)
    results = P.run()
    # ---------------------------------------------------------------- P1
    total = 0
    for pipe, v in results.items():
        leaves = P.I.leaves(v)
        total += len(leaves)
        bad = []
        for lf in leaves:
            for src in (lf.src,) + tuple(lf.also):
                if any(is_padding_name(c.replace("[]", "")) for c in src):
                    bad.append(".".join(src))
        chk.require(not bad, "C20-P1", pipe, f"{len(leaves)} output leaves, none sourced from padding",
                    f"padding areas surface in the tree: {sorted(set(bad))[:5]} - their content changes the result", key=f"{pipe}:padding:{'/'.join(sorted(set(bad))[:3])}",
                    sample={"pipeline": pipe, "leaves": len(leaves)})
    chk.count("output_leaves", total)
    # the padding leaves themselves: how many, and with which codecs
    n_pad = 0
    for key in ("leader", "volume", "signal", "processed", "image_descriptor"):
        for lf in L.by_name(key).values():
            if lf.kind == "field" and any(is_padding_name(c.replace("[]", "")) for c in lf.path):
                n_pad += 1
    chk.count("padding_leaves", n_pad)
    if n_pad < 40:
        raise AnalysisError(f"only {n_pad} padding leaves recognised in the layouts (expected > 40): the padding name predicate lost its anchors")
    # remove_spares' own predicate must agree with the names used for padding in the structs it is applied to
    p1_predicate(chk, repo, L)
    padding_borders(chk, L)
    chk.attempt(padding_codecs, chk, L)
    # ---------------------------------------------------------------- P2 (b) conversions on nullable fields
    nullable = {}
    for key, prefix in (("leader", ""), ("volume", ""), ("image_descriptor", ""), ("signal", ""), ("processed", "")):
        for lf in L.by_name(key).values():
            classes = [a.get("cls") for a in lf.chain]
            if lf.kind == "field" and lf.base == "PaddedString" and any(c in ("AsciiInteger", "AsciiFloat") for c in classes):
                nullable[lf.name] = classes
    n_checked = 0
    for pipe, v in results.items():
        if pipe.startswith("lines:"):
            continue
        for lf in P.I.leaves(v):
            for src in (lf.src,) + tuple(lf.also):
                name = ".".join(src)
                if name not in nullable:
                    continue
                n_checked += 1
                ops = [o for o in lf.ops if not o.startswith(HARMLESS_OPS)]
                if not ops or name in REQUIRED:
                    continue
                if pipe == "header":
                    continue  # decided by sentinel evaluation below
                chk.fail("C20-P2", f"{pipe}: {name}", f"nullable field {name} ({'/'.join(c for c in nullable[name] if c)}) is converted with {ops}: a blank field (-1 / NaN) yields a fabricated value instead of a missing one",
                         key=f"{pipe}:{name}:conversion")
    chk.ok("C20-P2", "pipelines", f"{n_checked} output leaves sourced from nullable ASCII numeric fields: conversions only on the {len(REQUIRED)} required columns")
    # ---------------------------------------------------------------- P2 (a) / P4 header transformers
    header_sentinels(chk, repo, L)
    chk.attempt(blank_never_raises, chk, repo, L, P, nullable)
    chk.attempt(blank_chains, chk, repo, L)
    # ---------------------------------------------------------------- P3
    def p3(chk, repo, L):
        # form rule on the adapters' `_decode` bodies; what each codec chain gives on the all-blank field is decided by evaluation (C20-P5)
        try:
            for cls in ("AsciiInteger", "AsciiFloat", "PaddedString", "StripNullBytes", "AsciiComplex"):
                check_adapter(chk, "C20-P3v", repo, L.ev, (DATATYPES, cls), blank_rule="C20-P3")
        finally:
            _drop_value_rules(chk)
    chk.attempt(p3, chk, repo, L, covered_by="blank_chains", rules=("C20-P3",))


def blank_chains(chk, repo, L):
    """C20-P5: every codec chain that wraps a nullable text field in the layouts (PaddedString -> AsciiInteger / AsciiFloat ->
    Factor -> Metadata ...) is evaluated from the inside out on the all-blank text (the adapters' _decode bodies, by the
    checker's interpreter; each adapter instance is built by the class's own __init__): a blank field must come out as the
    sentinel of its kind (-1, NaN, '') - possibly scaled / paired with its attrs - and must never raise"""
    import math
    from ..shapes import Const, DictS, Fn, Interp, Obj, ShapeError, Top, TupS, _Raise
    chk.rule("C20-P5", "each codec chain over a nullable text field maps the all-blank field to its sentinel (NaN stays NaN through scale factors) and never raises", 10)
    dt = repo.module(DATATYPES)
    chains = {}
    for key in ("leader", "volume", "signal", "processed", "image_descriptor"):
        for lf in L.by_name(key).values():
            reader = lf.base == "Bytes" and lf.chain and (lf.chain[-1].get("raw_attrs") or {}).get("__width_param__") is not None
            if lf.kind != "field" or not (lf.base == "PaddedString" or reader):
                continue
            sig = tuple((a.get("cls"), tuple(sorted((k, repr(v)) for k, v in (a.get("attrs") or {}).items()))) for a in lf.chain)
            chains.setdefault(sig, (lf, key))
    I = Interp(repo)

    def instance(cls_name, mod, attrs):
        r = repo.resolve_module_name(mod, cls_name)
        if r.kind != "class":
            raise ShapeError(f"adapter class {cls_name} not found")
        obj = Obj(cls_name, dict(attrs), klass=(r.mod, r.node))
        return obj
    n = 0
    for sig, (lf, key) in sorted(chains.items(), key=lambda kv: repr(kv[0])):
        width = lf.width.value() if lf.width.is_const() else 8
        val = Const(" " * max(int(width), 1))  # what construct's PaddedString hands to the innermost adapter
        if lf.base == "Bytes":
            val = Const(b" " * max(int(width), 1))  # a reader class of the package takes the field's bytes from the stream itself
        where = f"{key}:{lf.name}"
        desc = " <- ".join(a.get("cls") or "?" for a in lf.chain) or "PaddedString"
        try:
            for a in reversed(lf.chain):
                if a.get("kind") == "Enum":
                    val = val  # an Enum over a text falls back to the text itself for unknown codes
                    continue
                mod = repo.modules.get(a.get("clsmod"))
                raw = a.get("raw_attrs") or {}
                attrs = {}
                for k, v in raw.items():
                    if isinstance(v, (int, float, str, bool, type(None))):
                        attrs[k] = Const(v)
                    elif isinstance(v, dict):
                        attrs[k] = DictS({kk: Const(vv) for kk, vv in v.items() if isinstance(vv, (int, float, str, bool, type(None)))})
                obj = instance(a["cls"], mod, attrs)
                # derived attributes set by __init__ beyond the plain ones: run __init__'s self-assignments
                found = I.find_class_attr(obj.klass[0], obj.klass[1], "__init__")
                if found is not None:
                    fi = found[1].funcs.get(found[2][0])
                    sc = I.module_scope(found[1]).child(owner=fi)
                    sc.vars["self"] = obj
                    for p_ in fi.positional_params[1:]:
                        sc.vars[p_] = attrs.get(p_, Top(f"constructor argument {p_}"))
                    if fi.node.args.kwarg is not None:
                        sc.vars[fi.node.args.kwarg.arg] = attrs.get("attrs", DictS())
                    for st in fi.node.body:
                        if isinstance(st, ast.Assign) and isinstance(st.targets[0], ast.Attribute) and isinstance(st.targets[0].value, ast.Name) and st.targets[0].value.id == "self":
                            try:
                                I.exec_stmt(st, sc, [])
                            except (ShapeError, _Raise):
                                pass
                from .adapter_eval import decode_callable
                val = decode_callable(I, repo, a, obj)(val)
        except _Raise as e:
            chk.fail("C20-P5", where, f"codec chain {desc}: an all-blank field raises ({e.what[:70]}) instead of decoding to its sentinel - a blank value field makes the whole file unreadable",
                     key=f"blank-chain:{desc}:raises")
            n += 1
            continue
        except ShapeError as e:
            raise AnalysisError(f"{where}: codec chain {desc} cannot be evaluated on the blank field: {e}")
        n += 1
        core = val.elts[0] if isinstance(val, TupS) and val.elts else val
        classes = [a.get("cls") for a in lf.chain]
        if isinstance(core, Top):
            raise AnalysisError(f"{where}: codec chain {desc} gives {core!r} on the blank field; not decided")
        v = core.v if isinstance(core, Const) else None
        if "AsciiFloat" in classes or "AsciiComplex" in classes:
            ok = isinstance(v, (float, complex)) and (math.isnan(v.real) if isinstance(v, complex) else math.isnan(v))
            want = "NaN"
        elif "AsciiInteger" in classes:
            ok = isinstance(v, (int, float)) and not isinstance(v, bool) and (v == -1 or ("Factor" in classes and v < 0))
            want = "-1 (times its scale factor)"
        else:
            ok = v == ""
            want = "''"
        chk.require(ok, "C20-P5", where, f"codec chain {desc}: blank field -> {v!r} ({want})",
                    f"codec chain {desc}: an all-blank field decodes to {v!r}, expected {want}: a missing value is indistinguishable from a real one", key=f"blank-chain:{desc}:value",
                    sample={"chain": desc, "blank": repr(v)})
    if n == 0:
        raise AnalysisError("no codec chain over a text field found in the layouts")


def _drop_value_rules(chk):
    chk.rules.pop("C20-P3v", None)
    chk.obligations[:] = [o for o in chk.obligations if o["rule"] != "C20-P3v"]
    # value semantics of filled fields belong to C03/C04, not to this property
    chk.violations[:] = [v_ for v_ in chk.violations if v_["rule"] != "C20-P3v"]


def padding_borders(chk, L):
    """the border between a field and the padding next to it is where the reference layout puts it: a field that grew
    while a padding area of the same record shrank (or the reverse) now reads padding bytes as data (or drops data bytes)"""
    from ..reference import leaf_record, load
    ref = load()["records"]
    n = 0
    for key in ("leader", "volume", "signal", "processed", "image_descriptor", "trailer"):
        cur = L.by_name(key)
        pads_changed, fields_changed = [], []
        for r in ref[key]["leaves"]:
            lf = cur.get(r["path"])
            if lf is None or r["kind"] != "field":
                continue
            now = leaf_record(lf)
            n += 1
            if now["width"] != r["width"]:
                (pads_changed if r["padding"] else fields_changed).append((r["path"], r["width"], now["width"]))
        top = lambda p: p.split(".")[0]
        for path, w0, w1 in fields_changed:
            comp = [(pp, a, b) for pp, a, b in pads_changed if top(pp) == top(path) or "." not in path]
            if comp:
                chk.fail("C20-P1", f"{key}: {path}", f"field {path} changed its width {w0} -> {w1} while the padding {comp[0][0]} of the same record changed {comp[0][1]} -> {comp[0][2]}: "
                                                        f"the field now covers bytes the format leaves blank (or loses bytes to the padding); non-blank padding content changes or breaks the value", key=f"{key}:{path}:padding-border")
    chk.ok("C20-P1", "layouts", f"{n} reference fields: no field changed its width at the expense of a padding area of its record")


def _strictness(codec):
    """how much a codec demands of the bytes it reads: 0 nothing (raw bytes, integers), 1 decodable text, 2 numeric text"""
    txt = " ".join(codec)
    if "AsciiInteger" in txt or "AsciiFloat" in txt or "AsciiComplex" in txt:
        return 2
    if "PaddedString" in txt or "CString" in txt or "String" in txt:
        return 1
    return 0


def padding_codecs(chk, L):
    """a padding area keeps a codec that cannot fail on the content its class allows: bytes that the reference layout reads as raw
    bytes / an integer must not be read as text (ASCII decoding fails on bytes >= 0x80), a text spare must not be read as a
    number - otherwise padding content makes the whole file unreadable"""
    from ..reference import leaf_record, load
    ref = load()["records"]
    names = {0: "raw bytes / an integer (any content)", 1: "ASCII text (fails on bytes >= 0x80)", 2: "a number in ASCII text (fails on anything else)"}
    n = 0
    for key in ("leader", "volume", "signal", "processed", "image_descriptor", "trailer"):
        cur = L.by_name(key)
        by_span = {}
        for lf in cur.values():
            if lf.kind == "field" and lf.offset.is_const() and lf.width is not None and lf.width.is_const():
                by_span[(lf.offset.value(), lf.width.value())] = lf
        for r in ref[key]["leaves"]:
            if not r["padding"] or r["kind"] != "field":
                continue
            lf = cur.get(r["path"])
            if lf is None:
                try:
                    lf = by_span.get((int(r["offset"]), int(r["width"])))
                except (TypeError, ValueError):
                    lf = None
            same_span = lf is not None and lf.offset.is_const() and lf.width is not None and lf.width.is_const() and str(lf.offset.value()) == str(r["offset"]) and str(lf.width.value()) == str(r["width"])
            if lf is None or not same_span:
                # re-sliced padding: whatever now starts inside the area at a fixed position must not demand more of the bytes than the area's
                # class allows (the layout comparison judges the rest)
                try:
                    lo, hi = int(r["offset"]), int(r["offset"]) + int(r["width"])
                except (TypeError, ValueError):
                    lo = hi = None
                was = _strictness(r["codec"])
                for (o, w), inner in sorted(by_span.items()):
                    if lo is not None and lo <= o < hi and w > 0 and inner is not lf:
                        n += 1
                        now = _strictness(leaf_record(inner)["codec"])
                        chk.require(now <= was, "C20-P1", f"{key}: {r['path']}", f"bytes {o}..+{w} of the padding {r['path']} are read as {names[now].split(' (')[0]}",
                                    f"padding {r['path']} (bytes {r['offset']}..+{r['width']}) was read as {names[was]}; its bytes {o}..+{w} are now the field {inner.name}, read as {names[now]}: padding content of "
                                    f"its declared class makes the record - and the open - fail, or steers how the rest of the record is cut", key=f"{key}:{r['path']}:padding-resliced")
                if lf is None:
                    continue
            n += 1
            was, now = _strictness(r["codec"]), _strictness(leaf_record(lf)["codec"])
            chk.require(now <= was, "C20-P1", f"{key}: {r['path']}", f"padding {r['path']} is read as {names[now].split(' (')[0]}",
                        f"padding {r['path']} (bytes {r['offset']}..+{r['width']}) was read as {names[was]} and is now read as {names[now]}: padding content of its declared class makes the record - and the open - fail",
                        key=f"{key}:{r['path']}:padding-codec")
    if n == 0:
        raise AnalysisError("no padding area of the reference layout was found in the current layouts")


def p1_predicate(chk, repo, L):
    """remove_spares evaluated (shape interpreter, constant keys) on a mapping holding the padding names that occur in the
    structs next to look-alike field names, at top level and nested: exactly spare/spareN/blanks/blanksN disappear"""
    from ..shapes import DictS, Interp, ListLit, ShapeError, _Raise
    tr = repo.module("ceos_alos2.transformers")
    rs = tr.func("remove_spares")
    names = ["spare", "spare1", "spare12", "blanks", "blanks1", "blanks2", "blanks10"]
    keep = ["spare_parts", "blanksmith", "sparex", "preamble", "scene_id", "b", "spar"]

    def mapping():
        inner = DictS({n: Const(2) for n in names + keep})
        d = DictS({n: Const(1) for n in names + keep})
        d.items["section"] = inner
        d.items["records"] = ListLit([DictS({n: Const(3) for n in names + keep})])
        return d
    I = Interp(repo, strict=False)  # abstract evaluation on input classes (blank / filled), not on concrete values
    f = I.lookup("remove_spares", I.module_scope(tr))
    try:
        out = I.call(f, [mapping()], {})
    except (_Raise, ShapeError) as e:
        raise AnalysisError(f"{tr.relpath}:remove_spares: cannot evaluate it on a mapping of padding names: {e}")
    levels = {}
    if isinstance(out, DictS):
        levels["top level"] = out
        if isinstance(out.items.get("section"), DictS):
            levels["nested section"] = out.items["section"]
        rec = out.items.get("records")
        if isinstance(rec, ListLit) and rec.elts and isinstance(rec.elts[0], DictS):
            levels["list of records"] = rec.elts[0]
    if len(levels) != 3:
        raise AnalysisError(f"{tr.relpath}:remove_spares: result {out!r:.120} is not a mapping with the nested section and record list kept; not decided")
    bad = []
    for lvl, d in levels.items():
        bad += [f"{n!r} kept ({lvl})" for n in names if n in d.items]
        bad += [f"{n!r} dropped ({lvl})" for n in keep if n not in d.items]
    chk.require(not bad, "C20-P1", f"{tr.relpath}:remove_spares", "drops spare/spareN/blanks/blanksN and nothing else, at every nesting level",
                f"remove_spares misclassifies {bad[:6]}", key="remove_spares:predicate")


def blank_never_raises(chk, repo, L, P, nullable):
    """C20-P6: every `raise` the transform pipelines reach under a test on decoded field values (recorded while shape inference
    ran them on symbolic records) is re-evaluated with each nullable field of that test at its blank sentinel (-1 / NaN): a
    test that then decides for the raising arm makes a blank value field fail the whole open instead of surfacing as missing"""
    import math
    from ..shapes import Choice, Const, DictS, Interp, Leaf, ListLit, ListOf, Obj, ShapeError, TupS, _Raise
    chk.rule("C20-P6", "no raise on the transform paths fires for a blank (-1 / NaN) value field", 0)
    sentinel = {}
    for name, classes in nullable.items():
        sentinel[name] = float("nan") if "AsciiFloat" in classes else -1

    def subst(v, name, depth=0):
        if depth > 8:
            return v
        if isinstance(v, Leaf):
            if ".".join(v.src) == name and not v.also:
                ops = [o for o in v.ops if not o.startswith(HARMLESS_OPS)]
                if ops:
                    raise ShapeError("derived")
                return Const(sentinel[name])
            return v
        if isinstance(v, TupS):
            return TupS([subst(x, name, depth + 1) for x in v.elts])
        if isinstance(v, ListLit):
            return ListLit([subst(x, name, depth + 1) for x in v.elts])
        if isinstance(v, DictS):
            d = DictS()
            for k, x in v.items.items():
                d.items[k] = subst(x, name, depth + 1)
            return d
        if isinstance(v, Obj) and v.cls in ("Variable", "Group"):
            return Obj(v.cls, {k: subst(x, name, depth + 1) for k, x in v.fields.items()}, klass=getattr(v, "klass", None))
        return v
    n_events = n_fired = 0
    for ev in P.I.cond_raises:
        names = {x.id for x in ast.walk(ev["test"]) if isinstance(x, ast.Name)}
        vals = {nm: ev["scope"].lookup(nm) for nm in names}
        fields = set()
        for v in vals.values():
            if v is None:
                continue
            for lf in P.I.leaves(v):
                nm = ".".join(lf.src)
                if nm in sentinel:
                    fields.add(nm)
        if not fields:
            continue
        n_events += 1
        where = f"{ev['where'].module.relpath}:{ev['where'].qualname}" if hasattr(ev["where"], "qualname") else "transform pipeline"
        for f in sorted(fields):
            I2 = Interp(repo)
            sc2 = ev["scope"].child()
            try:
                for nm, v in vals.items():
                    if v is not None:
                        sc2.vars[nm] = subst(v, f)
                t = I2.truth(I2.eval(ev["test"], sc2))
            except (ShapeError, _Raise, RecursionError):
                continue
            if t is None:
                continue
            if t == ev["when"]:
                n_fired += 1
                shown = "NaN" if isinstance(sentinel[f], float) else sentinel[f]
                chk.fail("C20-P6", where, f"`if {short(ev['test'], 60)}` raises ({ev['what'][:60]}) when {f} is blank (decoded as {shown}): a blank value field makes the whole open fail instead of surfacing as missing",
                         key=f"{where}:{f}:raises-on-blank")
    if n_fired == 0:
        chk.ok("C20-P6", "pipelines", f"{len(P.I.cond_raises)} data-dependent raises on the transform paths, {n_events} of them test a nullable numeric field: none fires for the blank sentinel")


def header_sentinels(chk, repo, L):
    """extract_attrs evaluated by the shape interpreter on image headers whose nullable fields are set to their blank
    sentinel or to a filled value, one at a time and in pairs: a blank field must not surface, a filled one must surface
    with its value, and neither may depend on what its siblings hold.  Independent of how the function is written."""
    import itertools
    from ..shapes import Choice, DictS, Interp, Leaf, ShapeError, TupS, _Raise, shape_of_con
    md = repo.module("ceos_alos2.sar_image.metadata")
    ea = md.func("extract_attrs")
    where = f"{md.relpath}:extract_attrs"
    con = L.con("image_descriptor")
    hdr_leaves = L.by_name("image_descriptor")
    byname = {lf.path[-1]: lf for lf in hdr_leaves.values() if lf.kind == "field"}

    def header(values):
        h = shape_of_con(con)

        def put(d):
            for k, v in list(d.items.items()):
                if isinstance(v, DictS):
                    put(v)
                elif k in values:
                    d.items[k] = Const(values[k])
        put(h)
        return h

    def run_on(values):
        I = Interp(repo, strict=False)  # abstract evaluation on input classes (blank / filled), not on concrete values
        f = I.lookup("extract_attrs", I.module_scope(md))
        try:
            out = I.call(f, [header(values)], {})
        except (_Raise, ShapeError) as e:
            raise AnalysisError(f"{where}: cannot evaluate extract_attrs on a header with {values}: {e}")
        if isinstance(out, Choice) and all(isinstance(a, DictS) for a in out.alts) and not values:
            merged = DictS()
            for a in out.alts:
                for k, v in a.items.items():
                    merged.items.setdefault(k, v)
            out = merged
        if not isinstance(out, DictS):
            raise AnalysisError(f"{where}: extract_attrs does not evaluate to a dict ({out!r:.120})")
        return I, out

    # which header field feeds which attribute (symbolic header)
    I0, out0 = run_on({})
    feeds = {}
    for key, val in out0.items.items():
        for lf in I0.leaves(val):
            if lf.src and lf.src[-1] in byname:
                feeds.setdefault(lf.src[-1], key)
    nullable = {}
    for field, key in feeds.items():
        classes = [a.get("cls") for a in byname[field].chain]
        if "AsciiInteger" in classes:
            nullable[field] = (key, -1, "-1 (blank AsciiInteger)", [0, 1, 65535])
        elif "AsciiFloat" in classes:
            nullable[field] = (key, float("nan"), "NaN (blank AsciiFloat)", [0.0, 1.5])
    if len(nullable) < 4:
        raise AnalysisError(f"{where}: only {sorted(nullable)} numeric header fields surface as attributes (expected the pixel range and the three burst fields)")
    filled = {f: (100 + i if isinstance(nullable[f][1], int) else 100.5 + i) for i, f in enumerate(sorted(nullable))}

    def plain(v):
        from ..repeval import from_shape
        try:
            return from_shape(v)
        except AnalysisError:
            return repr(v)

    def holds(out, field, value):
        key = nullable[field][0]
        if key not in out.items or key in out.optional:
            return False
        got = plain(out.items[key])
        return got == value or (isinstance(got, (list, tuple)) and value in got)

    def absent(out, field):
        return nullable[field][0] not in out.items

    # one field blank, the others filled; and pairs of blanks
    for combo in [c for r in (1, 2) for c in itertools.combinations(sorted(nullable), r)]:
        values = dict(filled)
        for f in combo:
            values[f] = nullable[f][1]
        _, out = run_on(values)
        for f in sorted(nullable):
            if f in combo:
                ok = absent(out, f)
                if len(combo) == 1:
                    chk.require(ok, "C20-P2", where, f"{f}: blank sentinel {nullable[f][2]} -> attribute {nullable[f][0]!r} is not produced",
                                f"{f} is blank ({nullable[f][2]}) but the attribute {nullable[f][0]!r} surfaces as {plain(out.items.get(nullable[f][0]))!r}: a fabricated value instead of a missing one",
                                key=f"header:{f}:sentinel", sample={"field": f, "blank": nullable[f][2]})
                elif not ok:
                    chk.fail("C20-P2", where, f"{f} and {[x for x in combo if x != f][0]} blank: attribute {nullable[f][0]!r} still surfaces as {plain(out.items.get(nullable[f][0]))!r}", key=f"header:{f}:sentinel")
            else:
                ok = holds(out, f, filled[f])
                if not ok:
                    chk.fail("C20-P4", where, f"{f} is filled ({filled[f]!r}) but with {list(combo)} blank its attribute {nullable[f][0]!r} is {plain(out.items.get(nullable[f][0])) if nullable[f][0] in out.items else 'missing'}: "
                                              f"a present header value is dropped or altered because a sibling field is blank", key=f"header:{f}:filled-with-blank-sibling")
    # filled values are kept as they are (0 is a value, not a marker)
    for f in sorted(nullable):
        for v in nullable[f][3]:
            values = {g: nullable[g][1] for g in nullable}
            values[f] = v
            _, out = run_on(values)
            others_absent = all(absent(out, g) for g in nullable if g != f)
            chk.require(holds(out, f, v) and others_absent, "C20-P4", where, f"{f}: filled value {v!r} surfaces as {nullable[f][0]!r} (every other nullable field blank: none of them surfaces)",
                        f"{f}: filled value {v!r} -> {plain(out.items.get(nullable[f][0])) if nullable[f][0] in out.items else 'missing'}"
                        f"{'' if others_absent else '; blank siblings surface: ' + str([g for g in nullable if g != f and not absent(out, g)])}: a present header value is dropped or altered",
                        key=f"header:{f}:filled:{v!r}")


def padding_content(chk, repo, L):
    """C20-P8: each transform pipeline is evaluated twice on its struct's own shape, the value fields symbolic as in the inference,
    the spare / blank / reserved areas (1) holding what a space- or NUL-filled area decodes to and (2) each holding its own distinct
    content of its class.  Whether the pipeline raises and what it returns must be the same in both runs: padding content that decides
    an exception or changes the result is what the property excludes.  Nothing is said when both runs end the same way (the symbolic
    inference decides the rest) or when a run cannot be evaluated"""
    from ..schema import desc, flatten
    from ..poly import Poly
    from ..shapes import Const, DictS, Interp, Leaf, ListLit, ListOf, NonTermination, ShapeError, TupS, _Raise, shape_of_con
    chk.rule("C20-P8", "whether a transform pipeline raises, and what it returns, does not depend on what the padding areas hold", 4)
    pipes = [("leader", "ceos_alos2.sar_leader.metadata", "transform_metadata", "leader", False), ("volume", "ceos_alos2.volume_directory.metadata", "transform_record", "volume", False),
             ("lines:signal", "ceos_alos2.sar_image.metadata", "transform_line_metadata", "signal", True), ("lines:processed", "ceos_alos2.sar_image.metadata", "transform_line_metadata", "processed", True),
             ("header", "ceos_alos2.sar_image.metadata", "extract_attrs", "image_descriptor", False)]

    def fill(v, distinct, counter, under=False):
        if isinstance(v, DictS):
            d = DictS()
            for k, x in v.items.items():
                d.items[k] = fill(x, distinct, counter, under or is_padding_name(str(k)))
            d.optional = set(v.optional)
            return d
        if isinstance(v, ListOf):
            return ListOf(fill(v.elem, distinct, counter, under), v.n, getattr(v, "maybe_empty", False))
        if isinstance(v, TupS):
            return TupS([fill(x, distinct, counter, under) for x in v.elts])
        if isinstance(v, Leaf) and under and not v.ops and v.kind in ("str", "bytes"):
            counter[0] += 1
            text = f"PAD{counter[0]:03d}" if distinct else ""
            return Const(text if v.kind == "str" else text.encode())
        return v
    n_done = 0
    for pipe, modname, fname, key, many in pipes:
        where = f"{repo.module(modname).relpath}:{fname}"
        outcomes = []
        n_areas = 0
        for distinct in (False, True):
            counter = [0]
            try:
                rec = fill(shape_of_con(L.con(key)), distinct, counter)
                n_areas = counter[0]
                arg = ListOf(rec, Poly.sym("n_lines")) if many else rec
                I = Interp(repo, strict=False)
                out = I.call(I.resolve_global(repo.module(modname), fname), [arg], {})
                outcomes.append(("returns", dict(flatten(out)) if not isinstance(out, (Leaf, Const)) else {"/": desc(out)}))
            except _Raise as e:
                outcomes.append(("raises", e.what))
            except (ShapeError, NonTermination, RecursionError, AnalysisError) as e:
                outcomes.append(("undecided", str(e)))
        if n_areas == 0 or any(o[0] == "undecided" for o in outcomes):
            continue
        n_done += 1
        (k0, v0), (k1, v1) = outcomes
        if k0 == "returns" and k1 == "raises":
            chk.fail("C20-P8", where, f"{pipe}: with its {n_areas} padding areas blank the pipeline returns, with other content in them it raises ({v1[:90]}): padding content makes the open fail",
                     key=f"{pipe}:padding-content:raises")
        elif k0 == "raises" and k1 == "returns":
            chk.fail("C20-P8", where, f"{pipe}: with its {n_areas} padding areas blank the pipeline raises ({v0[:90]}), with other content in them it returns: the outcome depends on padding content",
                     key=f"{pipe}:padding-content:raises")
        elif k0 == "returns" and v0 != v1:
            diff = sorted(k for k in set(v0) | set(v1) if v0.get(k) != v1.get(k))
            chk.fail("C20-P8", where, f"{pipe}: the result differs between blank and filled padding areas at {diff[:4]} (e.g. {str(v0.get(diff[0]))[:50]} / {str(v1.get(diff[0]))[:50]})",
                     key=f"{pipe}:padding-content:{diff[0]}")
        else:
            chk.ok("C20-P8", where, f"{pipe}: {n_areas} padding areas blank / each with its own content: same outcome")
    if n_done == 0:
        raise AnalysisError("C20-P8: none of the transform pipelines could be evaluated with constant padding content")


def blank_entries_kept(chk, repo):
    """C20-P7: transformers.separate_attrs - where the columns of every table (state vectors, per-channel tables, attitude points, the
    per-line metadata) are assembled - evaluated on concrete columns with blank entries (NaN / -1 / '') at the first, a middle and
    the last positions, and on an all-blank column: every entry comes back, in order, the blank ones as their sentinel.  A blank
    entry that is dropped shortens one column of a table against the others"""
    import math
    from collections import OrderedDict
    from ..repeval import from_shape, Undecided
    from ..shapes import Const, DictS, Interp, ListLit, NonTermination, ShapeError, TupS, _Raise
    chk.rule("C20-P7", "columns assembled from (value, attrs) pairs keep every entry: blank entries (NaN, -1, '') stay in place", 6)
    tm = repo.module("ceos_alos2.transformers")
    where = f"{tm.relpath}:separate_attrs"
    nan = float("nan")
    cols = {"blank last": [1.5, 2.5, nan], "blank tail": [1.5, nan, nan], "blank first": [nan, 2.5, 3.5], "blank middle": [1.5, nan, 3.5], "all blank": [nan, nan, nan], "integers": [3, -1, -1], "texts": ["a", "", ""]}
    for label, col in cols.items():
        I = Interp(repo)
        attrs = DictS(OrderedDict(units=Const("m")))
        data = ListLit([TupS([Const(v), attrs]) for v in col])
        try:
            out = I.call(I.lookup("separate_attrs", I.module_scope(tm)), [data], {})
            got = from_shape(out)
        except _Raise as e:
            chk.fail("C20-P7", where, f"a column with {label} entries ({col}) raises {e.what[:60]}", key=f"column:{label}")
            continue
        except (ShapeError, NonTermination, RecursionError, Undecided) as e:
            raise AnalysisError(f"{where}: cannot be evaluated on a concrete column ({label}): {str(e)[:120]}")
        vals = list(got[0]) if isinstance(got, (tuple, list)) and len(got) == 2 and isinstance(got[0], (list, tuple)) else None
        same = vals is not None and len(vals) == len(col) and all((isinstance(a, float) and isinstance(b, float) and math.isnan(a) and math.isnan(b)) or (a == b and type(a) is type(b)) for a, b in zip(vals, col))
        chk.require(same and got[1] == {"units": "m"}, "C20-P7", where, f"a column with {label} entries keeps all {len(col)} of them",
                    f"a column with {label} entries {col} comes back as {str(got)[:100]}: blank entries are dropped or replaced - the column no longer lines up with the other columns of its table",
                    key=f"column:{'blank-tail' if 'last' in label or 'tail' in label or 'all' in label else label}")
