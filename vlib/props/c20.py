"""C20 -- blank means missing, padding is inert"""
from __future__ import annotations

import ast

from ..abseval import Unknown, render, run_paths
from ..adapters import DATATYPES, check_adapter
from ..core import AnalysisError, const_str, norm, short
from ..records import Layouts
from ..reference import is_padding_name
from ..shapes import Choice, Const, DictS, Leaf, ListLit, ListOf, Obj, TupS
from ..shapes_rules import pipelines
from ..symexpr import Undecidable, show_paths, summarize

LEVEL = "other"

# fields that the format requires to be filled (flags, counts, codes, date-time texts): conversions on them are allowed.
# One line of reason each; keyed by struct field path.
REQUIRED = {
    "platform_position.occurrence_flag_of_a_leap_second": "flag column (0/1), always filled",
    "facility_related_data_5.prf_switching_flag": "flag column (0/1), always filled",
    "attitude.data_points[].attitude.pitch_error": "quality flag column", "attitude.data_points[].attitude.roll_error": "quality flag column",
    "attitude.data_points[].attitude.yaw_error": "quality flag column", "attitude.data_points[].rates.pitch_error": "quality flag column",
    "attitude.data_points[].rates.roll_error": "quality flag column", "attitude.data_points[].rates.yaw_error": "quality flag column",
    "attitude.data_points[].time.day_of_year": "date-time column of every attitude point", "attitude.data_points[].time.millisecond_of_day": "date-time column of every attitude point",
    "dataset_summary.scene_center_time": "date-time text", "volume_descriptor.logical_volume_creation_datetime": "date-time text",
    "platform_position.datetime_of_first_point.date": "date-time text", "platform_position.datetime_of_first_point.seconds_of_day": "date-time column",
    "facility_related_data_5.calibration_mode_data_location_flag": "code column",
}
# conversions that do not fabricate a value from a blank
HARMLESS_OPS = ("np.array[", "np.asarray[", "astype[", "*", "[", "split", "tolist", "copy")


def run(chk, repo):
    L = Layouts(repo)
    chk.explanation = (
        "Blank handling is decided on classes of inputs: the ASCII adapters are evaluated abstractly on an all-blank "
        "field (-> -1 / NaN / ''), header transformers are evaluated on the blank sentinel of the very codec of the "
        "field they are keyed by (sentinel agreement), and the output schema obtained by shape inference is searched "
        "for (a) any value whose provenance is a spare/blank/reserved area and (b) conversions (bool/int/arithmetic) "
        "applied to nullable value fields. The byte-by-byte influence map of the property's thorough tier is an "
        "execution-based notion; statically it is replaced by (a): no data-flow path from a padding leaf to the output."
    )
    chk.trusted = ["typing rules of toolz/builtins in vlib/shapes_lib.py", "construct decodes PaddedString/Bytes/IntNub without failing on any content of their class"]
    chk.rule("C20-P1", "no value whose source is a spare/blank/reserved area reaches the output tree", 5)
    chk.rule("C20-P2", "transformers keyed by a nullable field test that field's own blank sentinel; no conversion fabricates a value from a blank", 5)
    chk.rule("C20-P3", "adapter blank semantics: blank integer -> -1, blank float -> NaN, blank text -> '', NUL padding -> b''", 4)
    chk.rule("C20-P4", "optional header attributes are dropped through the empty-list marker", 3)
    P = pipelines(repo, L)
    results = P.run()
    # ---------------------------------------------------------------- P1
    total = 0
    for pipe, v in results.items():
        leaves = P.I.leaves(v)
        total += len(leaves)
        bad = []
        for lf in leaves:
            for src in (lf.src,) + tuple(lf.also):
                if any(is_padding_name(c.replace("[]", "")) for c in src):
                    bad.append(".".join(src))
        chk.require(not bad, "C20-P1", pipe, f"{len(leaves)} output leaves, none sourced from padding",
                    f"padding areas surface in the tree: {sorted(set(bad))[:5]} - their content changes the result", key=f"{pipe}:padding:{'/'.join(sorted(set(bad))[:3])}",
                    sample={"pipeline": pipe, "leaves": len(leaves)})
    chk.count("output_leaves", total)
    # the padding leaves themselves: how many, and with which codecs
    n_pad = 0
    for key in ("leader", "volume", "signal", "processed", "image_descriptor"):
        for lf in L.by_name(key).values():
            if lf.kind == "field" and any(is_padding_name(c.replace("[]", "")) for c in lf.path):
                n_pad += 1
    chk.count("padding_leaves", n_pad)
    if n_pad < 40:
        raise AnalysisError(f"only {n_pad} padding leaves recognised in the layouts (expected > 40): the padding name predicate lost its anchors")
    # remove_spares' own predicate must agree with the names used for padding in the structs it is applied to
    p1_predicate(chk, repo, L)
    # ---------------------------------------------------------------- P2 (b) conversions on nullable fields
    nullable = {}
    for key, prefix in (("leader", ""), ("volume", ""), ("image_descriptor", ""), ("signal", ""), ("processed", "")):
        for lf in L.by_name(key).values():
            classes = [a.get("cls") for a in lf.chain]
            if lf.kind == "field" and lf.base == "PaddedString" and any(c in ("AsciiInteger", "AsciiFloat") for c in classes):
                nullable[lf.name] = classes
    n_checked = 0
    for pipe, v in results.items():
        if pipe.startswith("lines:"):
            continue
        for lf in P.I.leaves(v):
            for src in (lf.src,) + tuple(lf.also):
                name = ".".join(src)
                if name not in nullable:
                    continue
                n_checked += 1
                ops = [o for o in lf.ops if not o.startswith(HARMLESS_OPS)]
                if not ops or name in REQUIRED:
                    continue
                if pipe == "header":
                    continue  # decided by sentinel evaluation below
                chk.fail("C20-P2", f"{pipe}: {name}", f"nullable field {name} ({'/'.join(c for c in nullable[name] if c)}) is converted with {ops}: a blank field (-1 / NaN) yields a fabricated value instead of a missing one",
                         key=f"{pipe}:{name}:conversion")
    chk.ok("C20-P2", "pipelines", f"{n_checked} output leaves sourced from nullable ASCII numeric fields: conversions only on the {len(REQUIRED)} required columns")
    # ---------------------------------------------------------------- P2 (a) / P4 header transformers
    header_sentinels(chk, repo, L)
    # ---------------------------------------------------------------- P3
    try:
        for cls in ("AsciiInteger", "AsciiFloat", "PaddedString", "StripNullBytes", "AsciiComplex"):
            check_adapter(chk, "C20-P3v", repo, L.ev, (DATATYPES, cls), blank_rule="C20-P3")
    finally:
        _drop_value_rules(chk)


def _drop_value_rules(chk):
    chk.rules.pop("C20-P3v", None)
    chk.obligations[:] = [o for o in chk.obligations if o["rule"] != "C20-P3v"]
    # value semantics of filled fields belong to C03/C04, not to this property
    chk.violations[:] = [v_ for v_ in chk.violations if v_["rule"] != "C20-P3v"]


def p1_predicate(chk, repo, L):
    """remove_spares' predicate, evaluated on the padding names that occur in structs handled by pipelines that rely on it"""
    from ..shapes import Interp, Fn
    tr = repo.module("ceos_alos2.transformers")
    rs = tr.func("remove_spares")
    pred = rs.children.get("predicate")
    if pred is None:
        raise AnalysisError("anchor vanished: predicate of remove_spares")
    I = Interp(repo)
    f = Fn("repo", func=pred, name="predicate", closure=I.module_scope(tr).child(owner=rs))
    names = ["spare", "spare1", "spare12", "blanks", "blanks1", "blanks2", "blanks10"]
    keep = ["spare_parts", "blanksmith", "sparex", "preamble", "scene_id", "b", "spar"]
    bad = []
    for n in names:
        t = I.truth(I.call(f, [Const(n)], {}))
        if t is not False:
            bad.append(f"{n!r} kept")
    for n in keep:
        t = I.truth(I.call(f, [Const(n)], {}))
        if t is not True:
            bad.append(f"{n!r} dropped")
    chk.require(not bad, "C20-P1", f"{tr.relpath}:remove_spares.predicate", "drops spare/spareN/blanks/blanksN and nothing else",
                f"remove_spares predicate misclassifies {bad}", key="remove_spares:predicate")


def header_sentinels(chk, repo, L):
    md = repo.module("ceos_alos2.sar_image.metadata")
    ea = md.func("extract_attrs")
    where = f"{md.relpath}:extract_attrs"
    tdict = None
    for n in ea.own_nodes():
        if isinstance(n, ast.Assign) and norm(n.targets[0]) == "transformers" and isinstance(n.value, ast.Dict):
            tdict = n.value
    if tdict is None:
        raise AnalysisError("anchor vanished: transformers of extract_attrs")
    hdr = L.by_name("image_descriptor")
    byname = {lf.path[-1]: lf for lf in hdr.values() if lf.kind == "field"}
    for k, v in zip(tdict.keys, tdict.values):
        field = const_str(k)
        lf = byname.get(field)
        if lf is None:
            chk.fail("C20-P2", where, f"transformer keyed by {field!r}, which is not a field of the image file descriptor", key=f"header:{field}:nofield")
            continue
        classes = [a.get("cls") for a in lf.chain]
        if "AsciiInteger" in classes:
            blank, samples = ("c", -1), [("c", 0), ("c", 1), ("c", 65535)]
            bname = "-1 (blank AsciiInteger)"
        elif "AsciiFloat" in classes:
            blank, samples = ("nan",), [("c", 0.0), ("c", 1.5)]
            bname = "NaN (blank AsciiFloat)"
        else:
            blank, samples = ("c", ""), [("c", "BSQ")]
            bname = "'' (blank text)"
        if not isinstance(v, ast.Lambda):
            raise AnalysisError(f"{where}: transformer of {field} is not a lambda; not modelled")
        try:
            params, paths = summarize(v)
        except Undecidable as e:
            raise AnalysisError(f"{where}: transformer of {field} outside the fragment: {e}")
        P0 = ("param", 0)
        try:
            got_blank = run_paths(paths, {P0: blank})
        except Unknown as e:
            raise AnalysisError(f"{where}: cannot evaluate the transformer of {field} on its blank sentinel: {e}")
        is_marker = got_blank == ("seq", "list", [])
        chk.require(is_marker, "C20-P2", where, f"{field}: blank sentinel {bname} -> [] (attribute dropped)",
                    f"{field} decodes a blank field to {bname}, but its transformer tests something else and yields {render(got_blank)}: a fabricated attribute instead of a missing one "
                    f"(normal form {show_paths(paths)[:120]})", key=f"header:{field}:sentinel", sample={"field": field, "codec": [c for c in classes if c], "blank": bname, "result": render(got_blank)})
        for s in samples:
            try:
                got = run_paths(paths, {P0: s})
            except Unknown as e:
                raise AnalysisError(f"{where}: cannot evaluate the transformer of {field} on {s}: {e}")
            keeps = got == s or (got[0] == "seq" and s in got[2])
            chk.require(keeps, "C20-P4", where, f"{field}: filled value {s[1]!r} -> {render(got)} (kept)",
                        f"{field}: filled value {s[1]!r} -> {render(got)}: a present header value is dropped or altered", key=f"header:{field}:filled:{s[1]!r}")
    # final filter drops exactly the empty-list marker
    from ..shapes import Interp, Fn
    pipe_call = [c for c in ast.walk(ea.node) if isinstance(c, ast.Call) and norm(c.func) == "pipe"]
    if not pipe_call:
        raise AnalysisError("anchor vanished: pipe in extract_attrs")
    last = pipe_call[0].args[-1]
    ok = isinstance(last, ast.Call) and norm(last.func) == "curry" and norm(last.args[0]) == "valfilter" and isinstance(last.args[1], ast.Lambda)
    if ok:
        I = Interp(repo)
        lam = I.eval(last.args[1], I.module_scope(md).child(owner=ea))
        drop_empty = I.truth(I.call(lam, [ListLit([])], {})) is False
        keep_list = I.truth(I.call(lam, [ListLit([Const(0), Const(5)])], {})) is True
        keep_zero = I.truth(I.call(lam, [Const(0)], {})) is True
        keep_str = I.truth(I.call(lam, [Const("")], {})) is True
        ok = drop_empty and keep_list and keep_zero
        detail = f"[] dropped={drop_empty}, [0, 5] kept={keep_list}, 0 kept={keep_zero}"
    else:
        detail = f"last stage is {short(last, 60)}"
    chk.require(ok, "C20-P4", where, f"the final valfilter drops exactly the empty-list marker ({detail})",
                f"the final stage does not drop exactly the empty-list marker: {detail}", key="header:final-filter")
