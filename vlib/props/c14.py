"""C14 -- summary parsing is total on well-formed text and reports every malformed line"""
from __future__ import annotations

import ast

from ..callgraph import catches, guards_of, handler_reraises
from ..core import AnalysisError, const_str, norm, parents, short
from ..dataflow import Flow, calls_in
from ..interproc import resolve_callees
from ..regexlang import compiled_regexes

LEVEL = "other"

SUMMARY = "ceos_alos2.summary"

ACCEPT = [
    ('Odi_SceneId="ALOS2012345678-140102"', ("Odi", "SceneId", "ALOS2012345678-140102")),
    ('Pdi_ProductFileName01="VOL-ALOS2-1"', ("Pdi", "ProductFileName01", "VOL-ALOS2-1")),
    ('Img_SceneCenterDateTime="20140102 01:02:03.456"', ("Img", "SceneCenterDateTime", "20140102 01:02:03.456")),
    ('Ach_Check=""', ("Ach", "Check", "")),
    ('Lbi_Note="a=b"', ("Lbi", "Note", "a=b")),
    ('Lbi_Note="say "hi" now"', ("Lbi", "Note", 'say "hi" now')),
    ('abc_K="v"', ("abc", "K", "v")),
    ('Odi_Comment="mode="fine" beam=F2"', ("Odi", "Comment", 'mode="fine" beam=F2')),
    ('Lbi_Note="x="y""', ("Lbi", "Note", 'x="y"')),
    ('Lbi_Note="="', ("Lbi", "Note", "=")),
    ('Lbi_Note="="""', ("Lbi", "Note", '=""')),
    ('Pds_ProductID="WWDR1.1__D"', ("Pds", "ProductID", "WWDR1.1__D")),
    ('Scs_A_B="x y"', ("Scs", "A_B", "x y")),
]
REJECT = [
    'Odi_SceneId=ALOS', 'Odi_SceneId="ALOS', 'OdiSceneId="x"', 'Od_SceneId="x"', 'Odix_SceneId="x"',
    '', ' Odi_A="x"', 'Odi_A="x" ', 'Odi_A="x"trailing', '1di_A="x"', 'Odi_A=x"', 'Odi_A "x"',
]


def run(chk, repo):
    mod = repo.module(SUMMARY)
    chk.explanation = (
        "Decides the line grammar on the regex literal (whole-line anchoring, witnesses for values with spaces, '=' "
        "and quotes, empty values, and grammar violations), the error-completeness structure of the line loop "
        "(no exit from the loop except through the collecting handler; one ExceptionGroup raised after the loop from "
        "every collected error with its own line number), CRLF-safe line splitting and the agreement of the section "
        "tables. Does NOT decide the per-key value conversions."
    )
    chk.trusted = ["stdlib re compiles the literal as at run time", "str.splitlines splits on LF and CRLF alike"]
    chk.rule("C14-S1", "a line is parsed by matching the whole line against entry_re", 1)
    chk.rule("C14-S2", "grammar witnesses on the regex literal: accepts well-formed entries (values with spaces, =, quotes and =\" sequences split at the first =\"), rejects malformed ones", 20)
    chk.rule("C14-S3", "error completeness: every malformed line is collected with its line number and raised in one group after the loop", 5)
    chk.rule("C14-S4", "lines come from str.splitlines() of the decoded text", 1)
    chk.rule("C14-S5", "section tables agree (section_names keys == transform_summary transformers keys)", 1)
    chk.rule("C14-S6", "entries are grouped by section and merged into dicts (no positional access)", 2)
    rx = compiled_regexes(mod)
    if "entry_re" not in rx:
        # re-exported from the module the parser moved to
        r = repo.resolve_module_name(mod, "entry_re")
        if r.kind == "value":
            rx = compiled_regexes(r.mod)
    if "entry_re" not in rx:
        raise AnalysisError("anchor vanished: summary.entry_re")
    R = rx["entry_re"]
    chk.attempt(summary_eval, chk, repo, mod)
    chk.attempt(s1_form, chk, repo, mod, R, covered_by="summary_eval", rules=("C14-S1",))
    method = getattr(R.compiled, "fullmatch")
    for text, (sec, kw, val) in ACCEPT:
        mm = method(text)
        ok = mm is not None and mm.groupdict() == {"section": sec, "keyword": kw, "value": val}
        chk.require(ok, "C14-S2", f"{mod.relpath}:entry_re", f"accepts {text!r} as ({sec}, {kw}, {val!r})",
                    f"entry_re parses {text!r} as {mm.groupdict() if mm else None}, expected ({sec}, {kw}, {val!r})", key=f"entry_re:accept:{text}",
                    sample={"line": text, "groups": [sec, kw, val]})
    for text in REJECT:
        mm = method(text)
        chk.require(mm is None, "C14-S2", f"{mod.relpath}:entry_re", f"rejects {text!r}", f"entry_re accepts malformed line {text!r} as {mm.groupdict() if mm else None}", key=f"entry_re:reject:{text}")
    # bounded-exhaustive on the literal: every value over {x, space, =, "} up to 5 characters, for three keyword shapes
    import itertools
    bad = None
    n_enum = 0
    for kw in ("K", "A_B", "Key1"):
        for ln in range(0, 6):
            for tup in itertools.product('x =\"', repeat=ln):
                val = "".join(tup)
                line = f'Odi_{kw}="{val}"'
                mm = method(line)
                n_enum += 1
                if mm is None or mm.groupdict() != {"section": "Odi", "keyword": kw, "value": val}:
                    bad = bad or (line, mm.groupdict() if mm else None)
    chk.require(bad is None, "C14-S2", f"{mod.relpath}:entry_re", f"all {n_enum} lines Odi_<kw>=\"<value>\" with values over {{x, space, =, \"}} up to 5 characters split at the first =\" and keep the whole value",
                f"entry_re parses {bad[0]!r} as {bad[1]}: the keyword/value split is not at the first =\"" if bad else "", key="entry_re:enumeration")
    chk.attempt(s3, chk, repo, mod, covered_by="summary_eval", rules=("C14-S3",))
    chk.attempt(s4_form, chk, repo, mod, covered_by="summary_eval", rules=("C14-S4",))
    chk.attempt(section_schema, chk, repo, mod)
    chk.attempt(s5_form, chk, repo, mod, covered_by="section_schema", rules=("C14-S5",))
    chk.attempt(grouping_semantics, chk, repo, mod, covered_by="summary_eval", rules=("C14-S6",))
    chk.attempt(keyword_order, chk, repo, mod)
    from .c13 import summary_published_as_parsed
    chk.attempt(summary_published_as_parsed, chk, repo)
    chk.attempt(summary_values, chk, repo, mod)
    chk.count("functions", 3)


def s5_form(chk, repo, mod):
    """form rule: the two literal section tables have the same keys (when the tables are built some other way - a registry
    filled by decorators, one table of pairs - which section surfaces where is decided by the schema inference, C14-S7)"""
    sn = mod.assigns.get("section_names")
    ts = mod.func("transform_summary")
    tkeys = None
    for n in ts.own_nodes():
        if isinstance(n, ast.Dict) and n.keys and all(const_str(k) for k in n.keys):
            tkeys = {const_str(k) for k in n.keys}
    from ..interproc import dict_entries
    sn_entries = dict_entries(repo, mod, sn[-1]) if sn else None
    skeys = set(sn_entries) if sn_entries is not None else None
    if not tkeys or not skeys:
        raise AnalysisError(f"{mod.relpath}:transform_summary: the section tables are not two literal dicts (names: {sorted(skeys or [])}, transformers: {sorted(tkeys or [])}); not decided by the form rule")
    chk.require(tkeys == skeys, "C14-S5", f"{mod.relpath}:transform_summary", f"sections {sorted(skeys or [])} each have a transformer and a name",
                f"section_names keys {sorted(skeys or [])} != transformer keys {sorted(tkeys or [])}", key="sections:agree")


def s1_form(chk, repo, mod, R):
    """form rule: parse_line matches the whole line and raises ValueError otherwise (decided by evaluation in C14-S9 when written differently)"""
    pl = mod.func("parse_line")
    where = f"{mod.relpath}:parse_line"
    mcalls = [c for c in calls_in(pl) if isinstance(c.func, ast.Attribute) and c.func.attr in ("match", "fullmatch", "search") and norm(c.func.value) == "entry_re"]
    if len(mcalls) != 1:
        raise AnalysisError(f"{where}: not one entry_re.match/fullmatch/search call in parse_line; not decided by the form rule")
    m = mcalls[0]
    anchored = m.func.attr == "fullmatch" or (m.func.attr == "match" and R.ends_anchored())
    chk.require(anchored, "C14-S1", where, "parse_line uses entry_re.fullmatch(line)",
                f"parse_line uses entry_re.{m.func.attr}: a line with trailing garbage / a prefix is accepted instead of reported", key="parse_line:anchoring")
    ok_pl = any(isinstance(n, ast.Raise) and "ValueError" in norm(n.exc) for n in pl.own_nodes()) and any(isinstance(n, ast.Return) and "groupdict" in norm(n.value) for n in pl.own_nodes())
    if not ok_pl:
        raise AnalysisError(f"{where}: not the recognised form (raise ValueError on a non-match, return match.groupdict()); not decided by the form rule")
    chk.ok("C14-S1", where, "parse_line raises ValueError on a non-match and returns the groups otherwise")


def s4_form(chk, repo, mod):
    """form rule: the lines come from str.splitlines() (CRLF-safe); `split('\\n')` is the recognised bad form, anything else is left to the evaluation on CRLF texts (C14-S9)"""
    ps = mod.func("parse_summary")
    flow = Flow(ps)
    loop = _line_loop(ps)
    it = flow.expand(loop.iter)
    txt = norm(it)
    bad = "split('\\n')" in txt.replace('"', "'")
    if not bad and ".splitlines()" not in txt:
        raise AnalysisError(f"{mod.relpath}:parse_summary: lines are produced by {txt[:80]}: neither splitlines() nor split('\\n'); not decided by the form rule")
    chk.require(not bad, "C14-S4", f"{mod.relpath}:parse_summary", f"lines = {txt}",
                f"lines are produced by {txt}: CRLF files leave a trailing \\r on every line", key="parse_summary:splitlines")


def summary_eval(chk, repo, mod, rule="C14-S9"):
    """C14-S9: parse_summary evaluated (the checker's interpreter; the regex is folded by the standard library) on a corpus of
    summary texts: well-formed texts in every line-ending convention and line order, values with blanks / = / quotes, and every
    subset of corrupted lines of a small text in several grammar-violating ways.  Oracle: {section.lower(): {keyword: value}} for
    well-formed texts; for corrupted ones one ExceptionGroup whose sub-exceptions name exactly the corrupted lines."""
    import itertools
    from collections import OrderedDict
    from ..repeval import from_shape
    from ..shapes import Const, DictS, Fn, Interp, ListLit, Obj, ShapeError, TupS, _Raise
    where = f"{mod.relpath}:parse_summary"
    if rule == "C14-S9":
        chk.rule("C14-S9", "parse_summary on a corpus of texts: well-formed texts (LF / CRLF / mixed / no final newline, any line order) give the section dicts; corrupted ones one error group naming exactly the corrupted lines", 100)
    base = [("Odi", "SceneId", "ALOS2012345678-140102"), ("Scs", "SceneShift", "0"), ("Pds", "ProductID", "WWDR1.1__D"), ("Odi", "Comment", 'mode="fine" beam=F2'),
            ("Lbi", "Note", "a=b"), ("Ach", "TimeCheck", ""), ("Pdi", "NoOfPixels_0", "20"), ("Scs", "A_B", "x y")]
    want = {}
    for sec, kw, val in base:
        want.setdefault(sec.lower(), {})[kw] = val

    def text(entries, sep="\n", final=True):
        return sep.join(f'{s_}_{k}="{v}"' for s_, k, v in entries) + (sep if final else "")

    groups = []
    through_open = [True]

    def run(content):
        I = Interp(repo)
        sc = I.module_scope(mod)

        def eg(I_, a, kw):
            groups.append(a)
            return Obj("ExceptionGroup", OrderedDict(message=a[0] if a else Const(None), exceptions=a[1] if len(a) > 1 else ListLit([]), classes=Const(("ExceptionGroup", "Exception", "BaseException", "object"))))
        for m_ in repo.modules.values():
            if "ExceptionGroup" in m_.source:  # wherever the parser lives
                I.module_scope(m_).vars["ExceptionGroup"] = Fn("py", impl=eg, name="ExceptionGroup")
        try:
            if through_open[0]:
                # the way a product is opened: bytes of the summary file -> open_summary -> (decode) -> parse_summary; the section
                # transformers are replaced by the identity so that the parsed sections can be read off
                sc.vars["transform_summary"] = Fn("py", impl=lambda I_, a, kw: a[0], name="transform_summary")
                mapper = Obj("Mapper", OrderedDict(root=Const("memory://product")))
                mapper.fields["__getitem__"] = Fn("py", impl=lambda I_, a, kw: Const(content.encode()), name="__getitem__")
                try:
                    out = I.call(I.lookup("open_summary", sc), [mapper, Const("summary.txt")], {})
                except ShapeError:
                    through_open[0] = False
                    return run(content)
            else:
                out = I.call(I.lookup("parse_summary", sc), [Const(content)], {})
            return "ok", from_shape(out)
        except _Raise as e:
            return "raise", e
        except ShapeError as e:
            raise AnalysisError(f"{where}: cannot be evaluated on a model text: {str(e)[:140]}")

    fails = {}
    n_cases = 0
    orders = {"file order": base, "reversed": base[::-1], "sections interleaved": base[::2] + base[1::2], "rotated": base[3:] + base[:3]}
    for oname, ents in orders.items():
        for sname, sep, final in (("LF", "\n", True), ("CRLF", "\r\n", True), ("LF, no final newline", "\n", False), ("CRLF, no final newline", "\r\n", False)):
            n_cases += 1
            st, got = run(text(ents, sep, final))
            if st != "ok":
                fails.setdefault("wellformed-raises", []).append(f"a well-formed text ({oname}, {sname}) is rejected: {got.what[:80]}")
            elif got != want:
                fails.setdefault("wellformed-wrong", []).append(f"a well-formed text ({oname}, {sname}) parses to {str(got)[:140]}, expected {str(want)[:100]}")
    n_cases += 1
    mixed = 'Odi_A="1"\r\nScs_B="2"\nPds_C="3"\r\n'
    st, got = run(mixed)
    if st != "ok" or got != {"odi": {"A": "1"}, "scs": {"B": "2"}, "pds": {"C": "3"}}:
        fails.setdefault("mixed-endings", []).append(f"a text with mixed LF / CRLF endings gives {got.what[:60] if st != 'ok' else got}")
    # corrupted subsets: 6 lines, every non-empty subset, three kinds of corruption
    small = base[:6]  # includes an entry with an empty value: cut by one character it still ends in a quote
    corruptions = {"missing quote": lambda l: l[:-1], "missing underscore": lambda l: l.replace("_", "", 1), "trailing garbage": lambda l: l + "x", "two-letter section": lambda l: l[1:], "blank line": lambda l: "",
                   "leading blank": lambda l: " " + l, "trailing blank": lambda l: l + " ", "whitespace only": lambda l: "  "}
    for cname, f in corruptions.items():
        for r in range(1, len(small) + 1):
            for subset in itertools.combinations(range(len(small)), r):
                lines = [f'{s_}_{k}="{v}"' for s_, k, v in small]
                for i in subset:
                    lines[i] = f(lines[i])
                n_cases += 1
                del groups[:]
                st, got = run("\n".join(lines) + "\n")
                if st != "raise":
                    fails.setdefault("malformed-accepted", []).append(f"lines {list(subset)} corrupted ({cname}): no error, result {str(got)[:80]}")
                    continue
                if not groups:
                    fails.setdefault("malformed-no-group", []).append(f"lines {list(subset)} corrupted ({cname}): raises {got.what[:60]}, not one ExceptionGroup of per-line errors")
                    continue
                subs = groups[-1][1] if len(groups[-1]) > 1 else None
                named = []
                for ex in (subs.elts if isinstance(subs, (ListLit, TupS)) else []):
                    a = ex.fields.get("args") if isinstance(ex, Obj) else None
                    msg = a.elts[0].v if isinstance(a, TupS) and a.elts and isinstance(a.elts[0], Const) else ""
                    digits = "".join(ch if ch.isdigit() else " " for ch in str(msg)).split()
                    named.append(int(digits[0]) if digits else None)
                if sorted(x for x in named if x is not None) != list(subset) or None in named:
                    fails.setdefault("malformed-lines", []).append(f"lines {list(subset)} corrupted ({cname}): the error group names lines {named}")
    if rule != "C14-S9":
        # another property asks only that a damaged summary is an error, not how it is reported
        fails = {k: v for k, v in fails.items() if k == "malformed-accepted"}
    for k, msgs in sorted(fails.items()):
        chk.fail(rule, where, msgs[0] + (f" (and {len(msgs) - 1} more texts)" if len(msgs) > 1 else ""), key=f"corpus:{k}")
    if not fails:
        for _ in range(n_cases):
            chk.ok(rule, where, "model text")
        chk.samples.append({"rule": rule, "where": where, "obligation": {"texts": n_cases, "well-formed variants": 17, "corruption kinds": list(corruptions),
                                                                              "entry point": "open_summary on the file's bytes" if through_open[0] else "parse_summary on the decoded text"}})


def section_schema(chk, repo, mod):
    """S7: which keyword surfaces where and through which conversion (int, float, ISO date, decoded id, lookup table,
    (pixels, lines) tuple, 'N/A' default), derived by shape inference over transform_summary on a model file whose
    values are unknown texts, compared with the reference schema"""
    from ..records import Layouts
    from ..shapes_rules import link_tables
    link_tables(chk, repo, Layouts(repo), "C14", r_schema="C14-S7", r_coll="C14-S7c")


def keyword_order(chk, repo, mod):
    """S8: the result is independent of the order of the lines within a section: the same inference on permuted
    models must give the same schema (the ProductFileName lines keep their relative order: their contract is positional)"""
    from ..schema import Pipelines, flatten, summary_model
    from ..shapes import _Raise
    chk.rule("C14-S8", "the summary tree is independent of the order of the keywords within a section (file names keep their relative order)", 3)

    def keep_files(keys, perm):
        files = [k for k in keys if "ProductFileName" in k]
        out, it = [], iter(files)
        for k in perm:
            out.append(next(it) if "ProductFileName" in k else k)
        return out

    def rev(sec, keys):
        return keep_files(keys, list(reversed(keys)))

    def kinds_apart(sec, keys):
        # all NoOfLines_* before all NoOfPixels_*, indices descending, everything else after them
        a = sorted([k for k in keys if k.startswith("NoOfLines")], reverse=True)
        b = sorted([k for k in keys if k.startswith("NoOfPixels")])
        rest = [k for k in keys if k not in a and k not in b]
        b = b[1:] + b[:1]
        return keep_files(keys, a + rest[::2] + b + rest[1::2])

    def rotated(sec, keys):
        n = len(keys) // 2
        return keep_files(keys, keys[n:] + keys[:n])

    P = Pipelines(repo)
    base = flatten(P._call("ceos_alos2.summary", "transform_summary", summary_model()))
    where = f"{mod.relpath}:transform_summary"
    for label, order in (("reversed", rev), ("lines before pixels, indices shuffled", kinds_apart), ("rotated", rotated)):
        try:
            got = flatten(Pipelines(repo)._call("ceos_alos2.summary", "transform_summary", summary_model(order)))
        except AnalysisError as e:
            chk.fail("C14-S8", where, f"keywords in {label} order: the transform raises ({str(e)[:120]}) although it succeeds in file order", key=f"order:{label}:raises")
            continue
        diff = [k for k in sorted(set(base) | set(got)) if base.get(k) != got.get(k)]
        chk.require(not diff, "C14-S8", where, f"keywords in {label} order give the same {len(base)} entries",
                    f"keywords in {label} order change the result: {diff[0]} is {got.get(diff[0], '<absent>')[:110]} instead of {base.get(diff[0], '<absent>')[:110]}"
                    f" ({len(diff)} entries differ): values are paired/selected by position, not by keyword" if diff else "", key=f"order:{label}",
                    sample={"order": label, "entries": len(got)})


def grouping_semantics(chk, repo, mod):
    """S5/S6: the statements of parse_summary that follow the line loop are evaluated (constant propagation in the shape
    interpreter) on entries whose sections are interleaved, in mixed case and in several orders: the result must be one
    dict per lower-cased section holding all its keywords, whatever the order"""
    from ..shapes import Const, DictS, Interp, ListLit, ShapeError, _Raise, _Return, Scope
    from ..shapes_lib import to_py
    ps = mod.func("parse_summary")
    where = f"{mod.relpath}:parse_summary"
    loop = _line_loop(ps)
    tail = [st for st in ps.node.body if st.lineno > loop.end_lineno and not (isinstance(st, ast.If) and any(isinstance(x, ast.Raise) for x in ast.walk(st)))]
    if not tail:
        raise AnalysisError(f"{where}: nothing follows the line loop")

    def entry(sec, kw, val):
        return DictS({"section": Const(sec), "keyword": Const(kw), "value": Const(val)})

    orders = {
        "contiguous": [("Odi", "A", "1"), ("Odi", "B", "2"), ("Scs", "C", "3"), ("Pds", "D", "4")],
        "interleaved": [("Scs", "C", "3"), ("Odi", "A", "1"), ("Pds", "D", "4"), ("Odi", "B", "2")],
        "reversed": [("Pds", "D", "4"), ("Scs", "C", "3"), ("Odi", "B", "2"), ("Odi", "A", "1")],
        "split section": [("Odi", "A", "1"), ("Scs", "C", "3"), ("Odi", "B", "2"), ("Pds", "D", "4")],
    }
    want = {"odi": {"A": "1", "B": "2"}, "scs": {"C": "3"}, "pds": {"D": "4"}}

    def plain(v):
        if isinstance(v, DictS):
            return {k: plain(x) for k, x in v.items.items()}
        if isinstance(v, Const):
            return v.v
        return repr(v)

    for label, ents in orders.items():
        I = Interp(repo)
        sc = I.module_scope(mod).child(owner=ps)
        entries_name = None
        flow_ps = Flow(ps)
        for n in ast.walk(loop):
            if isinstance(n, ast.Call) and isinstance(n.func, ast.Attribute) and n.func.attr == "append" and isinstance(n.func.value, ast.Name) and n.args:
                if "parse_line(" in norm(flow_ps.expand(n.args[0])):
                    entries_name = n.func.value.id
        if entries_name is None:
            raise AnalysisError(f"{where}: the list the parsed lines are appended to was not found")
        sc.vars[entries_name] = ListLit([entry(*e) for e in ents])
        try:
            I.exec_block(tail, sc, [])
            raise AnalysisError(f"{where}: the statements after the line loop do not return")
        except _Return as r:
            got = plain(r.v)
        except (_Raise, ShapeError) as e:
            raise AnalysisError(f"{where}: cannot evaluate the grouping of the entries ({label}): {e}")
        chk.require(got == want, "C14-S6", where, f"entries in {label} order -> {got}",
                    f"entries in {label} order are grouped into {got}, expected {want}: sections are not merged independently of line order / case", key=f"parse_summary:grouping:{label}",
                    sample={"order": label, "result": got})


def _line_loop(ps):
    for n in ps.own_nodes():
        if isinstance(n, ast.For):
            for c in ast.walk(n):
                if isinstance(c, ast.Call) and isinstance(c.func, ast.Name) and c.func.id == "parse_line":
                    return n
    raise AnalysisError("anchor vanished: the line loop of parse_summary")


def s3(chk, repo, mod):
    ps = mod.func("parse_summary")
    where = f"{mod.relpath}:parse_summary"
    loop = _line_loop(ps)
    # loop target: (lineno, line) from enumerate(lines)
    it = loop.iter
    enum_ok = isinstance(it, ast.Call) and isinstance(it.func, ast.Name) and it.func.id == "enumerate" and isinstance(loop.target, ast.Tuple) and len(loop.target.elts) == 2
    if not enum_ok:
        raise AnalysisError(f"{where}: the line loop does not number the lines with enumerate(...) into (number, line); how errors are numbered is decided by the corpus evaluation (C14-S9)")
    chk.ok("C14-S3", where, "the loop numbers the lines with enumerate")
    lineno_var = loop.target.elts[0].id if enum_ok and isinstance(loop.target.elts[0], ast.Name) else None
    line_var = loop.target.elts[1].id if enum_ok and isinstance(loop.target.elts[1], ast.Name) else None
    # exits from the loop body
    tries = [n for n in loop.body if isinstance(n, ast.Try)]
    exits = []
    for st in loop.body:
        for n in ast.walk(st):
            if isinstance(n, (ast.Break, ast.Return)) or (isinstance(n, ast.Raise)):
                exits.append(n)
    chk.require(not exits, "C14-S3", where, "no break/return/raise inside the line loop: every line is examined",
                f"the line loop can be left early ({[short(e, 30) for e in exits]}): later malformed lines are not reported", key="loop:early-exit")
    if len(tries) != 1:
        raise AnalysisError(f"{where}: {len(tries)} try statements in the loop body (the recognised form has one); decided by the corpus evaluation (C14-S9)")
    tr = tries[0]
    call_in_try = any(isinstance(c, ast.Call) and isinstance(c.func, ast.Name) and c.func.id == "parse_line" and c.args and norm(c.args[0]) == line_var for st in tr.body for c in ast.walk(st))
    handler = None
    for h in tr.handlers:
        if catches(repo, ps, h, "ValueError"):
            handler = h
    good_h = handler is not None and handler.name is not None and not handler_reraises(handler)
    stored = False
    store_name = None
    if good_h:
        for st in handler.body:
            for n in ast.walk(st):
                if isinstance(n, ast.Assign) and isinstance(n.targets[0], ast.Subscript) and norm(n.targets[0].slice) == lineno_var and norm(n.value) == handler.name:
                    stored = True
                    store_name = norm(n.targets[0].value)
                if isinstance(n, ast.Call) and isinstance(n.func, ast.Attribute) and n.func.attr == "append" and n.args:
                    a = n.args[0]
                    if isinstance(a, ast.Tuple) and {norm(x) for x in a.elts} == {lineno_var, handler.name}:
                        stored = True
                        store_name = norm(n.func.value)
    if not (call_in_try and good_h and stored):
        raise AnalysisError(f"{where}: the handler does not record the error as <errors>[<line number>] = e / append((number, e)); which lines the error group names is decided by the corpus evaluation (C14-S9)")
    chk.ok("C14-S3", where, f"ValueError of parse_line(line) is recorded as {store_name}[{lineno_var}]", sample={"store": store_name, "key": lineno_var})
    # after the loop: if errors: raise ExceptionGroup(msg, [with_lineno(error, lineno) for lineno, error in errors.items()])
    after = [n for n in ps.own_nodes() if isinstance(n, ast.Raise) and n.lineno > loop.end_lineno]
    flow = Flow(ps)
    ok_raise = False
    detail = "no raise after the loop"
    for r in after:
        exc = r.exc
        if isinstance(exc, ast.Call) and norm(exc.func).endswith("ExceptionGroup") and len(exc.args) == 2:
            lst = exc.args[1]
            if isinstance(lst, ast.Name):
                lst = flow.reaching_def(lst.id, lst) or lst
            gs = guards_of(r, ps.node)
            guarded = any(pol and norm(t) == store_name for t, pol in gs)
            if isinstance(lst, ast.ListComp) and len(lst.generators) == 1 and not lst.generators[0].ifs:
                g = lst.generators[0]
                over_all = norm(g.iter) in (f"{store_name}.items()", f"sorted({store_name}.items())", store_name)
                elt = lst.elt
                uses_both = isinstance(elt, ast.Call) and isinstance(g.target, ast.Tuple) and {norm(a) for a in elt.args} | {norm(k.value) for k in elt.keywords} >= {norm(x) for x in g.target.elts}
                fn = resolve_callees(repo, ps, elt.func) if isinstance(elt, ast.Call) else []
                ok_raise = guarded and over_all and uses_both and bool(fn)
                detail = f"guarded={guarded} over_all={over_all} uses lineno+error={uses_both}"
            else:
                detail = f"sub-exceptions are {short(lst, 60)}"
    if not ok_raise:
        raise AnalysisError(f"{where}: the raise after the loop is not in the recognised form ({detail}); which lines the error group names is decided by the corpus evaluation (C14-S9)")
    chk.ok("C14-S3", where, "one ExceptionGroup is raised after the loop from every recorded (line number, error) pair")
    # with_lineno puts the line number into the message
    wl = mod.funcs.get("with_lineno")
    ok_wl = wl is not None and any(isinstance(n, ast.JoinedStr) and any(isinstance(v, ast.FormattedValue) and norm(v.value) == wl.positional_params[1] for v in n.values) for n in ast.walk(wl.node)) \
        and any(isinstance(n, ast.Return) and norm(n.value) == wl.positional_params[0] for n in wl.own_nodes())
    chk.require(ok_wl, "C14-S3", f"{mod.relpath}:with_lineno", "with_lineno writes the line number into the error and returns it", "with_lineno no longer names the line number", key="with_lineno")


def summary_values(chk, repo, mod):
    """C14-S11: transform_summary evaluated on concrete section dicts (two model files: single-digit month / day, a leap day, a year
    end; a blank autocheck entry): the documented conversions give the documented values - ISO dates from the scene id (yymmdd) and
    from yyyymmdd / 'yyyymmdd hh:mm:ss.fff' texts with every component zero-padded, integers and floats, the (pixels, lines) pairs,
    'N/A' for a blank check, the resampling table"""
    from collections import OrderedDict
    from ..schema import SUMMARY_MODEL
    from ..shapes import Const, DictS, Interp, ListLit, Obj, ShapeError, TupS, _Raise
    where = f"{mod.relpath}:transform_summary"
    chk.rule("C14-S11", "transform_summary on concrete model files: ISO dates (zero-padded), numbers, shape pairs, 'N/A' defaults and table entries come out as documented", 20)
    files = [
        dict(sid="ALOS2225333200-190105", date="2019-01-05", center="20190105 01:02:03.456", center_iso="2019-01-05T01:02:03.456", start="20190105 00:59:07.009", start_iso="2019-01-05T00:59:07.009",
             obs="20190105", obs_iso="2019-01-05", orbit=22533, frame=3200),
        dict(sid="ALOS2098765432-160229", date="2016-02-29", center="20161231 23:59:59.999", center_iso="2016-12-31T23:59:59.999", start="20161009 10:09:08.070", start_iso="2016-10-09T10:09:08.070",
             obs="20161009", obs_iso="2016-10-09", orbit=9876, frame=5432),
    ]
    for f in files:
        values = {
            ("odi", "SceneId"): f["sid"], ("odi", "Comment"): "a b", ("scs", "SceneID"): f["sid"], ("scs", "SceneShift"): "-2",
            ("pds", "ProductID"): "WBDR1.5GUD", ("pds", "ResamplingMethod"): "CC", ("pds", "UTM_ZoneNo"): "54", ("pds", "MapDirection"): "MapNorth", ("pds", "OrbitDataPrecision"): "Precision",
            ("pds", "AttitudeDataPrecision"): "Onboard", ("pds", "PixelSpacing"): "25.0",
            ("img", "SceneCenterDateTime"): f["center"], ("img", "SceneStartDateTime"): f["start"], ("img", "OffNadirAngle"): "32.4",
            ("pdi", "ProductFormat"): "CEOS", ("pdi", "BitPixel"): "16", ("pdi", "ProductDataSize"): "123.4", ("pdi", "CntOfL15ProductFileName"): "6",
            ("ach", "TimeCheck"): "GOOD", ("ach", "AttitudeCheck"): "", ("rad", "PracticeResultCode"): "GOOD",
            ("lbi", "ObservationDate"): f["obs"], ("lbi", "ProcessFacility"): "SCMO", ("lbi", "Sensor"): "SAR",
        }
        for i in range(1, 7):
            values[("pdi", f"L15ProductFileName{i:02d}")] = f"FILE-{i}"
        for i in range(3):
            values[("pdi", f"NoOfPixels_{i}")] = str(100 + i)
            values[("pdi", f"NoOfLines_{i}")] = str(200 + i)
        raw = DictS(OrderedDict((sec, DictS(OrderedDict((k, Const(values.get((sec, k), "x"))) for k in keys))) for sec, keys in SUMMARY_MODEL.items()))
        I = Interp(repo)
        try:
            out = I.call(I.resolve_global(mod, "transform_summary"), [raw], {})
        except _Raise as e:
            chk.fail("C14-S11", where, f"transform_summary raises on a well-formed model file (scene id {f['sid']}): {e.what[:100]}", key="values:raises")
            continue
        except (ShapeError, RecursionError) as e:
            raise AnalysisError(f"{where}: cannot be evaluated on a concrete model file: {str(e)[:120]}")

        def attr(path, name):
            g = out
            for p_ in path:
                d = g.fields.get("data") if isinstance(g, Obj) else None
                g = d.items.get(p_) if isinstance(d, DictS) else None
            a = g.fields.get("attrs") if isinstance(g, Obj) else None
            v = a.items.get(name) if isinstance(a, DictS) else None
            if isinstance(v, Const):
                return v.v
            if isinstance(v, (TupS, ListLit)) and all(isinstance(x, Const) for x in v.elts):
                return tuple(x.v for x in v.elts) if isinstance(v, TupS) else [x.v for x in v.elts]
            return repr(v)
        expect = [
            (("scene_specification",), "date", f["date"], "the acquisition date of the scene id as an ISO date"),
            (("scene_specification",), "orbit_accumulation", f["orbit"], "the orbit number of the scene id"),
            (("scene_specification",), "scene_frame", f["frame"], "the frame number of the scene id"),
            (("scene_specification",), "SceneShift", -2, "an integer"),
            (("image_information",), "SceneCenterDateTime", f["center_iso"], "an ISO date-time"),
            (("image_information",), "SceneStartDateTime", f["start_iso"], "an ISO date-time"),
            (("image_information",), "OffNadirAngle", 32.4, "a float"),
            (("label_information",), "ObservationDate", f["obs_iso"], "an ISO date"),
            (("product_specification",), "UTM_ZoneNo", 54, "an integer"),
            (("product_specification",), "PixelSpacing", 25.0, "a float"),
            (("product_specification",), "ResamplingMethod", "cubic convolution", "the documented table entry"),
            (("product_information",), "BitPixel", 16, "an integer"),
            (("product_information", "shapes"), "1", (101, 201), "the (pixels, lines) pair of image 1"),
            (("autocheck",), "AttitudeCheck", "N/A", "'N/A' for a blank entry"),
            (("autocheck",), "TimeCheck", "GOOD", "the text as it stands"),
        ]
        for path, name, want, what in expect:
            got = attr(path, name)
            if name == "1" and got == "None":
                got = attr(path, 1)
            same = got == want and type(got) is type(want)
            chk.require(same, "C14-S11", where, f"summary/{'/'.join(path)}@{name} = {want!r} ({what})",
                        f"summary/{'/'.join(path)}@{name} is {got!r} for the model file with scene id {f['sid']}; documented: {want!r} ({what})", key=f"values:{'/'.join(path)}:{name}")
