"""C16 -- volume-directory fields surface unchanged as root attributes"""
from __future__ import annotations

from ..adapters import adapters_used, check_adapter
from ..records import Layouts, top_spans
from ..reference import compare

LEVEL = "translation_validation"


def run(chk, repo):
    L = Layouts(repo)
    chk.explanation = (
        "Layout of the three volume-directory structs computed from the syntax tree (text record offset "
        "symbolic in the file-pointer count) and compared with the reference; tables of the volume "
        "transform functions linked to struct fields by shape inference, incl. key collisions on flattening."
    )
    chk.trusted = ["spec/layout_reference.json (regression oracle, see DESIGN E2)", "model of construct primitives (vlib/layout.py)"]
    chk.rule("C16-V1", "layout of every non-padding volume-directory field == reference; records are 360 bytes", 50)
    from .common_rules import declared_multiplicities
    if not declared_multiplicities(chk, L, "C16-V6", ("volume",)):
        return
    leaves, end, _ = L.get("volume")
    chk.count("layout_leaves", len(leaves))
    chk.count("programs", 1)
    compare(chk, "C16-V1", L, "volume")
    spans = top_spans(leaves, end)
    for name, (s, e) in spans.items():
        if name == "file_descriptors":
            lf = L.by_name("volume")[name]
            ok = lf.extra["elem_size"].is_const() and lf.extra["elem_size"].value() == 360
            chk.require(ok, "C16-V1", f"volume_directory_record.{name}", "file pointer records are 360 bytes each",
                        f"file pointer element size is {lf.extra['elem_size']}", key="size:file_descriptors")
        else:
            size = e - s
            chk.require(size.is_const() and size.value() == 360, "C16-V1", f"volume_directory_record.{name}",
                        f"{name} is 360 bytes", f"{name} is {size} bytes, the format's record is 360", key=f"size:{name}")
    # every surfacing volume-directory field is text: only the text adapter's semantics matter here
    from .adapter_eval import adapter_values
    chk.rule("C16-V8", "the text adapter of the volume-directory fields decodes representative field contents as specified (evaluation on field bytes)", 1)
    chk.attempt(adapter_values, chk, repo, L, "C16-V8", ("volume",))

    def text_adapter_form(chk, repo, L, leaves):
        for key in sorted(adapters_used(leaves)):
            if key[1] == "PaddedString":
                check_adapter(chk, "C16-V1", repo, L.ev, key)
    chk.attempt(text_adapter_form, chk, repo, L, leaves, covered_by="adapter_values")
    from ..shapes_rules import link_tables
    link_tables(chk, repo, L, "C16")
    from .common_rules import parse_and_transform, to_dict_contract, to_dict_rules
    chk.rule("C16-V5", "the volume directory is parsed with volume_directory_record, converted by to_dict and transformed by transform_record", 4)
    to_dict_rules(chk, repo, "C16-V5")
    chk.attempt(opener_contents, chk, repo)
    chk.attempt(parse_and_transform, chk, repo, "C16-V5", "ceos_alos2.volume_directory.io", "volume_directory_record", "transform_record", "open_volume_directory", covered_by="opener_contents")


def opener_contents(chk, repo):
    """C16-V7: open_volume_directory evaluated on text-field contents of every kind (labelled ids, free text, full width, blank, a single
    character) under a standard product file name and under another name"""
    from .common_rules import opener_eval
    cases = [("as JAXA writes them", {"scene_id": "ORBIT:ALOS2014410750-140829", "product_id": "PRODUCT:WWDR1.5RUA", "location": "OKINAWA"}),
             ("free text", {"scene_id": "ALOS2 014410750 140829", "product_id": "L1.5 GEO-REFERENCE", "location": "x y"}),
             ("full width", {"scene_id": "x" * 40, "product_id": "9" * 40, "location": "z" * 40}),
             ("blank", {"scene_id": "", "product_id": "", "location": ""}),
             ("a single character", {"scene_id": "A", "product_id": "-", "location": "."}),
             ("ids of another scene", {"scene_id": "ORBIT:ALOS2099990000-200101", "product_id": "PRODUCT:UBSR2.1GUD", "location": ""})]
    opener_eval(chk, repo, "C16-V7", "ceos_alos2.volume_directory.io", "transform_record", "open_volume_directory", cases,
                ["VOL-ALOS2014410750-140829-WWDR1.5RUA", "volume-directory.bin", "sub/VOL-ALOS2014410750-140829-WWDR1.5RUA"])
