"""C10 -- opening is pure / history independent"""
from __future__ import annotations

import ast

from .. import effects
from ..core import AnalysisError, norm, short
from ..dataflow import Flow, calls_in
from ..interproc import resolve_callees
from ..openpath import CLI_CREATE, CREATE_CACHE, ENTRY, IO_OPEN, LOCAL_LOC, OPEN_IMAGE, OpenPath
from .c07 import g3_threading

LEVEL = "other"


def open_writes(chk, repo):
    """C10-W6: a default open never writes (vlib/openmodel.py)"""
    from .open_rules import open_rules
    open_rules(chk, repo, "C10-W6", ('write', 'lookup', 'write-args'), "open_image with recording collaborators: opening writes exactly when create_cache is set, whatever the cache state")


def run(chk, repo):
    op = OpenPath(repo)
    chk.explanation = (
        "History independence is decided through its mechanism: (W1) the complete set of file-system write sites of "
        "the package and where their targets come from, (W2) the caller's option dicts are only unpacked/read, "
        "(W3) nothing reachable from open_alos2 stores into module-level state or is memoised, (W4) nested groups "
        "are modified only on copies, plus options threaded unchanged (C07-G3). Does NOT decide equality of trees "
        "across histories as values."
    )
    chk.trusted = ["effect vocabulary in vlib/effects.py (method names that write to a file system)", "call graph over-approximates"]
    chk.rule("C10-W1", "who may write: library writes only under create_cache, targets derive from local_cache_location rooted in the user cache dir; CLI writer unreachable from open", 4)
    chk.rule("C10-W2", "caller's option dicts are only unpacked or read", 2)
    chk.rule("C10-W3", "no module-level state is written and nothing is memoised on the open path", 1)
    chk.rule("C10-W4", "groups are adjusted on copies only; move_items pops from a deep copy", 2)
    chk.attempt(w1, chk, op)
    chk.attempt(cache_writes_model, chk, repo)
    chk.attempt(w1_remote, chk, op, covered_by="cache_writes_model", rules=("C10-W1",))
    chk.attempt(open_writes, chk, repo)
    chk.attempt(w2, chk, op)
    chk.attempt(w2_defaults, chk, op)
    chk.attempt(w3, chk, op)
    from .common_rules import stateless_constructs
    chk.attempt(stateless_constructs, chk, repo, "C05-F8")
    chk.attempt(nesting_on_copies, chk, repo)
    chk.attempt(w4, chk, op, covered_by="nesting_on_copies", rules=("C10-W4",))
    chk.attempt(writer_pure, chk, repo)
    chk.attempt(writer_pure_structural, chk, op, covered_by="writer_pure", rules=("C10-W8",))
    chk.attempt(g3_threading, chk, op, "C10-G3")
    from .c07 import naming
    chk.rule("C07-N", "one cache file per image: option writer, reader and CLI agree on <image file name>.index (a cache created by one image is never served for another)", 3)
    chk.attempt(naming, chk, op)
    chk.count("functions", len(op.reach))


def writer_pure(chk, repo):
    """C10-W7: encoding the index leaves the tree untouched (open_image returns the very object it hands to create_cache)"""
    from .codec_rules import codec_rules
    codec_rules(chk, repo, "C10-W7", ("input-untouched",), "writing the cache does not change the tree: caching.encode evaluated on model hierarchies leaves every list, dict and object it is given as it was "
                "(an open with create_cache=True returns the same tree as an open without)")


def writer_pure_structural(chk, op):
    """C10-W8: no function reachable from caching.encode stores into, or calls a mutating method on, something reachable from its parameters"""
    repo = op.repo
    chk.rule("C10-W8", "no function of the cache writer (reachable from caching.encode) stores into its arguments", 4)
    root = "ceos_alos2.sar_image.caching:encode"
    if root not in op.g.funcs:
        raise AnalysisError(f"anchor vanished: {root}")
    reach = set(op.g.reachable([root]))
    for k in sorted(reach):
        fi = op.g.funcs[k]
        if not fi.module.name.startswith("ceos_alos2.sar_image.caching"):
            continue
        alias = _param_aliases(fi)
        bad = [short(node, 60) for kind, rootname, target, node in effects.stores(repo, fi) if rootname in alias and kind != "global_store"
               and not (kind in ("attr_store", "item_store") and isinstance(target, ast.Name))]
        chk.require(not bad, "C10-W8", op.where(fi), "does not store into what it is given",
                    f"{bad[:2]} changes an object reachable from the argument(s) {sorted(alias & set(fi.params))[:3]} in place: the tree handed to create_cache is the tree open_image returns, "
                    f"so an open that writes the cache returns something else than one that does not", key=f"{fi.key}:mutates-argument")


def _param_aliases(fi):
    """names that may refer to (a part of) an argument: parameters never rebound to a fresh object, and names bound to access paths / iterations over them"""
    fresh_calls = {"list", "dict", "tuple", "set", "sorted", "valmap", "keymap", "itemmap", "map", "filter", "copy", "deepcopy", "merge", "str", "int", "float", "len", "zip", "enumerate", "range"}

    def is_fresh(e):
        if isinstance(e, (ast.Dict, ast.List, ast.Tuple, ast.Set, ast.ListComp, ast.DictComp, ast.SetComp, ast.GeneratorExp, ast.Constant, ast.JoinedStr, ast.BinOp, ast.Compare, ast.BoolOp, ast.UnaryOp)):
            return True
        if isinstance(e, ast.Call):
            name = e.func.attr if isinstance(e.func, ast.Attribute) else getattr(e.func, "id", None)
            if name in fresh_calls or name in ("tolist", "astype", "asarray", "array"):
                return name not in ("asarray",)  # np.asarray may return its argument
            return True  # another function's result: judged in that function
        return False
    assigns = {}
    for n in fi.own_nodes(include_lambdas=False):
        if isinstance(n, ast.Assign):
            for t in n.targets:
                if isinstance(t, ast.Name):
                    assigns.setdefault(t.id, []).append(n.value)
        elif isinstance(n, (ast.For, ast.comprehension)) and isinstance(n.target, ast.Name):
            assigns.setdefault(n.target.id, []).append(n.iter)
    alias = {p_ for p_ in fi.params if not (assigns.get(p_) and all(is_fresh(v) for v in assigns[p_]))}
    changed = True
    while changed:
        changed = False
        for name, values in assigns.items():
            if name in alias:
                continue
            for v in values:
                r = v
                while isinstance(r, (ast.Attribute, ast.Subscript)) or (isinstance(r, ast.Call) and isinstance(r.func, ast.Attribute) and r.func.attr in ("values", "items", "get", "asarray")):
                    r = r.value if not isinstance(r, ast.Call) else (r.func.value if r.func.attr != "asarray" else (r.args[0] if r.args else r.func.value))
                if isinstance(r, ast.Name) and r.id in alias and not is_fresh(v):
                    alias.add(name)
                    changed = True
    return alias


def w1(chk, op):
    repo = op.repo
    all_writes = []
    for fi in repo.all_funcs():
        if fi.module.name.endswith(".testing"):
            continue
        for e in effects.scan(repo, fi):
            if e.kind == "fs_write":
                all_writes.append(e)
    if not all_writes:
        raise AnalysisError("no file-system write site found at all: the effect scanner lost its anchors (create_cache writes)")
    for e in all_writes:
        fi = e.func
        where = op.where(fi)
        on_open_path = fi.key in op.reach
        if not on_open_path:
            chk.ok("C10-W1", where, f"{short(e.node, 60)}: not reachable from open_alos2 (stand-alone tool)")
            continue
        # guarded by create_cache
        guarded = op.site_guarded(fi, e.node, "create_cache", True)
        chk.require(guarded, "C10-W1", where, f"{short(e.node, 60)} happens only when create_cache is true",
                    f"{short(e.node, 60)} is reachable from open_alos2 without create_cache being set: opening writes to disk unasked",
                    key=f"{fi.key}:{e.detail}:guard")
        # target provenance
        if isinstance(e.node, ast.Call):
            target = e.node.func.value if isinstance(e.node.func, ast.Attribute) else (e.node.args[0] if e.node.args else None)
        elif isinstance(e.node, ast.Subscript):
            target = e.node.value
        else:
            target = None
        flow = Flow(fi)
        root = target
        while isinstance(root, ast.Attribute) and root.attr in ("parent",):
            root = root.value
        d = flow.expand(root) if root is not None else None
        while isinstance(d, ast.Attribute) and d.attr == "parent":
            d = d.value
        ok = False
        if isinstance(d, ast.Call):
            cs = resolve_callees(repo, fi, d.func)
            ok = any(c.key == LOCAL_LOC for c in cs)
        if not ok and isinstance(d, ast.Call) and isinstance(d.func, ast.Attribute) and d.func.attr in ("with_suffix", "with_name"):
            inner = d.func.value
            if isinstance(inner, ast.Call):
                ok = any(c.key == LOCAL_LOC for c in resolve_callees(repo, fi, inner.func))
        chk.require(ok, "C10-W1", where, f"write target of {short(e.node, 50)} derives from local_cache_location(...)",
                    f"write target {short(target, 60) if target is not None else '?'} does not derive from local_cache_location: the library writes outside the user cache directory",
                    key=f"{fi.key}:{e.detail}:target", sample={"site": short(e.node, 70), "target": short(d, 70) if d is not None else None})
    # CLI writer is not reachable from io.open
    chk.require(CLI_CREATE not in op.reach, "C10-W1", "ceos_alos2/sar_image/cli.py:create_cache", "the CLI writer is not reachable from open_alos2",
                "cli.create_cache (writes next to the image) is reachable from open_alos2", key="cli-reachable")
    # local_cache_location is rooted at platformdirs.user_cache_path(project_name)
    loc = op.fi(LOCAL_LOC)
    ret = [n for n in loc.own_nodes() if isinstance(n, ast.Return)]
    e = Flow(loc).expand(ret[0].value) if ret else None
    base = e
    while isinstance(base, ast.BinOp) and isinstance(base.op, ast.Div):
        base = base.left
    ok = False
    if isinstance(base, ast.Name):
        r = repo.resolve_name(loc, base.id)
        if r.kind == "value" and len(r.exprs) == 1 and isinstance(r.exprs[0], ast.Call):
            fr = repo.resolve_expr(r.mod, r.exprs[0].func)
            ok = fr.kind == "external" and fr.fq in ("platformdirs.user_cache_path", "platformdirs.user_cache_dir")
    chk.require(ok, "C10-W1", op.where(loc), "local cache files live under platformdirs.user_cache_path(project_name)",
                f"local_cache_location is rooted at {short(base, 60) if base is not None else None}, not at the user cache directory", key="local_cache_location:root")


def w1_remote(chk, op):
    """C10-W1 (form): the adjacent cache location is computed by the reader only"""
    # no use of the remote (adjacent) location for writing in the library
    rem_writers = [k for k in op.g.callers("ceos_alos2.sar_image.caching.path:remote_cache_location") if k in op.reach and k != "ceos_alos2.sar_image.caching:read_cache"]
    if rem_writers:
        # somebody else computes it: whether anything is written there is decided by evaluating the writer (C10-W9)
        raise AnalysisError(f"caching: remote_cache_location is also used by {rem_writers}; whether the writer stores anything next to the image is decided by evaluation (C10-W9)")
    chk.ok("C10-W1", "caching", "the adjacent cache location is only computed by read_cache")


def cache_writes_model(chk, repo):
    """C10-W9: caching.create_cache evaluated on a model of the user cache directory and of the product mapper
    (vlib/cachefs.py): everything it creates, writes, renames or removes lies under the user cache directory, and nothing is
    stored through the product mapper"""
    from collections import OrderedDict
    from ..cachefs import World, call
    from ..shapes import Const, NonTermination, Obj, ShapeError
    chk.rule("C10-W9", "create_cache evaluated: writes only below the user cache directory, nothing through the product mapper; an existing entry is replaced", 4)
    cach = repo.module("ceos_alos2.sar_image.caching")
    where = f"{cach.relpath}:create_cache"
    for root, img in (("memory://product", "IMG-HH-ALOS2012345678-140102-WBDR1.1__D-B3"), ("/data/ALOS2/scene", "sub/dir/IMG-HV-ALOS2012345678-140102-UBSR2.1GUD")):
        W = World(repo)
        try:
            I, sc = W.interp()
            m = W.mapper(root)
            g1 = Obj("Group", OrderedDict(path=Const("HH"), tag=Const("first")))
            g2 = Obj("Group", OrderedDict(path=Const("HH"), tag=Const("second")))
            sit = f"product {root!r}, image {img!r}"
            for n, g in (("first", g1), ("second", g2)):
                k, v = call(I, sc, "create_cache", [m, Const(img), g])
                if k != "returned":
                    chk.fail("C10-W9", where, f"{sit}: the {n} create_cache {k}: {str(v)[:80]}", key=f"writes:{n}")
            outside = [e for e in W.events if e[0] in ("mkdir", "write", "unlink") and e[1][:1] != ("CACHE",)] + [e for e in W.events if e[0] == "rename" and (e[1][:1] != ("CACHE",) or e[2][:1] != ("CACHE",))]
            chk.require(not outside, "C10-W9", where, f"{sit}: every directory and file create_cache touches lies under the user cache directory",
                        f"{sit}: create_cache touches {outside[:3]} outside the user cache directory", key="writes:outside")
            through = [e for e in W.events if e[0] == "mapper-set"]
            chk.require(not through, "C10-W9", where, f"{sit}: nothing is stored through the product mapper",
                        f"{sit}: create_cache stores {through[:3]} through the product mapper: opening a product writes into the product", key="writes:mapper")
            k, v = call(I, sc, "read_cache", [m, Const(img), Const(7)])
            chk.require(k == "returned" and v is g2, "C10-W9", where, f"{sit}: a second create_cache replaces the entry",
                        f"{sit}: after two create_cache calls read_cache {'returns the first group' if k == 'returned' and v is g1 else k}: an existing entry is not replaced", key="writes:replaced")
        except (ShapeError, NonTermination, RecursionError) as e:
            raise AnalysisError(f"{where}: cannot be evaluated on the model cache places ({root!r}, {img!r}): {str(e)[:160]}")


def w2(chk, op):
    repo = op.repo
    for key, name in ((ENTRY, "backend_options"), (IO_OPEN, "storage_options")):
        fi = op.fi(key)
        if name not in fi.params:
            raise AnalysisError(f"anchor vanished: parameter {name} of {key}")
        bad = []
        for kind, root, target, node in effects.stores(repo, fi):
            if root == name:
                bad.append(short(node, 70))
        for n in fi.own_nodes():
            if isinstance(n, ast.Name) and n.id == name and isinstance(n.ctx, ast.Load):
                par = getattr(n, "_parent", None)
                # allowed: **name, name.get(..), name[...] load, `x in name`, dict(name), {**name}, iteration, len
                if isinstance(par, ast.keyword) and par.arg is None:
                    continue
                if isinstance(par, ast.Dict):
                    continue
                if isinstance(par, ast.Attribute) and par.attr in ("get", "items", "keys", "values", "copy"):
                    continue
                if isinstance(par, ast.Subscript) and isinstance(par.ctx, ast.Load):
                    continue
                if isinstance(par, ast.Compare):
                    continue
                if isinstance(par, ast.Call) and isinstance(par.func, ast.Name) and par.func.id in ("dict", "len", "bool", "sorted", "list", "tuple") and n in par.args:
                    continue
                if isinstance(par, ast.Call) and norm(par.func) in ("copy.copy", "copy.deepcopy"):
                    continue
                if isinstance(par, ast.Attribute) and par.attr in effects.MUTATING_METHODS:
                    continue  # already reported by stores()
                if isinstance(par, (ast.For, ast.comprehension)):
                    continue
                if isinstance(par, ast.BinOp) and isinstance(par.op, ast.BitOr):
                    continue
                bad.append(f"escapes: {short(par, 70)}")
        default = fi.param_default(name)
        chk.require(not bad, "C10-W2", op.where(fi), f"{name} is only unpacked/read (its default is the shared literal {short(default, 20) if default is not None else None})",
                    f"{name} is mutated or aliased: {bad[:3]} - the caller's dict (or the shared mutable default) changes between opens", key=f"{fi.key}:{name}")


def w2_defaults(chk, op):
    """every function on the open path: a parameter whose default is a mutable object created once at definition time
    (dict / list / set literal, comprehension, constructor call) is never mutated or stored - otherwise what one open
    leaves in it is seen by the next"""
    repo = op.repo
    n = 0
    for k in sorted(op.reach):
        fi = op.g.funcs[k]
        a = getattr(fi.node, "args", None)
        if a is None:
            continue
        pos = [x.arg for x in a.posonlyargs + a.args]
        defaults = dict(zip(pos[len(pos) - len(a.defaults):], a.defaults))
        defaults.update({p_.arg: d for p_, d in zip(a.kwonlyargs, a.kw_defaults) if d is not None})
        for name, d in defaults.items():
            if not isinstance(d, (ast.Dict, ast.List, ast.Set, ast.ListComp, ast.DictComp, ast.SetComp)) and not (isinstance(d, ast.Call) and norm(d.func) in ("dict", "list", "set", "OrderedDict", "defaultdict")):
                continue
            n += 1
            bad = [short(node, 60) for kind, root, target, node in effects.stores(repo, fi) if root == name]
            returned = [short(r, 40) for r in fi.own_nodes() if isinstance(r, ast.Return) and isinstance(r.value, ast.Name) and r.value.id == name]
            chk.require(not bad, "C10-W2", op.where(fi), f"parameter {name} (mutable default {short(d, 12)}) is not mutated",
                        f"parameter {name} has the mutable default {short(d, 12)}, created once for all calls, and is mutated ({bad[:2]}{'; returned: ' + returned[0] if returned else ''}): "
                        f"entries written during one open are still there for the next", key=f"{fi.key}:{name}:mutable-default")
    chk.count("mutable_defaults_on_open_path", n)


IMMUTABLE_CTORS = {"str", "int", "float", "bool", "bytes", "tuple", "frozenset", "len", "repr", "format", "hash", "complex", "round", "abs", "min", "max", "sum", "ord", "chr", "divmod"}
IMMUTABLE_METHODS = {"join", "format", "lower", "upper", "strip", "lstrip", "rstrip", "replace", "removeprefix", "removesuffix", "zfill", "ljust", "rjust", "title", "casefold", "capitalize",
                     "encode", "decode", "isoformat", "strftime", "hexdigest", "digest", "group", "startswith", "endswith", "total_seconds", "timestamp", "date", "time", "toordinal", "count", "index", "find"}
IMMUTABLE_EXTERNAL = ("datetime.", "re.compile", "posixpath.", "os.path.", "os.fspath", "math.", "operator.index", "fractions.", "decimal.", "hashlib.", "numpy.datetime64", "numpy.timedelta64", "numpy.dtype",
                      "numpy.int", "numpy.uint", "numpy.float", "dateutil.parser.")
TOOLZ_CONTAINERS = {"merge", "merge_with", "valmap", "keymap", "itemmap", "valfilter", "keyfilter", "itemfilter", "assoc", "dissoc", "assoc_in", "update_in", "groupby", "frequencies", "countby",
                    "partition_all", "concat", "concatv", "unique", "interleave", "sliding_window", "partition", "cons", "remove", "take", "drop", "pluck"}
MUTABLE_CTORS = {"dict", "list", "set", "bytearray", "OrderedDict", "defaultdict", "Counter", "deque", "ChainMap"}
MUTABLE_METHODS = {"copy", "split", "rsplit", "splitlines", "groupdict", "items", "keys", "values", "tolist", "astype", "reshape"}
PART_METHODS = {"partition", "rpartition", "split", "rsplit", "groups", "splitlines"}


def _result_kind(repo, g, fi, e, depth=0, seen=None):
    """what a function hands out, as far as sharing it between calls goes: 'immutable' (text, numbers, datetimes, tuples of such),
    'data' (a dict / list / set / array / Group / Variable / Array: sharing one between calls aliases what callers own) or None"""
    seen = seen if seen is not None else set()
    if e is None or isinstance(e, (ast.Constant, ast.JoinedStr, ast.Compare)):
        return "immutable"
    if isinstance(e, (ast.Dict, ast.List, ast.Set, ast.ListComp, ast.DictComp, ast.SetComp, ast.GeneratorExp)):
        return "data"
    if isinstance(e, ast.Tuple):
        kinds = {_result_kind(repo, g, fi, x, depth, seen) for x in e.elts}
        return "data" if "data" in kinds else None if None in kinds else "immutable"
    if isinstance(e, ast.IfExp):
        kinds = {_result_kind(repo, g, fi, e.body, depth, seen), _result_kind(repo, g, fi, e.orelse, depth, seen)}
        return "data" if "data" in kinds else None if None in kinds else "immutable"
    if isinstance(e, ast.BoolOp):
        kinds = {_result_kind(repo, g, fi, x, depth, seen) for x in e.values}
        return "data" if "data" in kinds else None if None in kinds else "immutable"
    if isinstance(e, ast.UnaryOp):
        return "immutable" if isinstance(e.op, ast.Not) else _result_kind(repo, g, fi, e.operand, depth, seen)
    if isinstance(e, ast.BinOp):
        kinds = {_result_kind(repo, g, fi, e.left, depth, seen), _result_kind(repo, g, fi, e.right, depth, seen)}
        if isinstance(e.op, ast.BitOr) and "data" in kinds:
            return "data"
        return "immutable" if kinds == {"immutable"} else None
    if isinstance(e, ast.Subscript):
        v = e.value
        if isinstance(v, ast.Call) and isinstance(v.func, ast.Attribute) and v.func.attr in PART_METHODS and not isinstance(e.slice, ast.Slice):
            return "immutable"  # one piece of a split text
        return None
    if isinstance(e, ast.Name):
        if (fi.key, e.id) in seen:
            return None
        seen.add((fi.key, e.id))
        if e.id in fi.params:
            return None
        vals = []
        for n in fi.own_nodes():
            if isinstance(n, ast.Assign) and any(isinstance(t, ast.Name) and t.id == e.id for t in n.targets):
                vals.append(n.value)
            elif isinstance(n, (ast.AugAssign, ast.AnnAssign)) and isinstance(n.target, ast.Name) and n.target.id == e.id:
                vals.append(n.value)
            elif isinstance(n, (ast.For, ast.comprehension)) and any(isinstance(x, ast.Name) and x.id == e.id for x in ast.walk(n.target)):
                return None
        if not vals:
            return None
        kinds = {_result_kind(repo, g, fi, x, depth, seen) for x in vals}
        return "data" if "data" in kinds else None if None in kinds else "immutable"
    if isinstance(e, ast.Call):
        f = e.func
        if isinstance(f, ast.Name):
            r = repo.resolve_name(fi, f.id)
            if r.kind == "external":
                nm = r.fq.rsplit(".", 1)[-1]
                if r.fq.startswith("builtins.") and nm in IMMUTABLE_CTORS:
                    return "immutable"
                if nm in MUTABLE_CTORS or r.fq.startswith(("numpy.array", "numpy.asarray", "numpy.frombuffer", "numpy.stack", "numpy.empty", "numpy.zeros", "copy.")):
                    return "data"
                if r.fq.startswith(IMMUTABLE_EXTERNAL):
                    return "immutable"
                if r.fq.split(".")[0] in ("tlz", "toolz", "cytoolz") and nm in TOOLZ_CONTAINERS:
                    return "data"  # a new dict / list built by toolz
                return None
            if r.kind == "class":
                return "data" if r.node.name in ("Group", "Variable", "Array") else None
        if isinstance(f, ast.Attribute):
            r = repo.resolve_expr(fi, f)
            if r.kind == "external":
                if r.fq.startswith(IMMUTABLE_EXTERNAL):
                    return "immutable" if not r.fq.startswith("hashlib.") else None
                if r.fq.startswith(("numpy.", "copy.", "json.loads", "json.load")):
                    return "data"
                return None
            if r.kind == "class":
                return "data" if r.node.name in ("Group", "Variable", "Array") else None
            if r.kind != "func":
                if f.attr in IMMUTABLE_METHODS:
                    return "immutable"
                if f.attr in MUTABLE_METHODS:
                    return "data"
                return None
        # a function of the package: what it returns
        if depth >= 4:
            return None
        from ..interproc import resolve_callees
        try:
            callees = resolve_callees(repo, fi, f)
        except Exception:
            return None
        if not callees:
            return None
        kinds = set()
        for c in callees:
            kinds.add(_returns_kind(repo, g, c.func, depth + 1, seen) if getattr(c, "func", None) is not None else None)
        return "data" if "data" in kinds else None if None in kinds else "immutable"
    return None


def _returns_kind(repo, g, fi, depth=0, seen=None):
    if isinstance(fi.node, ast.Lambda):
        return _result_kind(repo, g, fi, fi.node.body, depth, seen)
    rets = [n for n in fi.own_nodes() if isinstance(n, ast.Return)]
    if any(isinstance(n, (ast.Yield, ast.YieldFrom)) for n in fi.own_nodes()):
        return "data"  # a generator object: consumed by the first caller
    if not rets:
        return "immutable"
    kinds = {_result_kind(repo, g, fi, r.value, depth, seen) for r in rets}
    return "data" if "data" in kinds else None if None in kinds else "immutable"


COPYING_CALLS = {"dict", "list", "tuple", "set", "frozenset", "sorted", "copy.copy", "copy.deepcopy", "deepcopy", "OrderedDict"}


def _every_use_copies(repo, fi, what):
    """is every call of the memoised name in the package the direct argument of a copying call (dict(...), list(...), copy.deepcopy(...),
    `.copy()` on the result, `{**f(x)}`, `f(x) | other`)?"""
    names = {fi.qualname.rsplit(".", 1)[-1]}
    if " = " in what:
        names.add(what.split(":", 1)[1].split(" = ", 1)[0].strip())
    uses = copied = 0
    for m in repo.modules.values():
        if ".tests" in m.name:
            continue
        for n in ast.walk(m.tree):
            if isinstance(n, ast.Call) and ((isinstance(n.func, ast.Name) and n.func.id in names) or (isinstance(n.func, ast.Attribute) and n.func.attr in names)):
                uses += 1
                up = getattr(n, "_parent", None)
                if isinstance(up, ast.Call) and n in up.args and norm(up.func) in COPYING_CALLS:
                    copied += 1
                elif isinstance(up, ast.Attribute) and up.attr == "copy" and isinstance(getattr(up, "_parent", None), ast.Call):
                    copied += 1
                elif isinstance(up, ast.Dict) and None in up.keys:
                    copied += 1
                elif isinstance(up, ast.BinOp) and isinstance(up.op, ast.BitOr):
                    copied += 1
    return uses > 0 and copied == uses


def memo_verdict(op, fi, what):
    """a memoised function on the open path -> ('safe' | 'unsafe' | 'unknown', why).  Safe: nothing it reaches reads the file system or
    module state that is written at call time, and what it returns is immutable.  Unsafe: it reads files (the memo never sees them
    change) or hands the same dict / list / array / group to every caller"""
    repo, g = op.repo, op.g
    # what the memoised function certainly calls: plain names and module attributes resolved to functions of the package (the by-name
    # method edges of the call graph over-approximate; a method called on an unknown receiver shows up as an effect of the caller)
    from ..interproc import resolve_callees
    reach, todo = {fi.key: fi}, [fi]
    while todo:
        f1 = todo.pop()
        for n in f1.own_nodes():
            if isinstance(n, ast.Call) and (isinstance(n.func, ast.Name) or (isinstance(n.func, ast.Attribute) and repo.resolve_expr(f1, n.func.value).kind == "module")):
                try:
                    cs = resolve_callees(repo, f1, n.func)
                except Exception:
                    cs = []
                for c in cs:
                    if getattr(c, "func", None) is not None and c.func.key not in reach:
                        reach[c.func.key] = c.func
                        todo.append(c.func)
    for k in sorted(reach):
        f2 = reach[k]
        for ef in effects.scan(repo, f2):
            if ef.kind in ("fs_read", "fs_open", "fs_write", "mapper_read", "mapper_probe"):
                return "unsafe", f"{what} reaches {ef.where}: {short(ef.node, 50)} - the answer is read from storage once and kept for the life of the process: a later open sees what was there at the first call"
        for kind, root, target, node in effects.stores(repo, f2):
            if kind == "global_store":
                return "unknown", f"{what} reaches {f2.key}, which stores into module-level state"
    # names of module-level mutable objects read by the memoised function itself
    if "self" in fi.params[:1] and "cached_property" not in what:
        return "unknown", f"{what} is a method: the memo is keyed by the instance, whose fields can change"
    kind = _returns_kind(repo, g, fi)
    if kind == "immutable":
        return "safe", f"{what}: reads nothing but its arguments, returns an immutable value"
    if kind == "data" and _every_use_copies(repo, fi, what):
        return "unknown", f"{what} returns a container it builds, and every use of it in the package copies the result first: whether the copy goes deep enough is not decided"
    if kind == "data":
        return "unsafe", f"{what} returns a dict / list / array / group that it builds: every caller with the same arguments gets the same object, what one open (or its user) changes in it is there for the next"
    return "unknown", f"{what}: whether what it returns can be shared between calls is not decided"


def w3(chk, op):
    repo = op.repo
    bad = []
    memo = []
    for k in sorted(op.reach):
        fi = op.g.funcs[k]
        if fi.module.name.endswith(".testing"):
            continue
        for d in effects.memo_decorators(fi):
            memo.append((fi, f"{fi.key} @{d}"))
        for kind, root, target, node in effects.stores(repo, fi):
            if kind == "global_store":
                bad.append(f"{fi.key}: global {root} = ...")
                continue
            if root is None:
                continue
            if root in fi.local_bindings() and root not in fi.params:
                # a local that is just another name for a module-level container (`layout = record_layout`; no copy in between):
                # what is stored through it is stored in the module-level object
                srcs = [n.value for n in fi.own_nodes() if isinstance(n, ast.Assign) and any(isinstance(t, ast.Name) and t.id == root for t in n.targets)]
                others = [n for n in fi.own_nodes() if isinstance(n, (ast.For, ast.comprehension, ast.With, ast.AugAssign, ast.AnnAssign, ast.NamedExpr))
                          and any(isinstance(x, ast.Name) and x.id == root and isinstance(x.ctx, ast.Store) for x in ast.walk(n))]
                if srcs and not others:
                    shared = []
                    for v in srcs:
                        alts = [v.body, v.orelse] if isinstance(v, ast.IfExp) else list(v.values) if isinstance(v, ast.BoolOp) else [v]
                        for alt in alts:
                            if isinstance(alt, ast.Name) and alt.id not in fi.params and alt.id not in fi.local_bindings():
                                r_ = repo.resolve_name(fi, alt.id)
                                if r_.kind == "value" and any(isinstance(e_, (ast.Dict, ast.List, ast.Set, ast.DictComp, ast.ListComp, ast.SetComp)) or
                                                              (isinstance(e_, ast.Call) and norm(e_.func) in ("dict", "list", "set", "OrderedDict", "defaultdict", "collections.OrderedDict", "collections.defaultdict"))
                                                              for e_ in getattr(r_, "exprs", []) or []):
                                    shared.append(alt.id)
                    if shared:
                        bad.append(f"{fi.key}: {short(node, 60)} changes module-level {shared[0]} through its other name `{root}`")
                continue
            if root in fi.params or root in fi.local_bindings():
                continue
            p = fi.parent
            local = False
            while p is not None:
                if root in p.params or root in p.local_bindings():
                    local = True
                    if p.parent is None and _runs_at_import(repo, p):
                        # a variable of a decorator / factory that runs when the module is imported: what its closure stores there lives
                        # as long as the process - state shared by every later call
                        bad.append(f"{fi.key}: {short(node, 60)} stores into `{root}` of {p.qualname}, which runs once at import (decorator / module-level call): the closure keeps state between opens")
                    break
                p = p.parent
            if local:
                continue
            r = repo.resolve_name(fi, root)
            if r.kind in ("value", "module", "class"):
                bad.append(f"{fi.key}: {short(node, 60)} mutates module-level {root}")
    # memoising wrappers applied at module level: name = lru_cache(...)(f)
    for m in repo.modules.values():
        for name, exprs in m.assigns.items():
            for e in exprs:
                for n in ast.walk(e):
                    if isinstance(n, ast.Call):
                        f = n.func.func if isinstance(n.func, ast.Call) else n.func
                        nm = f.attr if isinstance(f, ast.Attribute) else getattr(f, "id", None)
                        if nm in effects.MEMO_DECORATORS:
                            inner = n.args[0] if n.args and isinstance(n.func, ast.Call) or (n.args and not isinstance(n.func, ast.Call) and nm in ("cache",)) else (n.args[0] if n.args else None)
                            target = None
                            if isinstance(inner, ast.Name):
                                target = op.g.funcs.get(f"{m.name}:{inner.id}")
                            memo.append((target, f"{m.name}:{name} = {short(e, 50)}"))
    chk.require(not bad, "C10-W3", "open path", f"no function reachable from open_alos2 ({len(op.reach)}) stores into module-level state",
                f"module-level state is written on the open path: {bad[:3]}", key="module-state")
    undecided = []
    seen_memo = set()
    for target, what in memo:
        if what in seen_memo:
            continue
        seen_memo.add(what)
        if target is None:
            undecided.append(f"{what}: the memoised callable is not a function of the package the analysis can look into")
            continue
        verdict, why = memo_verdict(op, target, what)
        if verdict == "unsafe":
            chk.fail("C10-W3", "open path", f"memoised function: {why}", key="memoised")
        elif verdict == "unknown":
            undecided.append(why)
        else:
            chk.ok("C10-W3", "open path", why)
    if not memo:
        chk.ok("C10-W3", "open path", "no memoising decorator on the open path")
    if undecided:
        raise AnalysisError(f"C10-W3: {undecided[0]}" + (f" (and {len(undecided) - 1} more)" if len(undecided) > 1 else ""))


def _runs_at_import(repo, fn):
    """is this module-level function applied as a decorator to a definition, or called by a module-level statement, somewhere in the package?"""
    for m in repo.modules.values():
        if m.name.endswith(".testing") or ".tests" in m.name:
            continue
        for st in ast.walk(m.tree):
            if isinstance(st, (ast.FunctionDef, ast.ClassDef)):
                for d in st.decorator_list:
                    t = d.func if isinstance(d, ast.Call) else d
                    if isinstance(t, (ast.Name, ast.Attribute)):
                        try:
                            r = repo.resolve_expr(m, t)
                        except Exception:
                            continue
                        if r.kind == "func" and r.func is fn:
                            return True
        for st in m.tree.body:
            if isinstance(st, (ast.Assign, ast.Expr, ast.AnnAssign)) and st.value is not None:
                for c in ast.walk(st.value):
                    if isinstance(c, ast.Call) and isinstance(c.func, (ast.Name, ast.Attribute)):
                        try:
                            r = repo.resolve_expr(m, c.func)
                        except Exception:
                            continue
                        if r.kind == "func" and r.func is fn:
                            return True
    return False


def w4(chk, op):
    repo = op.repo
    h = repo.module("ceos_alos2.hierarchy")
    ai = h.func("Group._adjust_item")
    flow = Flow(ai)
    ok = True
    detail = []
    n_st = 0
    for kind, root, target, node in effects.stores(repo, ai):
        n_st += 1
        if root is None or root == "self" or root in ai.params:
            ok = False
            detail.append(short(node, 60))
            continue
        d = flow.single_def(root)
        fresh = isinstance(d, ast.Call) and norm(d.func) in ("copy.copy", "copy.deepcopy", "copy", "deepcopy", "dataclasses.replace", "replace")
        if not fresh:
            ok = False
            detail.append(f"{short(node, 60)} ({root} = {short(d, 30) if d is not None else '?'})")
    if n_st == 0:
        raise AnalysisError("anchor vanished: attribute stores in Group._adjust_item")
    chk.require(ok, "C10-W4", op.where(ai), "Group._adjust_item stores path/url/data only on a copy of its argument",
                f"Group._adjust_item modifies its argument in place: {detail[:2]} - a group nested twice (or cached) changes under the caller", key="_adjust_item:copy")
    mi = repo.module("ceos_alos2.dicttoolz").func("move_items")
    flow = Flow(mi)
    ok = False
    n_mut = 0
    for kind, root, target, node in effects.stores(repo, mi):
        if kind == "mutate":
            n_mut += 1
            d = flow.expand(ast.Name(id=root, ctx=ast.Load()))
            ok = "deepcopy" in norm(d)
    chk.require(ok or n_mut == 0, "C10-W4", op.where(mi), "move_items pops only from a deep copy of its input",
                "move_items pops from (an alias of) its input mapping", key="move_items:deepcopy")


def nesting_on_copies(chk, repo):
    """C10-W10: hierarchy.Group evaluated by the checker's interpreter (the package's own __post_init__ / __setitem__ / _adjust_item):
    a group that is nested into another one - at construction and by item assignment, once and twice - is itself left as it was
    (path, url, the dict of its members, its own children): nesting works on copies.  A group adjusted in place changes under the
    caller who still holds it (the tree returned by an earlier open, a cached group)."""
    from collections import OrderedDict
    from ..shapes import Const, DictS, Fn, Interp, NonTermination, Obj, ShapeError, _Raise
    chk.rule("C10-W10", "nesting a group into another (constructor, item assignment, twice) leaves the nested group object untouched", 3)
    hm = repo.module("ceos_alos2.hierarchy")
    where = f"{hm.relpath}:Group._adjust_item"
    I = Interp(repo)
    I.real_hierarchy = True
    sc = I.module_scope(hm)
    G = I.lookup("Group", sc)

    def snap(g):
        d = g.fields.get("data")
        return (repr(g.fields.get("path")), repr(g.fields.get("url")), id(d), tuple((k, id(v)) for k, v in d.items.items()) if isinstance(d, DictS) else None)
    try:
        leaf = I.call(G, [], OrderedDict(path=Const(None), url=Const(None), data=DictS(), attrs=DictS({"k": Const(1)})))
        child = I.call(G, [], OrderedDict(path=Const(None), url=Const(None), data=DictS(OrderedDict(leaf=leaf)), attrs=DictS()))
        before_child, before_leaf = snap(child), snap(leaf)
        p1 = I.call(G, [], OrderedDict(path=Const("/"), url=Const("memory://a"), data=DictS(OrderedDict(child=child)), attrs=DictS()))
        chk.require(snap(child) == before_child and snap(leaf) == before_leaf, "C10-W10", where, "a group handed to the constructor of its parent is left as it was",
                    f"after Group(path='/', url=.., data={{'child': child}}) the child object itself has path/url/members {snap(child)[:2]} (before: {before_child[:2]}): nesting adjusts the caller's object in place",
                    key="nesting:constructor")
        p2 = I.call(G, [], OrderedDict(path=Const("/other"), url=Const("memory://b"), data=DictS(), attrs=DictS()))
        I.call(I.getattr(p2, "__setitem__"), [Const("again"), child], {})
        chk.require(snap(child) == before_child and snap(leaf) == before_leaf, "C10-W10", where, "a group assigned into a second parent is left as it was",
                    f"after parent['again'] = child the child object itself has path/url/members {snap(child)[:2]} (before: {before_child[:2]})", key="nesting:setitem")
        got1 = p1.fields["data"].items.get("child") if isinstance(p1.fields.get("data"), DictS) else None
        got2 = p2.fields["data"].items.get("again") if isinstance(p2.fields.get("data"), DictS) else None
        ok = isinstance(got1, Obj) and isinstance(got2, Obj) and got1 is not child and got2 is not child and repr(got1.fields.get("path")) != repr(got2.fields.get("path"))
        chk.require(ok, "C10-W10", where, "each parent holds its own adjusted copy (own path / url)",
                    f"the two parents hold {'the caller object itself' if got1 is child or got2 is child else 'copies with the same path'}: a group nested twice is shared between the trees", key="nesting:independent")
    except (ShapeError, NonTermination, RecursionError, _Raise) as e:
        raise AnalysisError(f"{where}: nesting cannot be evaluated on model groups: {str(e)[:160]}")
