"""decode semantics of the package's construct adapters, decided by evaluating `_decode` (the checker's interpreter) on
representative raw values of what the wrapped construct hands it.  Complements vlib/adapters.py (normal forms + abstract
evaluation on input classes): indifferent to how `_decode` is written."""
from __future__ import annotations

import ast
import datetime
import math

from ..core import AnalysisError

# per adapter class: (representative raw values, expected result as ordinary Python) - the specification of the adapter
def _spec(cls, attrs):
    if cls == "Flag":
        return [0, 1, 2, 3, 0x80, 0x0100, 0x8000, 0xFFFE, 0xFFFF, 0x80000000, 255], lambda x: bool(x)
    if cls == "Factor":
        f = attrs.get("factor")
        if not isinstance(f, (int, float)):
            return None
        return [0, 1, -5, 35000002, 2**31 - 1, 1.5, -2.25, 1e30], lambda x: x * f
    if cls == "AsciiInteger":
        return ["  12", "12  ", "0012", "-7  ", "  +3", "0", " 2147483648 ", "1"], lambda s: int(s.strip())
    if cls == "AsciiFloat":
        return [" 1.5", "1.5E+03 ", " -2.50E-01", "0.0", "  12", "6378137.0000000", "-1.0000000E+00", "3.", ".5"], lambda s: float(s.strip())
    if cls == "PaddedString":
        return [" abc ", "abc", "a b  ", "  x", "ALOS2   "], lambda s: s.strip()
    if cls == "StripNullBytes":
        return [b"ab\x00\x00", b"\x00ab", b"ab", b"a\x00b\x00"], lambda b: b.strip(b"\x00")
    if cls == "Metadata":
        a = attrs.get("attrs") if isinstance(attrs.get("attrs"), dict) else {}
        return [1.5, "x", 7], lambda x: (x, dict(a))
    if cls == "DatetimeYdms":
        vals = [dict(year=2014, day_of_year=1, milliseconds=0), dict(year=2016, day_of_year=366, milliseconds=86399999), dict(year=2015, day_of_year=60, milliseconds=43200123),
                dict(year=2049, day_of_year=365, milliseconds=1)]
        return vals, lambda d: datetime.datetime(d["year"], 1, 1) + datetime.timedelta(days=d["day_of_year"] - 1, milliseconds=d["milliseconds"])
    if cls == "AsciiComplex":
        vals = [dict(real=1.5, imaginary=-2.0), dict(real=0.0, imaginary=0.0), dict(real=-3.25, imaginary=4.5)]
        return vals, lambda d: complex(d["real"], d["imaginary"])
    return None


def _same(a, b):
    if isinstance(a, float) and isinstance(b, (int, float)) and not isinstance(b, bool):
        if math.isnan(a) or math.isnan(b):
            return math.isnan(a) and math.isnan(b)
        return a == b or abs(a - b) <= 1e-12 * max(abs(a), abs(b))
    if isinstance(a, tuple) and isinstance(b, tuple) and len(a) == len(b):
        return all(_same(x, y) for x, y in zip(a, b))
    return type(a) is type(b) and a == b or (isinstance(a, (int, float, complex)) and isinstance(b, (int, float, complex)) and not isinstance(a, bool) and not isinstance(b, bool) and a == b and type(a) is type(b))


def adapter_instance(I, repo, a):
    """an instance of the adapter class of chain entry ``a`` with its plain constructor attributes, plus whatever further
    attributes its __init__ derives from them"""
    from ..shapes import Const, DictS, Obj, ShapeError, Top, _Raise
    mod = repo.modules.get(a.get("clsmod"))
    r = repo.resolve_module_name(mod, a["cls"]) if mod is not None else None
    if r is None or r.kind != "class":
        raise ShapeError(f"adapter class {a.get('cls')} not found")
    raw = a.get("raw_attrs") or {}
    attrs = {}
    for k, v in raw.items():
        if isinstance(v, (int, float, str, bool, type(None))):
            attrs[k] = Const(v)
        elif isinstance(v, dict):
            attrs[k] = DictS({kk: Const(vv) for kk, vv in v.items() if isinstance(vv, (int, float, str, bool, type(None)))})
    obj = Obj(a["cls"], dict(attrs), klass=(r.mod, r.node))
    found = I.find_class_attr(r.mod, r.node, "__init__")
    if found is not None:
        fi = found[1].funcs.get(found[2][0])
        sc = I.module_scope(found[1]).child(owner=fi)
        sc.vars["self"] = obj
        for p_ in fi.positional_params[1:]:
            sc.vars[p_] = attrs.get(p_, Top(f"constructor argument {p_}"))
        if fi.node.args.kwarg is not None:
            sc.vars[fi.node.args.kwarg.arg] = attrs.get("attrs", DictS())
        for st in fi.node.body:
            if isinstance(st, ast.Assign) and isinstance(st.targets[0], ast.Attribute) and isinstance(st.targets[0].value, ast.Name) and st.targets[0].value.id == "self":
                try:
                    I.exec_stmt(st, sc, [])
                except (ShapeError, _Raise):
                    pass
    return obj


def decode_callable(I, repo, a, obj):
    """the decode step of chain entry ``a`` as a function of what the construct below hands it: ``_decode`` of an adapter class; for a
    reader class (its own ``_parse``, described as decoding Bytes(n)) ``_parse`` on a model stream that holds exactly these bytes"""
    from collections import OrderedDict
    from ..shapes import Const, ShapeError
    raw = a.get("raw_attrs") or {}
    wp = raw.get("__width_param__")
    if wp is None:
        return lambda arg: I.call(I.getattr(obj, "_decode"), [arg, Const(None), Const(None)], {})
    from ..layout import reader_parse
    mod = repo.modules.get(a.get("clsmod"))
    cls = a.get("clsnode")

    def run(arg):
        if not (isinstance(arg, Const) and isinstance(arg.v, (bytes, bytearray))):
            raise ShapeError(f"reader class {a.get('cls')} is handed {arg!r:.40}, not the field's bytes")
        kw = OrderedDict((k, Const(v)) for k, v in raw.items() if not k.startswith("__") and isinstance(v, (int, float, str, bool, bytes, type(None))))
        kw[wp] = Const(len(arg.v))
        st, out, reads, consumed = reader_parse(I, mod, cls, kw, bytes(arg.v))
        if st == "raised":
            raise out
        if consumed != len(arg.v):
            raise ShapeError(f"reader class {a.get('cls')} consumes {consumed} of the {len(arg.v)} bytes of its field")
        return out
    return run


def base_value(below, base, base_args, data):
    """what construct's own constructs under an adapter hand to its `_decode` for the field bytes ``data`` (model of Bytes,
    PaddedString, GreedyBytes in a window, NullStripped, StringEncoded); None when something else is in between"""
    if base == "Bytes":
        v = data
    elif base == "PaddedString":
        enc = (base_args or {}).get("enc") or "utf8"
        v = data.rstrip(b"\x00").decode(enc)
    else:
        return None
    for w in reversed(below):
        if w.get("kind") != "wrapper":
            return None
        if w["cls"] == "NullStripped":
            pad = w["args"]["pad"]
            if not isinstance(v, bytes) or not pad:
                return None
            while v.endswith(pad):
                v = v[: len(v) - len(pad)]
        elif w["cls"] == "StringEncoded":
            if not isinstance(v, bytes):
                return None
            v = v.decode(w["args"]["encoding"])
        else:
            return None
    return v


TEXT_ADAPTERS = ("AsciiInteger", "AsciiFloat", "PaddedString", "StripNullBytes")


def adapter_values(chk, repo, L, rule, keys):
    """every (adapter class, constructor attributes) used in the layouts ``keys``: `_decode` on representative raw values"""
    from ..repeval import from_shape, Undecided
    from ..shapes import Const, DictS, Fn, Interp, Obj, ShapeError, _Raise
    seen = {}
    for key in keys:
        for lf in L.by_name(key).values():
            for i, a in enumerate(lf.chain):
                if a.get("kind") != "adapter":
                    continue
                plain = a.get("attrs") or {}
                below = lf.chain[i + 1:]
                sig = (a.get("cls"), repr(sorted((k, repr(v)) for k, v in plain.items())), repr([(w.get("cls"), w.get("attrs")) for w in below]), lf.base)
                seen.setdefault(sig, (a, f"{key}:{lf.name}", below, lf))
    I = Interp(repo)
    n = 0
    for (cls, _, _, _), (a, where0, below, lf) in sorted(seen.items(), key=lambda kv: kv[0]):
        spec = _spec(cls, a.get("attrs") or {})
        if spec is None:
            continue
        values, want_fn = spec
        mod = repo.modules.get(a.get("clsmod"))
        where = f"{mod.relpath}:{cls}._decode" if mod is not None else f"{cls}._decode"
        try:
            obj = adapter_instance(I, repo, a)
        except ShapeError as e:
            raise AnalysisError(f"{where}: the adapter cannot be instantiated in the model ({e})")
        bad = None
        for raw in values:
            want = want_fn(raw)
            shown = raw
            if cls in TEXT_ADAPTERS and isinstance(raw, (str, bytes)):
                # the field's bytes, through construct's own constructs under the adapter (whatever they are), then through `_decode`
                data = raw.encode("ascii") if isinstance(raw, str) else raw
                try:
                    handed = base_value(below, lf.base, getattr(lf, "base_args", None), data)
                except (UnicodeDecodeError, LookupError) as e:
                    handed = None
                    got = f"<the wrapped construct raises {type(e).__name__}>"
                    n += 1
                    if bad is None:
                        bad = (data, got, want)
                    continue
                if handed is not None:
                    raw, shown = handed, data
            arg = DictS({k: Const(v) for k, v in raw.items()}) if isinstance(raw, dict) else Const(raw)
            if isinstance(raw, dict):
                # a parsed Container: fields readable as attributes and as items
                arg = Obj("Container", {k: Const(v) for k, v in raw.items()})
                arg.fields["__getitem__"] = Fn("py", impl=lambda I_, a_, k_, _o=arg: _o.fields[a_[0].v], name="__getitem__")
            try:
                out = decode_callable(I, repo, a, obj)(arg)
                got = from_shape(out)
            except _Raise as e:
                got = f"<raises {e.what[:50]}>"
            except (ShapeError, Undecided) as e:
                raise AnalysisError(f"{where}: cannot be evaluated on {raw!r}: {str(e)[:120]}")
            n += 1
            if not _same(got, want) and bad is None:
                bad = (shown, got, want)
        attrs_txt = ", ".join(f"{k}={v!r}" for k, v in (a.get("attrs") or {}).items() if not isinstance(v, dict))[:60]
        chk.require(bad is None, rule, where, f"{cls}({attrs_txt}) decodes {len(values)} representative raw values as specified (used at {where0})",
                    f"{cls}({attrs_txt}) decodes the field content {bad[0]!r} to {bad[1]!r}, the field encodes {bad[2]!r} (used at {where0})" if bad else "", key=f"adapter-values:{cls}:{attrs_txt[:30]}",
                    sample={"adapter": cls, "values": len(values)})
    if n == 0:
        raise AnalysisError("no adapter with a specification found in the layouts")
