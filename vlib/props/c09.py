"""C09 -- a torn cache never poisons later opens"""
from __future__ import annotations

import ast

from .. import effects
from ..callgraph import guards_of
from ..core import AnalysisError, norm, short
from ..dataflow import Flow, calls_in
from ..openpath import CACHE_DECODE, CREATE_CACHE, OPEN_IMAGE, READ_CACHE, OpenPath, chains_to, exception_fate, json_loads_sites

LEVEL = "other"


def open_after_torn(chk, repo):
    """C09-X5: a torn cache sends a default open down the parse path and nowhere else: no write, no second pass (vlib/openmodel.py)"""
    from .open_rules import open_rules
    open_rules(chk, repo, "C09-X5", ('lookup', 'hit', 'write', 'parse'), "open_image with a torn cache (read_cache raises CachingError with a cause): the image is parsed once and nothing is written unless create_cache is set")


def run(chk, repo):
    op = OpenPath(repo)
    chk.explanation = (
        "The index is one JSON object emitted by json.dumps with no trailing text and ASCII only (checked under "
        "C09-X0), so every proper prefix - every crash point of the write - is invalid JSON and the reader sees "
        "either the complete document or json.JSONDecodeError. The check then follows that exception class up every "
        "call chain open_image -> ... -> json.loads through the enclosing try statements (with the class hierarchy) "
        "and requires that it ends in the parse fallback. Repair: create_cache writes unconditionally. Does NOT "
        "decide OS-level atomicity or concurrent-writer timing."
    )
    chk.trusted = ["a proper prefix of a JSON object text is not valid JSON; json.loads raises json.JSONDecodeError (a ValueError) on it",
                   "exception class hierarchy table in vlib/callgraph.py"]
    chk.rule("C09-X0", "the index is a single json.dumps object, ASCII only, nothing appended", 2)
    chk.rule("C09-X1", "JSONDecodeError from a torn index is caught on every chain from open_image and ends in the parse fallback", 1)
    chk.rule("C09-X2", "create_cache (re)writes unconditionally after ensuring the directory exists", 2)
    chk.rule("C09-X3", "the fallback path never modifies the cache file", 1)

    # X0
    cach = repo.module("ceos_alos2.sar_image.caching")
    enc = cach.func("encode")
    dumps = [c for c in calls_in(enc) if norm(c.func) == "json.dumps"]
    ok = len(dumps) == 1 and not any(k.arg == "ensure_ascii" for k in dumps[0].keywords)
    chk.require(ok, "C09-X0", f"{cach.relpath}:encode", "one json.dumps call with the default ensure_ascii",
                "encode does not produce a single ASCII json.dumps document", key="encode:single-dumps")
    cc = op.fi(CREATE_CACHE)
    writes = [e for e in effects.scan(repo, cc) if e.kind == "fs_write" and ("write_text" in e.detail or "write_bytes" in e.detail or "open" in e.detail)]
    if not writes:
        raise AnalysisError("anchor vanished: cache write in create_cache")
    flow = Flow(cc)
    for w in writes:
        arg = flow.expand(w.node.args[0]) if w.node.args else None
        plain = arg is not None and isinstance(arg, ast.Call) and norm(arg.func).endswith("encode") and not isinstance(arg, ast.BinOp)
        chk.require(plain, "C09-X0", op.where(cc), "the file content is exactly encode(data)",
                    f"the file content is {short(arg, 80) if arg is not None else None}, not the bare encode(data) document", key="create_cache:content")

    # X1
    sites = json_loads_sites(op)
    if not sites:
        raise AnalysisError("anchor vanished: json.loads on the cache read path")
    oi = op.fi(OPEN_IMAGE)
    for fi, call in sites:
        chains = chains_to(op, OPEN_IMAGE, fi, call)
        if not chains:
            raise AnalysisError(f"no call chain from open_image to {fi.key}")
        for chain in chains:
            fate = exception_fate(op, chain, "json.JSONDecodeError")
            desc = " <- ".join(f.qualname for f, _ in chain)
            if fate[0] == "handled":
                _, hfi, handler, cls = fate
                in_open_image = hfi.key == OPEN_IMAGE
                chk.require(in_open_image, "C09-X1", op.where(fi),
                            f"JSONDecodeError on chain {desc} ends in open_image's handler `except {norm(handler.type) if handler.type else ''}` (parse fallback)",
                            f"JSONDecodeError on chain {desc} is swallowed in {hfi.qualname}, which then returns a wrong/None result instead of the parse fallback",
                            key=f"{fi.key}:json.loads:fate", sample={"chain": desc, "handled_in": hfi.qualname})
            else:
                cls = fate[1]
                cname = cls if isinstance(cls, str) else f"{cls[1].name}.{cls[2].name}"
                chk.fail("C09-X1", op.where(fi),
                         f"a torn/empty index makes {short(call, 50)} raise json.JSONDecodeError; on chain {desc} no handler catches it "
                         f"(it leaves open_image as {cname}): default open_alos2 fails until the cache file is deleted",
                         key=f"{fi.key}:json.loads:fate")

    # X4: an empty or cut index text must not trip anything before json.loads sees it
    chk.rule("C09-X4", "the raw index text is not indexed (text[0], text[-1], ...) outside the error translation: an empty file raises IndexError there", 1)
    n_txt = 0
    for fi, call in sites:
        flow = Flow(fi)
        text_names = set()
        if call.args:
            for x in ast.walk(call.args[0]):
                if isinstance(x, ast.Name):
                    text_names.add(x.id)
        text_names = {t for t in text_names if t in fi.params or t in fi.local_bindings()}
        n_txt += 1
        subs = [n for n in fi.own_nodes() if isinstance(n, ast.Subscript) and isinstance(n.ctx, ast.Load) and isinstance(n.value, ast.Name) and n.value.id in text_names and not isinstance(n.slice, ast.Slice)]
        bad_subs = []
        for sub in subs:
            for chain in chains_to(op, OPEN_IMAGE, fi, sub) or [[(fi, sub)]]:
                fate = exception_fate(op, chain, "IndexError")
                if not (fate[0] == "handled" and fate[1].key == OPEN_IMAGE):
                    bad_subs.append(short(sub, 30))
        chk.require(not bad_subs, "C09-X4", op.where(fi), f"the index text `{', '.join(sorted(text_names))}` is handed to json.loads without being indexed outside the error translation",
                    f"`{bad_subs[0] if bad_subs else ''}` indexes the raw index text: for a 0-byte file (crash right after the file was created / truncated) it raises IndexError, which is not the "
                    f"CachingError open_image falls back on - every later default open fails until the file is deleted", key=f"{fi.key}:text-indexed")

    # X2
    guards = []
    for w in writes:
        for test, pol in guards_of(w.node, cc.node):
            guards.append(norm(test))
    exist_guard = [g for g in guards if any(x in g for x in ("exists", "is_file", "isfile", " in mapper"))]
    chk.require(not exist_guard, "C09-X2", op.where(cc), "the cache write is not control-dependent on an existence test (a torn file is overwritten)",
                f"the cache write is skipped when {exist_guard}: a torn cache file is never repaired", key="create_cache:unconditional")
    # ... and neither is the call of create_cache on the open path
    for ckey in op.g.callers(CREATE_CACHE):
        if ckey not in op.reach:
            continue
        cfi = op.g.funcs[ckey]
        for site in op.g.sites[(ckey, CREATE_CACHE)]:
            gtxt = [norm(Flow(cfi).expand(t)) for t, pol in guards_of(site, cfi.node)]
            bad_g = [g for g in gtxt if any(x in g for x in ("exists(", "is_file(", "isfile(", " in mapper", "local_cache_location", "remote_cache_location"))]
            chk.require(not bad_g, "C09-X2", op.where(cfi), f"{short(site, 50)} is not skipped when a cache file already exists",
                        f"create_cache is skipped when {bad_g}: an existing but torn cache file is never overwritten, so create_cache=True does not repair it", key=f"{cfi.key}:create-if-missing")
    mk = [e for e in effects.scan(repo, cc) if e.kind == "fs_write" and "mkdir" in e.detail]
    ok_mk = False
    for e in mk:
        kw = {k.arg: getattr(k.value, "value", None) for k in e.node.keywords}
        ok_mk = kw.get("parents") is True and kw.get("exist_ok") is True and e.node.lineno < min(w.node.lineno for w in writes)
    chk.require(ok_mk, "C09-X2", op.where(cc), "mkdir(parents=True, exist_ok=True) precedes the write",
                "the cache directory is not created (parents, exist_ok) before the write", key="create_cache:mkdir")

    # X3: no fs write reachable from open_image except through create_cache
    reach = op.g.reachable([OPEN_IMAGE], stop={CREATE_CACHE})
    bad = []
    for k in sorted(reach):
        for e in effects.scan(repo, op.g.funcs[k]):
            if e.kind == "fs_write":
                bad.append(e)
    chk.require(not bad, "C09-X3", op.where(oi), "no file-system write is reachable from open_image outside create_cache",
                f"the read/fallback path writes: {bad[:3]}", key="open_image:fallback-writes")
    chk.attempt(open_after_torn, chk, repo)
    chk.count("functions", len(reach))
