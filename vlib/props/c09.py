"""C09 -- a torn cache never poisons later opens"""
from __future__ import annotations

import ast

from .. import effects
from ..callgraph import guards_of
from ..core import AnalysisError, norm, short
from ..dataflow import Flow, calls_in
from ..openpath import CACHE_DECODE, CREATE_CACHE, OPEN_IMAGE, READ_CACHE, OpenPath, chains_to, exception_fate, json_loads_sites

LEVEL = "other"


def open_after_torn(chk, repo):
    """C09-X5: a torn cache sends a default open down the parse path and nowhere else: no write, no second pass (vlib/openmodel.py)"""
    from .open_rules import open_rules
    open_rules(chk, repo, "C09-X5", ('lookup', 'hit', 'write', 'parse'), "open_image with a torn cache (read_cache raises CachingError with a cause): the image is parsed once and nothing is written unless create_cache is set")


def x1(chk, op):
    """C09-X1 (exception flow): the JSONDecodeError of a torn index ends in open_image's fallback on every call chain"""
    sites = json_loads_sites(op)
    if not sites:
        raise AnalysisError("anchor vanished: json.loads on the cache read path")
    oi = op.fi(OPEN_IMAGE)
    for fi, call in sites:
        chains = chains_to(op, OPEN_IMAGE, fi, call)
        if not chains:
            raise AnalysisError(f"no call chain from open_image to {fi.key}")
        for chain in chains:
            fate = exception_fate(op, chain, "json.JSONDecodeError")
            desc = " <- ".join(f.qualname for f, _ in chain)
            if fate[0] == "handled":
                _, hfi, handler, cls = fate
                in_open_image = hfi.key == OPEN_IMAGE
                if not in_open_image and hfi.key in {f_.key for f_, _ in chain}:
                    # caught in a helper on the way up: what open_image does with what that helper returns is decided by evaluating
                    # open_image with a torn cache (C09-X5)
                    raise AnalysisError(f"{op.where(fi)}: JSONDecodeError on chain {desc} is caught in {hfi.qualname}, not in open_image itself; whether the open then parses the image is decided by evaluation (C09-X5)")
                chk.require(in_open_image, "C09-X1", op.where(fi),
                            f"JSONDecodeError on chain {desc} ends in open_image's handler `except {norm(handler.type) if handler.type else ''}` (parse fallback)",
                            f"JSONDecodeError on chain {desc} is swallowed in {hfi.qualname}, which then returns a wrong/None result instead of the parse fallback",
                            key=f"{fi.key}:json.loads:fate", sample={"chain": desc, "handled_in": hfi.qualname})
            else:
                cls = fate[1]
                cname = cls if isinstance(cls, str) else f"{cls[1].name}.{cls[2].name}"
                chk.fail("C09-X1", op.where(fi),
                         f"a torn/empty index makes {short(call, 50)} raise json.JSONDecodeError; on chain {desc} no handler catches it "
                         f"(it leaves open_image as {cname}): default open_alos2 fails until the cache file is deleted",
                         key=f"{fi.key}:json.loads:fate")



def run(chk, repo):
    op = OpenPath(repo)
    chk.explanation = (
        "The index is one JSON object emitted by json.dumps with no trailing text and ASCII only (checked under "
        "C09-X0), so every proper prefix - every crash point of the write - is invalid JSON and the reader sees "
        "either the complete document or json.JSONDecodeError. The check then follows that exception class up every "
        "call chain open_image -> ... -> json.loads through the enclosing try statements (with the class hierarchy) "
        "and requires that it ends in the parse fallback. Repair: create_cache writes unconditionally. Does NOT "
        "decide OS-level atomicity or concurrent-writer timing."
    )
    chk.trusted = ["a proper prefix of a JSON object text is not valid JSON; json.loads raises json.JSONDecodeError (a ValueError) on it",
                   "exception class hierarchy table in vlib/callgraph.py"]
    chk.rule("C09-X0", "the index is a single json.dumps object, ASCII only, nothing appended", 2)
    chk.rule("C09-X1", "JSONDecodeError from a torn index is caught on every chain from open_image and ends in the parse fallback", 1)
    chk.rule("C09-X2", "create_cache (re)writes unconditionally after ensuring the directory exists", 2)
    chk.rule("C09-X3", "the fallback path never modifies the cache file", 1)

    # X0
    cach = repo.module("ceos_alos2.sar_image.caching")
    enc = cach.func("encode")
    dumps = [c for c in calls_in(enc) if norm(c.func) == "json.dumps"]
    ok = len(dumps) == 1 and not any(k.arg == "ensure_ascii" for k in dumps[0].keywords)
    chk.require(ok, "C09-X0", f"{cach.relpath}:encode", "one json.dumps call with the default ensure_ascii",
                "encode does not produce a single ASCII json.dumps document", key="encode:single-dumps")
    cc = op.fi(CREATE_CACHE)
    writes = [e for e in effects.scan(repo, cc) if e.kind == "fs_write" and ("write_text" in e.detail or "write_bytes" in e.detail or "open" in e.detail)]
    if not writes:
        raise AnalysisError("anchor vanished: cache write in create_cache")
    flow = Flow(cc)
    for w in writes:
        arg = flow.expand(w.node.args[0]) if w.node.args else None
        plain = arg is not None and isinstance(arg, ast.Call) and norm(arg.func).endswith("encode") and not isinstance(arg, ast.BinOp)
        chk.require(plain, "C09-X0", op.where(cc), "the file content is exactly encode(data)",
                    f"the file content is {short(arg, 80) if arg is not None else None}, not the bare encode(data) document", key="create_cache:content")

    chk.attempt(open_after_torn, chk, repo)
    chk.attempt(x1, chk, op, covered_by="open_after_torn", rules=("C09-X1",))
    sites = json_loads_sites(op)
    oi = op.fi(OPEN_IMAGE)
    # X4: an empty or cut index text must not trip anything before json.loads sees it
    chk.rule("C09-X4", "the raw index text is not indexed (text[0], text[-1], ...) outside the error translation: an empty file raises IndexError there", 1)
    n_txt = 0
    for fi, call in sites:
        flow = Flow(fi)
        text_names = set()
        if call.args:
            for x in ast.walk(call.args[0]):
                if isinstance(x, ast.Name):
                    text_names.add(x.id)
        text_names = {t for t in text_names if t in fi.params or t in fi.local_bindings()}
        n_txt += 1
        subs = [n for n in fi.own_nodes() if isinstance(n, ast.Subscript) and isinstance(n.ctx, ast.Load) and isinstance(n.value, ast.Name) and n.value.id in text_names and not isinstance(n.slice, ast.Slice)]
        bad_subs = []
        for sub in subs:
            for chain in chains_to(op, OPEN_IMAGE, fi, sub) or [[(fi, sub)]]:
                fate = exception_fate(op, chain, "IndexError")
                if not (fate[0] == "handled" and fate[1].key == OPEN_IMAGE):
                    bad_subs.append(short(sub, 30))
        chk.require(not bad_subs, "C09-X4", op.where(fi), f"the index text `{', '.join(sorted(text_names))}` is handed to json.loads without being indexed outside the error translation",
                    f"`{bad_subs[0] if bad_subs else ''}` indexes the raw index text: for a 0-byte file (crash right after the file was created / truncated) it raises IndexError, which is not the "
                    f"CachingError open_image falls back on - every later default open fails until the file is deleted", key=f"{fi.key}:text-indexed")

    # X2
    guards = []
    for w in writes:
        for test, pol in guards_of(w.node, cc.node):
            guards.append(norm(test))
    exist_guard = [g for g in guards if any(x in g for x in ("exists", "is_file", "isfile", " in mapper"))]
    chk.require(not exist_guard, "C09-X2", op.where(cc), "the cache write is not control-dependent on an existence test (a torn file is overwritten)",
                f"the cache write is skipped when {exist_guard}: a torn cache file is never repaired", key="create_cache:unconditional")
    # ... and neither is the call of create_cache on the open path
    for ckey in op.g.callers(CREATE_CACHE):
        if ckey not in op.reach:
            continue
        cfi = op.g.funcs[ckey]
        for site in op.g.sites[(ckey, CREATE_CACHE)]:
            gtxt = [norm(Flow(cfi).expand(t)) for t, pol in guards_of(site, cfi.node)]
            bad_g = [g for g in gtxt if any(x in g for x in ("exists(", "is_file(", "isfile(", " in mapper", "local_cache_location", "remote_cache_location"))]
            chk.require(not bad_g, "C09-X2", op.where(cfi), f"{short(site, 50)} is not skipped when a cache file already exists",
                        f"create_cache is skipped when {bad_g}: an existing but torn cache file is never overwritten, so create_cache=True does not repair it", key=f"{cfi.key}:create-if-missing")
    mk = [e for e in effects.scan(repo, cc) if e.kind == "fs_write" and "mkdir" in e.detail]
    ok_mk = False
    for e in mk:
        kw = {k.arg: getattr(k.value, "value", None) for k in e.node.keywords}
        ok_mk = kw.get("parents") is True and kw.get("exist_ok") is True and e.node.lineno < min(w.node.lineno for w in writes)
    chk.require(ok_mk, "C09-X2", op.where(cc), "mkdir(parents=True, exist_ok=True) precedes the write",
                "the cache directory is not created (parents, exist_ok) before the write", key="create_cache:mkdir")

    # X3: no fs write reachable from open_image except through create_cache
    reach = op.g.reachable([OPEN_IMAGE], stop={CREATE_CACHE})
    bad = []
    for k in sorted(reach):
        for e in effects.scan(repo, op.g.funcs[k]):
            if e.kind == "fs_write":
                bad.append(e)
    chk.require(not bad, "C09-X3", op.where(oi), "no file-system write is reachable from open_image outside create_cache",
                f"the read/fallback path writes: {bad[:3]}", key="open_image:fallback-writes")
    chk.attempt(lookup_model, chk, repo)
    chk.attempt(other_places, chk, repo)
    chk.attempt(decode_prefixes, chk, repo)
    chk.count("functions", len(reach))


CACHING_ERROR_CLASSES = ["CachingError", "FileNotFoundError", "OSError", "Exception", "BaseException", "object"]


def lookup_model(chk, repo):
    """C09-X6: caching.read_cache evaluated with recording stubs in every state of the two cache places (the user cache dir, where
    create_cache writes; next to the image, where the CLI writes): absent / complete / torn.  A complete index in the user cache dir
    is always what is returned (that is what a repairing create_cache leaves behind), whatever lies next to the image; a complete
    index next to the image is returned when the user cache dir has none; no cache at all, or only torn ones, is a CachingError."""
    from collections import OrderedDict
    from ..shapes import Const, Fn, Interp, NonTermination, Obj, ShapeError, _Raise
    cach = repo.module("ceos_alos2.sar_image.caching")
    where = f"{cach.relpath}:read_cache"
    chk.rule("C09-X6", "read_cache in every state of the two cache places: a complete index in the user cache dir is returned (a repaired cache is used), only torn / no caches raise CachingError", 9)
    states = ("absent", "complete", "torn")
    for local in states:
        for remote in states:
            I = Interp(repo)
            sc = I.module_scope(cach)
            hit = {"local": Obj("Group", OrderedDict(src=Const("local"))), "remote": Obj("Group", OrderedDict(src=Const("remote")))}
            texts = {"local": Obj("Text", OrderedDict(of=Const("local"), state=Const(local))), "remote": Obj("Text", OrderedDict(of=Const("remote"), state=Const(remote)))}

            def decode(I_, a, kw):
                t = a[0] if a else kw.get("cache")
                if not (isinstance(t, Obj) and t.cls == "Text"):
                    raise ShapeError(f"decode is given {t!r:.40}")
                if t.fields["state"].v == "torn":
                    raise _Raise("raise CachingError('invalid or incomplete cache file')", CACHING_ERROR_CLASSES)
                return hit[t.fields["of"].v]
            sc.vars["decode"] = Fn("py", impl=decode, name="decode")
            lp = Obj("Path", OrderedDict(is_file=Fn("py", impl=lambda I_, a, k: Const(local != "absent"), name="is_file"), exists=Fn("py", impl=lambda I_, a, k: Const(local != "absent"), name="exists")))

            def read_text(I_, a, kw):
                if local == "absent":
                    raise _Raise("FileNotFoundError: no such file", ["FileNotFoundError", "OSError", "Exception", "BaseException", "object"])
                return texts["local"]
            lp.fields["read_text"] = Fn("py", impl=read_text, name="read_text")
            lp.fields["read_bytes"] = Fn("py", impl=lambda I_, a, k: Obj("Bytes", OrderedDict(decode=Fn("py", impl=lambda I2, a2, k2: read_text(I2, a2, k2), name="decode"))), name="read_bytes")
            sc.vars["local_cache_location"] = Fn("py", impl=lambda I_, a, k: lp, name="local_cache_location")
            sc.vars["remote_cache_location"] = Fn("py", impl=lambda I_, a, k: Const("IMG-X.index"), name="remote_cache_location")
            rb = Obj("Bytes", OrderedDict(decode=Fn("py", impl=lambda I_, a, k: texts["remote"], name="decode")))

            def m_getitem(I_, a, kw):
                if remote == "absent" or not (isinstance(a[0], Const) and a[0].v == "IMG-X.index"):
                    raise _Raise("KeyError 'IMG-X.index'", ["KeyError", "LookupError", "Exception", "BaseException", "object"])
                return rb
            mapper = Obj("Mapper", OrderedDict(root=Const("memory://product"), __getitem__=Fn("py", impl=m_getitem, name="__getitem__"),
                                               __contains__=Fn("py", impl=lambda I_, a, k: Const(remote != "absent" and isinstance(a[0], Const) and a[0].v == "IMG-X.index"), name="__contains__")))
            mapper.fields["get"] = Fn("py", impl=lambda I_, a, k: (rb if remote != "absent" else (a[1] if len(a) > 1 else Const(None))), name="get")
            try:
                out = I.call(I.lookup("read_cache", sc), [mapper, Const("IMG-X"), Const(7)], {})
                outcome = "local" if out is hit["local"] else "remote" if out is hit["remote"] else f"returns {out!r:.40}"
            except _Raise as e:
                outcome = "CachingError" if e.classes and "CachingError" in e.classes else f"raises {e.what[:60]}"
            except (ShapeError, NonTermination, RecursionError) as e:
                raise AnalysisError(f"{where}: cannot be evaluated with user cache dir {local} / next to the image {remote}: {str(e)[:120]}")
            sit = f"index in the user cache dir {local}, next to the image {remote}"
            if local == "complete":
                ok, want = outcome in (("local",) if remote != "complete" else ("local", "remote")), "the complete index of the user cache dir is returned"
            elif local == "absent" and remote == "complete":
                ok, want = outcome == "remote", "the index next to the image is returned"
            elif local == "torn" and remote == "complete":
                ok, want = outcome in ("remote", "CachingError"), "the index next to the image, or CachingError (fall back to the parse)"
            else:
                ok, want = outcome == "CachingError", "CachingError (fall back to the parse)"
            chk.require(ok, "C09-X6", where, f"{sit}: {want}",
                        f"{sit}: read_cache gives {outcome}, expected: {want}" + (" - the index a repairing create_cache has just written is never used, every later open parses the image again" if local == "complete" else ""),
                        key=f"read_cache:{local}:{remote}")


def other_places(chk, repo):
    """C09-X6 (continued): whatever further key of the product's mapper read_cache asks for - an index under another name, a compressed
    one - may hold what an interrupted writer left: a prefix of the document, or a compressed stream that ends early (the standard
    library folds the decompression of the model bytes and raises what it raises).  With no complete index anywhere the outcome is
    still CachingError"""
    import bz2
    import gzip
    import lzma
    from collections import OrderedDict
    from ..shapes import Const, Fn, Interp, NonTermination, Obj, ShapeError, _Raise
    cach = repo.module("ceos_alos2.sar_image.caching")
    where = f"{cach.relpath}:read_cache"
    doc = b'{"__type__": "group", "url": "memory://product", "data": {"time": {"__type__": "variable", "dims": ["rows"], "data": [1, 2, 3], "attrs": {}}}, "path": "HH", "attrs": {}}' * 4
    I = Interp(repo)
    sc = I.module_scope(cach)
    asked = []

    def decode(I_, a, kw):
        t = a[0] if a else kw.get("cache")
        if isinstance(t, Obj) and t.cls == "Text":
            raise _Raise("raise CachingError('invalid or incomplete cache file')", CACHING_ERROR_CLASSES)
        if isinstance(t, Const) and isinstance(t.v, (str, bytes)):
            raise _Raise("raise CachingError('invalid or incomplete cache file')", CACHING_ERROR_CLASSES)  # a cut document (C09-X7 decides decode itself)
        raise ShapeError(f"decode is given {t!r:.40}")
    sc.vars["decode"] = Fn("py", impl=decode, name="decode")
    lp = Obj("Path", OrderedDict(is_file=Fn("py", impl=lambda I_, a, k: Const(False), name="is_file"), exists=Fn("py", impl=lambda I_, a, k: Const(False), name="exists")))
    lp.fields["read_text"] = Fn("py", impl=lambda I_, a, k: (_ for _ in ()).throw(_Raise("FileNotFoundError: no such file", ["FileNotFoundError", "OSError", "Exception", "BaseException", "object"])), name="read_text")
    lp.fields["read_bytes"] = lp.fields["read_text"]
    sc.vars["local_cache_location"] = Fn("py", impl=lambda I_, a, k: lp, name="local_cache_location")

    def torn_of(key):
        if key.endswith((".gz", ".gzip")):
            return Const(gzip.compress(doc)[:-11])
        if key.endswith(".bz2"):
            return Const(bz2.compress(doc)[:-11])
        if key.endswith((".xz", ".lzma")):
            return Const(lzma.compress(doc)[:-11])
        return Const(doc[:-11])

    def has(k):
        return isinstance(k, Const) and isinstance(k.v, str) and k.v.startswith("IMG-X") and k.v not in ("IMG-X", "IMG-X.index")

    def m_getitem(I_, a, kw):
        if not has(a[0]):
            raise _Raise(f"KeyError {a[0]!r:.30}", ["KeyError", "LookupError", "Exception", "BaseException", "object"])
        asked.append(a[0].v)
        return torn_of(a[0].v)
    mapper = Obj("Mapper", OrderedDict(root=Const("memory://product"), __getitem__=Fn("py", impl=m_getitem, name="__getitem__"),
                                       __contains__=Fn("py", impl=lambda I_, a, k: Const(has(a[0])), name="__contains__")))
    mapper.fields["get"] = Fn("py", impl=lambda I_, a, k: (m_getitem(I_, a, k) if has(a[0]) else (a[1] if len(a) > 1 else Const(None))), name="get")
    try:
        out = I.call(I.lookup("read_cache", sc), [mapper, Const("IMG-X"), Const(7)], {})
        outcome = f"returns {out!r:.40}"
    except _Raise as e:
        outcome = "CachingError" if e.classes and "CachingError" in e.classes else f"raises {(e.classes or ['?'])[0]} ({e.what[:60]})"
    except (ShapeError, NonTermination, RecursionError) as e:
        raise AnalysisError(f"{where}: cannot be evaluated with interrupted writes under other names next to the image ({', '.join(asked) or 'none asked for'}): {str(e)[:120]}")
    chk.require(outcome == "CachingError", "C09-X6", where, "no complete index anywhere, interrupted writes under every other name read_cache asks for" + (f" ({', '.join(sorted(set(asked)))})" if asked else " (none)") + ": CachingError",
                f"no complete index anywhere, but what an interrupted writer left under {sorted(set(asked))}: read_cache {outcome} instead of raising CachingError - open_image does not fall back to the parse and every default open of the product fails",
                key="read_cache:other-places")


def decode_prefixes(chk, repo):
    """C09-X7: caching.decode evaluated on every kind of crash point of a written index - the empty file, prefixes cut inside a
    string / a number / after a separator - with json.loads folded by the standard library: each must raise CachingError; the complete
    document must not"""
    from collections import OrderedDict
    from ..shapes import Const, DictS, Fn, Interp, ListLit, Obj, ShapeError, _Raise
    import json
    cach = repo.module("ceos_alos2.sar_image.caching")
    where = f"{cach.relpath}:decode"
    doc = json.dumps({"__type__": "group", "url": "u", "path": "HH", "attrs": {"a": [1, 2.5, {"__type__": "tuple", "data": [1]}]}, "data": {}})
    cuts = sorted({0, 1, 2, 5, 12, 13, 14, 20, 27, len(doc) // 2, len(doc) - 3, len(doc) - 1})
    chk.rule("C09-X7", "decode on the empty file and on proper prefixes of an index raises - a torn index never decodes to a value (that the error ends in the parse fallback is C09-X1)", len(cuts))

    def to_shape(v):
        if isinstance(v, dict):
            return DictS(OrderedDict((k, to_shape(x)) for k, x in v.items()))
        if isinstance(v, list):
            return ListLit([to_shape(x) for x in v])
        return Const(v)
    for cut in cuts + [len(doc)]:
        I = Interp(repo)
        sc = I.module_scope(cach)

        def loads(I_, a, kw):
            t = a[0]
            if not (isinstance(t, Const) and isinstance(t.v, (str, bytes))):
                raise ShapeError(f"json.loads of {t!r:.40}")
            try:
                v = json.loads(t.v)
            except json.JSONDecodeError as e:
                raise _Raise(f"json.JSONDecodeError: {e}", ["JSONDecodeError", "ValueError", "Exception", "BaseException", "object"])
            hook = kw.get("object_hook")

            def build(x):
                if isinstance(x, dict):
                    d = DictS(OrderedDict((k, build(y)) for k, y in x.items()))
                    return I_.call(hook, [d], {}) if hook is not None else d
                if isinstance(x, list):
                    return ListLit([build(y) for y in x])
                return Const(x)
            return build(v)
        js = Obj("json", OrderedDict(loads=Fn("py", impl=loads, name="json.loads"), JSONDecodeError=Fn("lib", name="json.JSONDecodeError")))
        sc.vars["json"] = js
        marker = Obj("Group", OrderedDict())
        sc.vars["decode_hierarchy"] = Fn("py", impl=lambda I_, a, k: marker if isinstance(a[0], DictS) and a[0].items.get("__type__") is not None else a[0], name="decode_hierarchy")
        text = doc[:cut]
        try:
            out = I.call(I.lookup("decode", sc), [Const(text)], OrderedDict(records_per_chunk=Const(7)))
            outcome = "group" if out is marker else f"returns {out!r:.50}"
        except _Raise as e:
            outcome = "CachingError" if e.classes and "CachingError" in e.classes else f"raises {e.what[:70]}"
        except (ShapeError, RecursionError) as e:
            raise AnalysisError(f"{where}: cannot be evaluated on a prefix of {cut} characters: {str(e)[:120]}")
        if cut == len(doc):
            chk.require(outcome == "group", "C09-X7", where, "the complete document decodes", f"the complete document gives {outcome}", key="decode:complete")
        else:
            # which class is raised, and that open_image's fallback catches it on every call chain, is C09-X1's business (the handler
            # may sit in decode, in read_cache or in open_image); here: a torn index never *decodes*
            chk.require(outcome == "CachingError" or outcome.startswith("raises "), "C09-X7", where, f"an index cut after {cut} of {len(doc)} characters does not decode (raises)",
                        f"an index file cut after {cut} of {len(doc)} characters ({text[-12:]!r}) {outcome} instead of raising: a torn cache is taken for a cache", key=f"decode:prefix:{'empty' if cut == 0 else 'cut'}")
