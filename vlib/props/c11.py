"""C11 -- reads are bounded and grouped"""
from __future__ import annotations

import ast

from .. import effects
from ..callgraph import CallGraph
from ..core import AnalysisError, const_str, norm, parents, short
from ..dataflow import Flow, calls_in, loop_depth
from ..interproc import inline_call, resolve_callees, single_return
from ..symexpr import Canon, Undecidable, show

LEVEL = "other"

ARRAY = "ceos_alos2.array"
GETITEM = "ceos_alos2.array:Array.__getitem__"
WRAPPER_GETITEM = "ceos_alos2.xarray:LazilyIndexedWrapper.__getitem__"


def open_once(chk, repo):
    """C11-I10: one metadata pass per open (vlib/openmodel.py)"""
    from .open_rules import open_rules
    open_rules(chk, repo, "C11-I10", ('parse', 'hit', 'write-fault'), "open_image opens the image and runs the metadata pass once per open (never on a cache hit, never twice - not even when the cache write fails)")


def run(chk, repo):
    g = CallGraph(repo)
    chk.explanation = (
        "Decides the shape of the I/O: one open per load at loop depth 0, one seek+read per task at loop depth 1, "
        "tasks in 1:1 correspondence with the chunk groups, every read carries a size, the metadata pass reads the "
        "descriptor then one sized read per chunk in order with no seek, and nothing reachable from a load touches "
        "another file. Does NOT decide the numeric value of the byte spans nor the request-count formula (arithmetic)."
    )
    chk.trusted = ["effect vocabulary in vlib/effects.py", "toolz.groupby returns one dict entry per distinct key"]
    chk.rule("C11-I1", "Array.__getitem__ opens the file exactly once, read-only, as a context manager, outside any loop (informational)", 0)
    chk.rule("C11-I2", "the only read in a load is read_chunk(f, **chunk_info), once per task; tasks are 1:1 with the touched chunks", 3)
    chk.rule("C11-I3", "read_chunk is seek(offset) then read(size) on its own parameters; to_offset_size produces exactly those keys", 1)
    chk.rule("C11-I4", "every read on the open/load paths carries a size argument", 1)
    chk.rule("C11-I5", "read_metadata: descriptor read, then one read(chunksize*record_size) per chunk in order, no seek", 3)
    chk.rule("C11-I6", "nothing reachable from a pixel load performs other I/O", 1)
    chk.attempt(open_once, chk, repo)
    chk.attempt(load_requests, chk, repo)
    from .load_rules import wrapper_requests
    chk.attempt(wrapper_requests, chk, repo, "C11-I11")
    chk.attempt(i123, chk, repo, g, covered_by="load_requests", rules=("C11-I2", "C11-I3"))
    chk.attempt(i4, chk, repo, g)
    # I5 / I8
    chk.attempt(trace_requests, chk, repo)
    chk.attempt(i5, chk, repo, covered_by="trace_requests", rules=("C11-I5",))
    chk.attempt(i6, chk, repo, g)


def load_requests(chk, repo):
    """C11-I9: request trace of a pixel load on model images: at most one request per touched group of records_per_chunk lines,
    each inside that group's byte span and the file, the image file only"""
    from .load_rules import load_rules
    load_rules(chk, repo, "C11-I9", ("requests", "confined", "one-file"),
               "model loads: one request per touched chunk, confined to the chunk's byte span and the file; no other file is opened", thorough=chk.tier == "thorough")


def i123(chk, repo, g):
    mod = repo.module(ARRAY)
    gi = mod.func("Array.__getitem__")
    where = f"{mod.relpath}:Array.__getitem__"
    effs = effects.scan(repo, gi)
    opens = [e for e in effs if e.kind in ("fs_open", "fs_write") and "open" in e.detail]
    ok1 = len(opens) == 1
    detail = ""
    if ok1:
        o = opens[0]
        mode_ok = o.detail == "open mode='rb'"
        in_with = isinstance(getattr(o.node, "_parent", None), ast.withitem)
        depth = loop_depth(o.node, gi.node)
        ok1 = mode_ok and in_with and depth == 0
        detail = f"{short(o.node, 50)} mode_ok={mode_ok} context_manager={in_with} loop_depth={depth}"
    # informational: the property constrains reads, not opens (keeping the handle / reopening per chunk is C19's and nobody's business here)
    if ok1:
        chk.ok("C11-I1", where, "one fs.open(url, mode='rb') as a context manager at loop depth 0", sample={"open": detail})
    else:
        chk.note(f"C11-I1 (informational): {len(opens)} open call(s) in Array.__getitem__; {detail}")
    # I2
    reads = []
    for c in calls_in(gi):
        for cal in resolve_callees(repo, gi, c.func):
            if cal.key == f"{ARRAY}:read_chunk":
                reads.append(c)
    direct = [e for e in effs if e.kind == "fs_read"]
    if len(reads) != 1 or direct:
        # reads moved into a helper / generator, or written inline: what is requested is decided by the request trace (C11-I9)
        raise AnalysisError(f"{where}: {len(reads)} read_chunk call sites and {len(direct)} direct reads in __getitem__ itself: not the recognised form; not decided by the form rule")
    chk.ok("C11-I2", where, "exactly one read site: read_chunk(...)")
    if reads:
        rc = reads[0]
        from ..dataflow import enclosing_iterations
        its = enclosing_iterations(rc, gi.node)
        depth = len(its)
        star = [k for k in rc.keywords if k.arg is None]
        if depth == 0:
            raise AnalysisError(f"{where}: read_chunk is not inside a loop or comprehension; not decided by the form rule")
        chk.require(depth == 1, "C11-I2", where, "read_chunk is called at loop depth 1 (once per task)",
                    f"read_chunk is called at loop depth {depth}: one request per row instead of one per chunk", key="getitem:read-depth")
        # the loop iterates over tasks; tasks 1:1 with groupby keys
        if not its or its[0][0] is None:
            raise AnalysisError(f"{where}: the iteration around read_chunk is not recognised; not decided by the form rule")
        else:
            ok, why = one_to_one_with_groupby(repo, gi, its[0][0])
            chk.require(ok, "C11-I2", where, f"the loop iterates over tasks that are 1:1 with the groupby-by-chunk keys ({why})",
                        f"the tasks are not 1:1 with the touched chunks: {why}", key="getitem:tasks-1to1", sample={"chain": why})
    # I3
    rcf = mod.func("read_chunk")
    reff = effects.scan(repo, rcf)
    seq = [(e.detail, norm(e.node.args[0]) if e.node.args else None, norm(e.node.func.value)) for e in sorted(reff, key=lambda e: (e.node.lineno, e.node.col_offset))]
    params = rcf.positional_params
    ok3 = len(seq) == 2 and seq[0][0] == ".seek()" and seq[1][0] == ".read()" and seq[0][2] == params[0] == seq[1][2] \
        and seq[0][1] in params[1:] and seq[1][1] in params[1:] and seq[0][1] != seq[1][1] and not any(isinstance(n, (ast.For, ast.While)) for n in rcf.own_nodes())
    chk.require(ok3, "C11-I3", f"{mod.relpath}:read_chunk", f"read_chunk = f.seek({seq[0][1] if seq else '?'}); return f.read({seq[1][1] if len(seq) > 1 else '?'})",
                f"read_chunk performs {seq}", key="read_chunk:shape", sample={"effects": seq})
    if ok3:
        ret = [n for n in rcf.own_nodes() if isinstance(n, ast.Return)]
        chk.require(len(ret) == 1 and norm(ret[0].value) == norm(sorted(reff, key=lambda e: e.node.lineno)[1].node), "C11-I3", f"{mod.relpath}:read_chunk",
                    "read_chunk returns the bytes it read", "read_chunk does not return the result of its read", key="read_chunk:returns")
        tos = mod.func("to_offset_size")
        keys = set()
        for n in ast.walk(tos.node):
            if isinstance(n, ast.Dict) and n.keys and all(const_str(k) is not None for k in n.keys) and not isinstance(getattr(n, "_parent", None), ast.Dict):
                keys = {const_str(k) for k in n.keys}
        # the comprehension value dict
        for n in ast.walk(tos.node):
            if isinstance(n, ast.DictComp) and isinstance(n.value, ast.Dict):
                keys = {const_str(k) for k in n.value.keys}
        if not keys:
            # built some other way (dict(offset=..), a loop): whether read_chunk can be called with it is decided by the model loads (C11-I9)
            raise AnalysisError(f"{mod.relpath}:to_offset_size: the chunk info is not a dict literal; its keys are decided by evaluating a load")
        chk.require(keys == set(params[1:]), "C11-I3", f"{mod.relpath}:to_offset_size", f"chunk info keys {sorted(keys)} == read_chunk parameters {params[1:]}",
                    f"to_offset_size produces keys {sorted(keys)} but read_chunk(f, **chunk_info) expects {params[1:]}", key="to_offset_size:keys")


def i4(chk, repo, g):
    # I4: reads with size on open/load paths
    entry_reach = g.reachable(["ceos_alos2.xarray:open_alos2", GETITEM, repo.func(WRAPPER_GETITEM).key])
    n_reads = 0
    for k in sorted(entry_reach):
        fi = g.funcs[k]
        for e in effects.scan(repo, fi):
            if e.kind == "fs_read" and e.detail == ".read()":
                n_reads += 1
                sized = bool(e.node.args) and not (isinstance(e.node.args[0], ast.Constant) and e.node.args[0].value in (None, -1))
                chk.require(sized, "C11-I4", f"{fi.module.relpath}:{fi.qualname}", f"{short(e.node, 50)} is bounded by a size argument",
                            f"{short(e.node, 50)} has no size: it reads to the end of the file", key=f"{fi.key}:unbounded-read")


def i6(chk, repo, g):
    # I6
    load_reach = g.reachable([repo.func(WRAPPER_GETITEM).key])
    allowed = {GETITEM: {"fs_open"}, f"{ARRAY}:read_chunk": {"fs_read"}}
    bad = []
    for k in sorted(load_reach):
        for e in effects.scan(repo, g.funcs[k]):
            if e.kind in ("lock", "global_decl"):
                continue
            if e.kind == "fs_open" and e.node.args and norm(e.node.args[0]) in ("self.url", "url"):
                continue  # the image file itself, opened in a helper
            if e.kind not in allowed.get(k, set()):
                bad.append(repr(e))
    chk.require(not bad, "C11-I6", "load path", f"{len(load_reach)} functions reachable from a pixel load: no I/O besides the open and read_chunk",
                f"additional I/O during a pixel load: {bad[:3]}", key="load:extra-io")
    chk.count("functions", len(load_reach))


def trace_requests(chk, repo):
    """C11-I8: request trace of the metadata pass on model files: 720-byte descriptor, then the line records front to back
    in at most ceil(lines / records_per_chunk) requests, none larger than records_per_chunk records, none beyond the file"""
    from .trace_rules import intact_rules
    intact_rules(chk, repo, "C11-I8", ("descriptor", "sequential", "count", "size", "bounds"),
                 "metadata pass on model files: descriptor first, then sequential requests, at most ceil(lines/records_per_chunk), each at most records_per_chunk records, none beyond the file",
                 thorough=chk.tier == "thorough")


def one_to_one_with_groupby(repo, fi, expr, depth=0):
    """is expr a chain of 1:1 comprehensions / 1:1 repo functions over the items of a groupby dict?"""
    if depth > 10:
        return False, "too deep"
    flow = Flow(fi)
    if isinstance(expr, ast.Name):
        d = flow.reaching_def(expr.id, expr) if hasattr(expr, "lineno") and getattr(expr, "_parent", None) is not None else flow.single_def(expr.id)
        if d is None:
            return False, f"{expr.id} has no unique definition"
        ok, why = one_to_one_with_groupby(repo, fi, d, depth + 1)
        return ok, f"{expr.id} <- {why}"
    if isinstance(expr, (ast.ListComp, ast.GeneratorExp, ast.DictComp)):
        if len(expr.generators) != 1 or expr.generators[0].ifs:
            return False, f"comprehension with filter/nested loops: {short(expr, 60)}"
        ok, why = one_to_one_with_groupby(repo, fi, expr.generators[0].iter, depth + 1)
        return ok, f"comp over {why}"
    if isinstance(expr, ast.Call):
        f = expr.func
        if isinstance(f, ast.Attribute) and f.attr in ("items", "values", "keys") and not expr.args:
            return one_to_one_with_groupby(repo, fi, f.value, depth + 1)
        if isinstance(f, ast.Name) and f.id in ("list", "tuple", "enumerate", "sorted", "iter", "reversed") and len(expr.args) >= 1:
            return one_to_one_with_groupby(repo, fi, expr.args[0], depth + 1)
        r = repo.resolve_expr(fi, f) if isinstance(f, (ast.Name, ast.Attribute)) else None
        if r is not None and r.kind == "external" and r.fq.split(".")[-1] == "groupby":
            return True, "groupby(...)"
        cs = resolve_callees(repo, fi, f)
        if len(cs) == 1 and cs[0].func is not None:
            callee = cs[0].func
            ret = single_return(callee)
            # helpers with a specification: however they are written, agreement with the specification says what they map
            SPEC_ROLE = {"groupby_chunks": None, "merge_chunk_info": "selected"}  # None: produces one key per touched chunk
            if callee.qualname in SPEC_ROLE and callee.module.name == ARRAY:
                from .c01 import decide_on_representatives
                try:
                    res = decide_on_representatives(repo, callee, callee.qualname)
                except AnalysisError:
                    res = None
                if res is not None and res[0]:
                    role = SPEC_ROLE[callee.qualname]
                    if role is None:
                        return True, f"{callee.qualname} (== specification: one key per touched chunk)"
                    from ..interproc import bind_args
                    bound, _ = bind_args(cs[0], expr)
                    if role in bound or callee.positional_params and callee.positional_params[0] in bound:
                        arg = bound.get(role, bound.get(callee.positional_params[0]))
                        ok2, why2 = one_to_one_with_groupby(repo, fi, arg, depth + 1)
                        return ok2, f"{callee.qualname}(== specification; {why2})"
                elif res is not None:
                    return False, f"{callee.qualname} differs from its specification: {res[1]}"
            if ret is None:
                verdict, why, pname = loop_built_one_to_one(callee)
                if verdict is None:
                    raise AnalysisError(f"{callee.module.relpath}:{callee.qualname}: {why}; whether it keeps one task per touched chunk is not decided")
                if verdict is False:
                    return False, f"{callee.qualname}: {why}"
                from ..interproc import bind_args
                bound, _ = bind_args(cs[0], expr)
                if pname in bound:
                    ok2, why2 = one_to_one_with_groupby(repo, fi, bound[pname], depth + 1)
                    return ok2, f"{callee.qualname}({pname}: {why2})"
                raise AnalysisError(f"{callee.qualname}: cannot bind {pname}")
            # which parameter carries the collection? follow the returned expression inside the callee
            ok, why = one_to_one_with_groupby(repo, callee, ret, depth + 1)
            if ok:
                return True, f"{callee.qualname}[{why}]"
            # the callee maps one of its parameters 1:1 -> continue with the matching argument
            pname = _mapped_param(repo, callee, ret)
            if pname is not None:
                from ..interproc import bind_args
                bound, _ = bind_args(cs[0], expr)
                if pname in bound:
                    ok2, why2 = one_to_one_with_groupby(repo, fi, bound[pname], depth + 1)
                    return ok2, f"{callee.qualname}({pname}: {why2})"
            return False, f"{callee.qualname}: {why}"
    return False, f"unrecognised: {short(expr, 60)}"


def loop_built_one_to_one(callee):
    """a function that builds its result list in a loop over one parameter:
    -> (True, why, param) if every iteration appends exactly one entry and nothing else touches the list,
       (False, why, param) if an iteration can skip the append, append twice, or overwrite/merge an earlier entry,
       (None, why, None) if the shape is not recognised"""
    body = [st for st in callee.node.body if not (isinstance(st, ast.Expr) and isinstance(st.value, ast.Constant))]
    rets = [n for n in callee.own_nodes() if isinstance(n, ast.Return)]
    if len(rets) != 1 or not isinstance(rets[0].value, ast.Name):
        return None, "does not return a single list variable", None
    out = rets[0].value.id
    init = [st for st in body if isinstance(st, ast.Assign) and isinstance(st.targets[0], ast.Name) and st.targets[0].id == out]
    loops = [st for st in body if isinstance(st, ast.For)]
    if len(init) != 1 or not isinstance(init[0].value, ast.List) or init[0].value.elts or len(loops) != 1:
        return None, "result list is not built as `out = []` followed by one for-loop", None
    loop = loops[0]
    it = loop.iter
    while isinstance(it, ast.Call) and isinstance(it.func, ast.Name) and it.func.id in ("enumerate", "list", "sorted", "iter") and it.args:
        it = it.args[0]
    if isinstance(it, ast.Call) and isinstance(it.func, ast.Attribute) and it.func.attr in ("items", "values"):
        it = it.func.value
    if not (isinstance(it, ast.Name) and it.id in callee.params):
        return None, f"the loop iterates {norm(loop.iter)}, not a parameter", None
    pname = it.id
    others = []
    for n in ast.walk(loop):
        if isinstance(n, ast.Subscript) and isinstance(n.ctx, (ast.Store, ast.Del)) and isinstance(n.value, ast.Name) and n.value.id == out:
            others.append(f"overwrites {norm(n)}")
        if isinstance(n, ast.Call) and isinstance(n.func, ast.Attribute) and isinstance(n.func.value, ast.Name) and n.func.value.id == out and n.func.attr in ("pop", "extend", "insert", "remove", "clear"):
            others.append(f"{out}.{n.func.attr}(...)")
    if others:
        return False, f"an iteration {others[0]} (entries of different chunk groups are merged or dropped)", pname

    def appends(stmts):
        """(min, max) number of appends executed by a statement list, None if a path leaves early"""
        lo = hi = 0
        for st in stmts:
            if isinstance(st, ast.Expr) and isinstance(st.value, ast.Call) and isinstance(st.value.func, ast.Attribute) and st.value.func.attr == "append" \
                    and isinstance(st.value.func.value, ast.Name) and st.value.func.value.id == out:
                lo += 1
                hi += 1
            elif isinstance(st, ast.If):
                a, b = appends(st.body), appends(st.orelse)
                lo += min(a[0], b[0])
                hi += max(a[1], b[1])
            elif isinstance(st, (ast.Continue, ast.Break, ast.Return)):
                return lo, hi
            elif isinstance(st, (ast.For, ast.While)):
                a = appends(st.body)
                hi += 2 * a[1]
        return lo, hi

    lo, hi = appends(loop.body)
    if lo == hi == 1:
        return True, "one append per iteration", pname
    return False, f"an iteration appends between {lo} and {hi} entries", pname


def _mapped_param(repo, callee, ret, depth=0):
    """parameter whose items the returned expression maps 1:1"""
    flow = Flow(callee)
    e = flow.expand(ret)
    while True:
        if isinstance(e, (ast.ListComp, ast.GeneratorExp, ast.DictComp)) and len(e.generators) == 1 and not e.generators[0].ifs:
            e = e.generators[0].iter
            continue
        if isinstance(e, ast.Call) and isinstance(e.func, ast.Attribute) and e.func.attr in ("items", "values", "keys"):
            e = e.func.value
            continue
        if isinstance(e, ast.Call) and isinstance(e.func, ast.Name) and e.func.id in ("list", "tuple", "enumerate") and e.args:
            e = e.args[0]
            continue
        break
    if isinstance(e, ast.Name) and e.id in callee.params:
        return e.id
    return None


def i5(chk, repo):
    mod = repo.module("ceos_alos2.sar_image.io")
    rm = mod.func("read_metadata")
    where = f"{mod.relpath}:read_metadata"
    # the request size of the metadata pass is the caller's records_per_chunk (a cap means more requests than ceil(lines / rpc))
    opt = "records_per_chunk"
    if opt in rm.params:
        for kind, val in rm.local_bindings().get(opt, []):
            if kind == "assign" and isinstance(val, ast.Call) and isinstance(val.func, ast.Name) and val.func.id == "min" and any(isinstance(x, ast.Name) and x.id == opt for a in val.args for x in ast.walk(a)):
                chk.fail("C11-I5", where, f"`{opt} = {short(val, 60)}` caps the request size of the metadata pass: opening needs more than ceil(lines / records_per_chunk) requests when the option exceeds the cap",
                         key="read_metadata:rpc-capped")
            elif kind in ("assign", "aug"):
                raise AnalysisError(f"{where}: {opt} is rebound ({short(val, 60) if isinstance(val, ast.AST) else kind}); effect on the number of requests not decided")
    effs = sorted(effects.scan(repo, rm), key=lambda e: (e.node.lineno, e.node.col_offset))
    seeks = [e for e in effs if e.detail == ".seek()"]
    rfd = mod.func("read_file_descriptor")
    for e in effects.scan(repo, rfd):
        if e.detail == ".seek()":
            seeks.append(e)
    chk.require(not seeks, "C11-I5", where, "the metadata pass never seeks (front to back)", f"metadata pass seeks: {seeks}", key="read_metadata:seek")
    reads = [e for e in effs if e.detail == ".read()"]
    # descriptor read first
    first_call = None
    for c in sorted(calls_in(rm), key=lambda n: (n.lineno, n.col_offset)):
        for cal in resolve_callees(repo, rm, c.func):
            if cal.key.endswith(":read_file_descriptor"):
                first_call = c
    ok_first = first_call is not None and (not reads or (first_call.lineno, first_call.col_offset) < (reads[0].node.lineno, reads[0].node.col_offset))
    chk.require(ok_first, "C11-I5", where, "the file descriptor is read first", "the file descriptor is not read before the line records", key="read_metadata:descriptor-first")
    if len(reads) != 1:
        raise AnalysisError(f"{where}: {len(reads)} read sites in the body of read_metadata (reads moved into a helper that is not a plain function): the request pattern is not one of the recognised forms")
    r = reads[0].node
    from ..dataflow import enclosing_iterations
    from ..readloop import ReadLoop
    from ..symexpr import poly_of
    its = enclosing_iterations(r, rm.node)
    if len(its) != 1:
        if not its:
            raise AnalysisError(f"{where}: the chunk read is not inside a loop or comprehension over the chunks: request pattern not recognised")
        chk.fail("C11-I5", where, f"the chunk read {short(r, 40)} is repeated by {len(its)} nested loops: more requests than one per chunk", key="read_metadata:chunk-reads")
        return
    rl = ReadLoop(repo, rm, r)
    size = rl.term(r.args[0]) if r.args else None
    if size is None:
        return  # unsized read: reported by C11-I4
    # size = <records of this chunk> * <record length>
    R = [a for mono, c in poly_of(size).items() for a in mono if a[0] == "sub" and a[2] == ("const", "str", "sar_data_record_length")]
    whole = bool(R) and all(R[0] in mono for mono, c in poly_of(size).items())
    if not whole:
        raise AnalysisError(f"{where}: the request size {show(size)[:120]} is not <records> * <record length>; request pattern not decided")
    it, tgt = its[0]
    detail = f"read({show(size)[:80]}) once per iteration of {short(it, 50) if it is not None else 'the while loop'}"
    if it is None:
        # while loop: the number of requests follows the recurrence decided by C01-R8 / C06 (received < n, k = min(rpc, n - received))
        from .c01 import request_recurrence
        request_recurrence(_Quiet(chk, "C11-I5"), repo, rm)
        chk.ok("C11-I5", where, f"one sized read per iteration of the request recurrence: {detail}", sample={"detail": detail})
        return
    # the iterable has one entry per chunk, in order: a list/range over the chunk index, not filtered, not re-ordered
    src = it
    seen = 0
    while seen < 6:
        seen += 1
        if isinstance(src, ast.Name):
            d = rl.flow.reaching_def(src.id, src)
            if d is None:
                break
            src = d
            continue
        if isinstance(src, ast.Call) and norm(src.func) in ("zip",) and src.args:
            src = src.args[0]
            continue
        if isinstance(src, ast.Call) and norm(src.func) in ("list", "tuple", "iter", "enumerate") and src.args:
            src = src.args[0]
            continue
        break
    ok = False
    if isinstance(src, (ast.ListComp, ast.GeneratorExp)) and len(src.generators) == 1 and not src.generators[0].ifs and "range" in norm(src.generators[0].iter):
        ok = True
        detail += f"; the chunk list has one entry per chunk index in order ({short(src.generators[0].iter, 40)})"
    elif isinstance(src, ast.Call) and norm(src.func) == "range":
        ok = True
        detail += f"; iterates {short(src, 40)}"
    elif isinstance(src, ast.Call) and norm(src.func) in ("sorted", "reversed", "set", "filter"):
        detail += f"; the chunk list is re-ordered or filtered by {short(src, 40)}"
    else:
        raise AnalysisError(f"{where}: the reads iterate over {short(src, 60)}: not a list over the chunk index; request pattern not decided")
    chk.require(ok, "C11-I5", where, f"one sized read per chunk in file order: {detail}",
                f"metadata pass does not read one chunksize*record_size block per chunk in order: {detail}", key="read_metadata:chunk-reads",
                sample={"detail": detail})


class _Quiet:
    """forwards obligations of a shared rule under another rule id"""

    def __init__(self, chk, rid):
        self.chk, self.rid = chk, rid

    def ok(self, rid, *a, **k):
        return self.chk.ok(self.rid, *a, **k)

    def fail(self, rid, *a, **k):
        return self.chk.fail(self.rid, *a, **k)

    def require(self, cond, rid, *a, **k):
        return self.chk.require(cond, self.rid, *a, **k)
