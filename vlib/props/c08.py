"""C08 -- cache codec exactness (writer/reader agreement of the JSON index)"""
from __future__ import annotations

from ..cachecodec import check_codec

LEVEL = "other"


def codec_roundtrip(chk, repo):
    """C08-K8: caching.decode(caching.encode(g)) evaluated on model hierarchies (vlib/codecmodel.py)"""
    from .codec_rules import codec_rules
    codec_rules(chk, repo, "C08-K8", ("total", "roundtrip"), "decode(encode(g)) evaluated by the checker's interpreter on model hierarchies built by the package's own constructors, with a model of JSON and a symbolic "
                "array algebra: paths, urls, names in order, dims, attributes at every depth (tuple stays tuple), array values and dtypes, the pixel array's file, ranges, shape and type code come back as they were")


def run(chk, repo):
    chk.explanation = (
        "Decides the structural half of the round trip: the encoder and decoder of the index are sibling "
        "implementations of one document format, so their type tags, key sets, dtype-kind dispatch, tuple tagging "
        "and json wiring must agree, datetimes must travel as int64 ticks with their unit and reference, and list "
        "data must be coerced before the ndarray API is used. Does NOT decide bit-exactness of NumPy/JSON value "
        "conversions (NaT references, 0-d datetimes, float repr): value level."
    )
    chk.trusted = ["json.dumps/json.loads round-trip int/float/str/bool/None/list/dict exactly (ensure_ascii default)",
                   "numpy str(datetime64) prints the full stored resolution"]
    chk.attempt(codec_roundtrip, chk, repo)
    from .codec_rules import missing_stamps
    chk.attempt(missing_stamps, chk, repo, "C08-K9")
    chk.attempt(check_codec, chk, repo, "C08", covered_by="codec_roundtrip", rules=tuple(f"C08-K{i}" for i in range(1, 8)))
    chk.count("functions", 14)
