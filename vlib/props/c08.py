"""C08 -- cache codec exactness (writer/reader agreement of the JSON index)"""
from __future__ import annotations

from ..cachecodec import check_codec

LEVEL = "other"


def run(chk, repo):
    chk.explanation = (
        "Decides the structural half of the round trip: the encoder and decoder of the index are sibling "
        "implementations of one document format, so their type tags, key sets, dtype-kind dispatch, tuple tagging "
        "and json wiring must agree, datetimes must travel as int64 ticks with their unit and reference, and list "
        "data must be coerced before the ndarray API is used. Does NOT decide bit-exactness of NumPy/JSON value "
        "conversions (NaT references, 0-d datetimes, float repr): value level."
    )
    chk.trusted = ["json.dumps/json.loads round-trip int/float/str/bool/None/list/dict exactly (ensure_ascii default)",
                   "numpy str(datetime64) prints the full stored resolution"]
    check_codec(chk, repo, "C08")
    chk.count("functions", 14)
