"""rules decided on the model evaluation of sar_image.open_image (vlib/openmodel.py), shared by C01, C06, C07, C09, C10, C11, C13, C18"""
from __future__ import annotations

from ..core import AnalysisError
from ..openmodel import judge, run_open_image

_CACHE = {}
WHERE = "ceos_alos2/sar_image/__init__.py:open_image"


def runs(repo):
    key = id(repo)
    if key not in _CACHE:
        out = []
        for U in (True, False):
            for C in (True, False):
                for cache in ("hit", "miss", "torn"):
                    for rpc in (7, None, 1024):
                        for fails in ((False, True) if C else (False,)):
                            out.append(((U, C, cache, rpc, fails), run_open_image(repo, U, C, cache, rpc, fails)))
        _CACHE[key] = out
    return _CACHE[key]


def open_rules(chk, repo, rule, keys, text):
    rs = runs(repo)
    chk.rule(rule, text, len(rs) // 2)
    undecided, failed, n_ok = [], {}, 0
    for (U, C, cache, rpc, fails), R in rs:
        if R.outcome.startswith("undecided") or R.outcome.startswith("nonterminating"):
            undecided.append(((U, C, cache, rpc), R.outcome))
            continue
        for k, ok, good, bad in judge(R, U, C, cache, rpc, fails):
            if k not in keys:
                continue
            if ok:
                n_ok += 1
            else:
                failed.setdefault(k, []).append(bad)
    for k, msgs in failed.items():
        chk.fail(rule, WHERE, msgs[0] + (f" (and {len(msgs) - 1} more situations)" if len(msgs) > 1 else ""), key=f"open_image:{k}")
    if undecided and not failed:
        raise AnalysisError(f"{WHERE}: cannot be evaluated with recording collaborators in {len(undecided)} of {len(rs)} situations (e.g. use_cache/create_cache/cache/rpc = {undecided[0][0]}: {undecided[0][1][:140]})")
    if not failed:
        chk.ok(rule, WHERE, f"{len(rs)} situations (use_cache x create_cache x cache hit / miss / torn x records_per_chunk x cache write fails): {', '.join(keys)} hold",
               sample={"situations": len(rs), "obligations": list(keys), "discharged": n_ok})
        for _ in range(len(rs) - 1):
            chk.ok(rule, WHERE, "situation")
