"""rules decided on the request trace of the metadata pass (vlib/tracemodel.py), shared by C01, C06, C11 and C18"""
from __future__ import annotations

from ..core import AnalysisError
from ..tracemodel import DESCRIPTOR, judge_intact, run_read_metadata

_CACHE = {}

QUICK_N = (1, 2, 3, 4, 5, 7, 8, 9, 10, 12, 16, 17)
QUICK_RPC = (1, 2, 3, 4, 5, 7, 8, 9, 16, 17, 32, 1024, 10**15)
LARGE = ((3, 50_000_000, 2), (3, 50_000_000, 3), (5000, 64, 10**6), (4500, 64, 4400))  # (n, record length, rpc): requests of 100+ MB, thousands of records per request
WHERE = "ceos_alos2/sar_image/io.py:read_metadata"


def traces(repo, thorough=False):
    key = (id(repo), thorough)
    if key in _CACHE:
        return _CACHE[key]
    L = 32
    ns = tuple(range(1, 41)) if thorough else QUICK_N
    rpcs = tuple(range(1, 46)) + (64, 1024, 10**9, 10**15) if thorough else QUICK_RPC
    intact = {}
    for n in ns:
        for rpc in rpcs:
            intact[(n, L, rpc)] = run_read_metadata(repo, n, L, rpc)
    for n, L2, rpc in LARGE:
        intact[(n, L2, rpc)] = run_read_metadata(repo, n, L2, rpc)
    cut = {}
    shapes = ((5, 32, (1, 2, 3, 5, 8)),) if not thorough else ((5, 32, (1, 2, 3, 5, 8)), (7, 24, (1, 2, 3, 4, 7, 9)), (3, 48, (1, 2, 3, 4)))
    for n, L2, rr in shapes:
        for rpc in rr:
            for c in list(range(0, DESCRIPTOR, 97)) + [DESCRIPTOR - 1] + list(range(DESCRIPTOR, DESCRIPTOR + n * L2)):
                cut[(n, L2, rpc, c)] = run_read_metadata(repo, n, L2, rpc, total=c)
    _CACHE[key] = (intact, cut)
    return _CACHE[key]


def intact_rules(chk, repo, rule, keys, text, thorough=False):
    """obligations ``keys`` (of tracemodel.judge_intact) on every intact model file of the grid"""
    intact, _ = traces(repo, thorough)
    chk.rule(rule, text, len(intact) // 2)
    undecided = []
    failed = {}
    n_ok = 0
    for (n, L, rpc), tr in intact.items():
        if tr.outcome.startswith("undecided"):
            undecided.append((n, rpc, tr.outcome))
            continue
        if tr.outcome != "returned":
            failed.setdefault("outcome", []).append(f"{n} lines of {L} bytes at records_per_chunk={rpc}: the metadata pass does not return on an intact file ({tr.outcome[:140]})")
            continue
        for k, ok, good, bad in judge_intact(tr, n, L, rpc):
            if k not in keys:
                continue
            if ok:
                n_ok += 1
            else:
                failed.setdefault(k, []).append(f"{n} lines of {L} bytes at records_per_chunk={rpc}: {bad}")
    for k, msgs in failed.items():
        chk.fail(rule, WHERE, f"{msgs[0]}" + (f" (and {len(msgs) - 1} more model files)" if len(msgs) > 1 else ""), key=f"trace:{k}")
    if undecided and not failed:
        n, rpc, why = undecided[0]
        raise AnalysisError(f"{WHERE}: the model evaluation of the metadata pass is not possible for {len(undecided)} of {len(intact)} model files (e.g. {n} lines, records_per_chunk={rpc}: {why[:160]})")
    if not failed:
        chk.ok(rule, WHERE, f"{len(intact)} model files ({'thorough' if thorough else 'quick'} grid of line counts x records_per_chunk, incl. values far above the line count, 50 MB records, 5000 lines): "
                            f"{', '.join(keys)} hold on every request trace", sample={"model files": len(intact), "obligations": list(keys), "discharged": n_ok})
        for _ in range(len(intact) - 1):
            chk.ok(rule, WHERE, "model file")
    if undecided and failed:
        chk.note(f"{rule}: {len(undecided)} model files could not be evaluated ({undecided[0][2][:100]})")


def truncation_rules(chk, repo, rule, rows_tie_holds, thorough=False):
    """every cut of the model image file: the pass must end (raise) - or hand back fewer records than the header declares,
    which the shared `rows` dimension rejects (rows_tie_holds) - and must terminate"""
    _, cut = traces(repo, thorough)
    chk.rule(rule, "every truncation of a model image file makes the metadata pass raise (or return fewer line records than the header declares, which the `rows` dimension rejects); it always terminates", len(cut) // 2)
    bad, undecided, fewer = [], [], 0
    for (n, L, rpc, c), tr in cut.items():
        o = tr.outcome
        if o.startswith("undecided"):
            undecided.append((n, L, rpc, c, o))
        elif o.startswith("nonterminating"):
            bad.append(f"file of {n} lines x {L} bytes cut to {c} bytes, records_per_chunk={rpc}: the metadata pass never ends ({o[16:140]})")
        elif o == "returned":
            if len(tr.records) >= n:
                bad.append(f"file of {n} lines x {L} bytes cut to {c} bytes (of {DESCRIPTOR + n * L}), records_per_chunk={rpc}: the pass returns all {len(tr.records)} line records - bytes that are not in the file were accepted")
            elif getattr(tr, "header_returned", None) is not None and tr.header_returned != getattr(tr, "header_as_parsed", None):
                diff = sorted(k for k in set(tr.header_returned) | set(tr.header_as_parsed) if tr.header_returned.get(k) != tr.header_as_parsed.get(k)) if isinstance(tr.header_returned, dict) else ["?"]
                bad.append(f"file of {n} lines x {L} bytes cut to {c} bytes (of {DESCRIPTOR + n * L}), records_per_chunk={rpc}: {len(tr.records)} of {n} line records are returned together with a header that no longer says what the file "
                           f"declares (changed: {diff[:3]}): the declared shape follows the records that arrived, so a truncated image yields a tree instead of an error")
            elif rows_tie_holds is None:
                undecided.append((n, L, rpc, c, "undecided: fewer records than declared are returned and whether the `rows` dimension ties them to the declared shape (C18-E3) could not be decided"))
            elif not rows_tie_holds:
                bad.append(f"file cut to {c} bytes: {len(tr.records)} of {n} records returned and nothing ties the number of records to the declared shape")
            else:
                fewer += 1
    if bad:
        chk.fail(rule, WHERE, bad[0] + (f" (and {len(bad) - 1} more cut points)" if len(bad) > 1 else ""), key="trace:truncation")
    if undecided and not bad:
        raise AnalysisError(f"{WHERE}: truncated model files cannot be evaluated ({len(undecided)} of {len(cut)}; e.g. cut at {undecided[0][3]}: {undecided[0][4][:160]})")
    if not bad:
        chk.ok(rule, WHERE, f"{len(cut)} cut points (every byte position inside the line records, samples inside the descriptor) x records_per_chunk: the pass raises; "
                            f"{fewer} cuts on a record boundary inside a request return fewer records than declared and are rejected by the `rows` dimension",
               sample={"cut points": len(cut), "fewer-records cases": fewer})
        for _ in range(len(cut) - 1):
            chk.ok(rule, WHERE, "cut point")
