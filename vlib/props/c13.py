"""C13 -- tree assembly"""
from __future__ import annotations

import ast

from ..core import AnalysisError, const_str, norm, short
from ..dataflow import Flow, calls_in
from ..interproc import resolve_callees
from ..records import Layouts, struct_field_names

LEVEL = "other"


def open_wiring(chk, repo):
    """C13-A11: one path for parse, pixel array and group name (vlib/openmodel.py)"""
    from .open_rules import open_rules
    open_rules(chk, repo, "C13-A11", ('array', 'group', 'open-args'), "open_image: the file that is parsed, the file the pixel array points at and the file the group is named after are the same; the group of the parsed records is what is returned")


def run(chk, repo):
    chk.explanation = (
        "Wiring rules over def-use chains: file roles are taken from the summary positionally (first, second, *middle, "
        "last) and returned under matching keys; io.open feeds each role to its opener in summary order without "
        "filtering; the root has exactly the children summary/metadata/imagery fed from the matching values; image "
        "groups are keyed by their own name; root attrs are the volume attrs plus the reference link; one `path` names "
        "the parsed file, the Array url and the group name; group names use polarisation and scan number; every leader "
        "record is either ignored or transformed; coordinates are recorded before the pixel variable is added and "
        "promoted afterwards. Does NOT decide uniqueness of names for arbitrary file names nor DataTree's own behaviour."
    )
    chk.trusted = ["xarray.DataTree.from_dict builds one node per mapping key"]
    for rid, text, m in (
        ("C13-A1", "categorize_filenames: first, second, *middle, last -> volume_directory, sar_leader, sar_imagery, sar_trailer", 2),
        ("C13-A2", "io.open feeds each file role to the matching opener, all images, in order", 4),
        ("C13-A3", "root children are exactly summary / metadata / imagery from the matching values", 1),
        ("C13-A4", "imagery is keyed by group.name over all image groups", 1),
        ("C13-A5", "root attrs = volume directory attrs | reference document", 1),
        ("C13-A6", "one `path` names the parsed file, the Array url and the group name", 3),
        ("C13-A7", "group name joins polarisation and scan number", 2),
        ("C13-A8", "leader records: transformers + ignored == fields of sar_leader_record", 2),
        ("C13-A9", "coordinates recorded before data is added; popped and promoted; tree maps '/' and every subtree entry", 5),
    ):
        chk.rule(rid, text, m)
    chk.attempt(a1_eval, chk, repo)
    chk.attempt(a1_product_info, chk, repo)
    chk.attempt(a1, chk, repo, covered_by="a1_eval", rules=("C13-A1",))
    chk.attempt(a2_a5, chk, repo)
    chk.attempt(open_wiring, chk, repo)
    chk.attempt(a6_a7, chk, repo)
    chk.attempt(groupname_injective, chk, repo, "C13-A7")
    from ..openpath import OpenPath
    from .c07 import naming
    chk.rule("C07-N", "each image group is cached under its own file name (<image file name>.index), so no group is served another file's cache", 3)
    chk.attempt(naming, chk, OpenPath(repo))
    from .c07 import serialised_last
    chk.attempt(serialised_last, chk, OpenPath(repo), "C07-G6")
    from .c10 import w2_defaults
    chk.rule("C10-W2", "the tree of one open holds only this product's groups: no mutable default on the open path is filled across calls", 0)
    chk.attempt(w2_defaults, chk, OpenPath(repo))
    chk.attempt(a8, chk, repo)
    chk.rule("C13-A10", "to_datatree on a model hierarchy: one dataset per group under its own path, with the group's variables / attrs and its recorded coordinates", 5)
    chk.attempt(tree_conversion_eval, chk, repo)
    chk.attempt(a9, chk, repo, covered_by="tree_conversion_eval", rules=("C13-A9",))
    chk.count("functions", 12)


def a1_eval(chk, repo):
    """C13-A1 by evaluation: categorize_filenames on model file lists of 3..12 entries whose keywords are NOT in sorted order
    (ProductFileName10 before 02, as a dict keeps them in file order): first = volume directory, second = leader, last = trailer,
    everything in between = imagery, in file order"""
    from collections import OrderedDict
    from ..shapes import Const, DictS, Interp, ListLit, ShapeError, TupS, _Raise
    sm = repo.module("ceos_alos2.summary")
    where = f"{sm.relpath}:categorize_filenames"
    n_ok = 0
    for n in (3, 4, 5, 8, 12):
        keys = [f"L15ProductFileName{i:02d}" for i in range(1, n + 1)]
        if n > 4:
            keys[2], keys[-2] = keys[-2], keys[2]  # keyword order is not file order
        files = [f"FILE-{i}" for i in range(n)]
        I = Interp(repo)
        try:
            out = I.call(I.resolve_global(sm, "categorize_filenames"), [DictS(OrderedDict((k, Const(f)) for k, f in zip(keys, files)))], {})
        except _Raise as e:
            chk.fail("C13-A1", where, f"categorize_filenames raises on a list of {n} files ({e.what[:80]})", key=f"categorize:eval:{n}")
            continue
        except (ShapeError, RecursionError) as e:
            raise AnalysisError(f"{where}: cannot be evaluated on a model file list ({str(e)[:100]})")
        if not isinstance(out, DictS):
            raise AnalysisError(f"{where}: does not give a dict on a model file list ({out!r:.60})")

        def plain(v):
            if isinstance(v, Const):
                return v.v
            if isinstance(v, (ListLit, TupS)):
                return [plain(x) for x in v.elts]
            return repr(v)
        got = {k: plain(v) for k, v in out.items.items()}
        want = {"volume_directory": files[0], "sar_leader": files[1], "sar_imagery": files[2:-1], "sar_trailer": files[-1]}
        if chk.require(got == want, "C13-A1", where, f"{n} files: first = volume directory, second = leader, last = trailer, the {n - 3} in between = imagery in file order",
                       f"for the file list {files} (keywords {keys}) the roles are {got}, expected {want}", key=f"categorize:eval:{n}"):
            n_ok += 1


def a1_product_info(chk, repo):
    """C13-A1 through the summary reader: summary.transform_product_info evaluated on concrete sections that list 3..12 product files
    (with the count entry, keywords numbered 01..12, not in sorted order): data_files gives first = volume directory, second = leader,
    last = trailer, every file in between = imagery in file order - none dropped, whatever the number of digits of the running number"""
    from collections import OrderedDict
    from ..repeval import from_shape, Undecided
    from ..shapes import Const, DictS, Interp, ListLit, NonTermination, Obj, ShapeError, TupS, _Raise
    sm = repo.module("ceos_alos2.summary")
    where = f"{sm.relpath}:transform_product_info"
    for n in (3, 5, 9, 10, 12):
        names = [f"FILE-{i:02d}" for i in range(1, n + 1)]
        entries = [(f"L11ProductFileName{i:02d}", f) for i, f in enumerate(names, 1)]
        section = OrderedDict([("ProductFormat", "CEOS"), ("CntOfL11ProductFileName", str(n))] + entries + [("BitPixel", "32"), ("NoOfPixels_0", "20"), ("NoOfLines_0", "10"), ("ProductDataSize", "1.5")])
        I = Interp(repo)
        try:
            out = I.call(I.lookup("transform_product_info", I.module_scope(sm)), [DictS(OrderedDict((k, Const(v)) for k, v in section.items()))], {})
            data = out.fields["data"] if isinstance(out, Obj) else None
            files = data.items.get("data_files") if isinstance(data, DictS) else None
            got = from_shape(files.fields["attrs"]) if isinstance(files, Obj) else None
        except _Raise as e:
            chk.fail("C13-A1", where, f"a product information section listing {n} files raises ({e.what[:80]})", key=f"product-info:{'many' if n >= 10 else 'few'}-files")
            continue
        except (ShapeError, NonTermination, RecursionError, Undecided, KeyError, AttributeError) as e:
            raise AnalysisError(f"{where}: cannot be evaluated on a concrete section listing {n} files: {str(e)[:140]}")
        want = {"volume_directory": names[0], "sar_leader": names[1], "sar_imagery": names[2:-1], "sar_trailer": names[-1]}
        if isinstance(got, dict):
            got = {k: (list(v) if isinstance(v, (list, tuple)) else v) for k, v in got.items()}
        chk.require(got == want, "C13-A1", where, f"{n} listed files: roles by position, {n - 3} image(s) in file order",
                    f"a product information section listing {n} files (ProductFileName01..{n:02d}) gives the roles {str(got)[:200]}, expected {str(want)[:160]}: files are dropped or take another role",
                    key=f"product-info:{'many' if n >= 10 else 'few'}-files")


def a1(chk, repo):
    sm = repo.module("ceos_alos2.summary")
    cf = sm.func("categorize_filenames")
    where = f"{sm.relpath}:categorize_filenames"
    unpack = None
    for n in cf.own_nodes():
        if isinstance(n, ast.Assign) and isinstance(n.targets[0], ast.Tuple) and any(isinstance(e, ast.Starred) for e in n.targets[0].elts):
            unpack = n
    if unpack is None:
        raise AnalysisError(f"{where}: file roles are not taken by a starred unpacking `first, second, *middle, last = filenames`; not decided by the form rule")
    elts = unpack.targets[0].elts
    shape = [("*" if isinstance(e, ast.Starred) else "") for e in elts]
    names = [norm(e.value if isinstance(e, ast.Starred) else e) for e in elts]
    chk.require(shape == ["", "", "*", ""], "C13-A1", where, f"positional unpacking {names[0]}, {names[1]}, *{names[2]}, {names[3]}",
                f"positional unpacking is {[s + n for s, n in zip(shape, names)]}: roles shift (first = volume directory, second = leader, last = trailer)", key="categorize:positions")
    src = Flow(cf).expand(unpack.value)
    if "values()" not in norm(src):
        raise AnalysisError(f"{where}: file names come from {short(src, 50)}, not from <mapping>.values(); not decided by the form rule")
    chk.ok("C13-A1", where, "file names are the summary values in file order")
    ret = [n for n in cf.own_nodes() if isinstance(n, ast.Return)]
    want = dict(zip(["volume_directory", "sar_leader", "sar_imagery", "sar_trailer"], names))
    got = {}
    if ret and isinstance(ret[0].value, ast.Dict):
        got = {const_str(k): norm(v) for k, v in zip(ret[0].value.keys, ret[0].value.values)}
    chk.require(got == want, "C13-A1", where, f"roles returned 1:1: {want}", f"roles returned as {got}, expected {want}: leader/volume/trailer are swapped or dropped", key="categorize:mapping",
                sample={"mapping": got})


def summary_published_as_parsed(chk, repo):
    """C14-S10: what io.open publishes under summary/ is the group open_summary built - io.open does not edit it (same model as C13-A2)"""
    chk.rule("C14-S10", "io.open publishes the summary group as open_summary built it: no attribute or list of it is changed while the product is assembled", 5)
    a2_a5(chk, repo, rule_summary="C14-S10", summary_only=True)


def _plain(v, depth=0):
    from ..shapes import Const, DictS, ListLit, Obj, TupS
    if isinstance(v, Const):
        return ("c", repr(v.v))
    if isinstance(v, (ListLit, TupS)):
        return (type(v).__name__, tuple(_plain(x, depth + 1) for x in v.elts))
    if isinstance(v, DictS):
        return ("d", tuple((k, _plain(x, depth + 1)) for k, x in v.items.items()))
    if isinstance(v, Obj) and depth < 8:
        return (v.cls, tuple((k, _plain(x, depth + 1)) for k, x in v.fields.items()))
    return ("?", id(v))


def a2_a5(chk, repo, rule_summary="C13-A2", summary_only=False):
    """io.open evaluated by the shape interpreter on a model product: the four openers are replaced by recording stubs
    (summary with known file roles, volume directory / leader / image groups that carry marks), the options get
    distinctive values.  What is decided is which file goes to which opener, in which order, and where each result ends
    up in the returned tree - however io.open is written.  When the interpreter cannot follow the code (threads, ...)
    the def-use rules below take over."""
    from collections import OrderedDict
    from ..shapes import Choice, Const, DictS, Fn, Interp, ListLit, Obj, ShapeError, Top, TupS, _Raise
    io = repo.module("ceos_alos2.io")
    where = f"{io.relpath}:open"
    si = repo.module("ceos_alos2.sar_image")

    def G(path, data=None, attrs=None):
        return Obj("Group", OrderedDict(path=Const(path), url=Const("u"), data=data or DictS(), attrs=attrs or DictS()))

    SID = "ALOS2012345678-160229"
    img = lambda pol, pid, scan=None: f"IMG-{pol}-{SID}-{pid}" + (f"-{scan}" if scan else "")
    products = [[img("HH", "UBSR1.5RUD")], [img("HH", "UBSL1.1__D"), img("HV", "UBSL1.1__D")], [img(p_, "WBDR1.1__D", b_) for p_ in ("HH", "HV") for b_ in ("B1", "B2", "B3")],
                [img("VV", "HBQR1.1__A"), img("VH", "HBQR1.1__A")], [img("HH", "WBDR1.1__D", "B2"), img("HV", "WBDR1.1__D", "B2"), img("HH", "WBDR1.1__D", "B1"), img("HV", "WBDR1.1__D", "B1")]]  # the last two: not in lexicographic order in the summary
    results = []
    # each model product is opened in a process environment where no variable is set; the first two also where every variable the
    # package asks for is set to "1" (options the caller spells out are the caller's, whatever the environment says)
    for images, environ in [(p_, "unset") for p_ in products] + [(p_, "1") for p_ in products[:2]]:
        I = Interp(repo)
        I.environ = environ
        calls = []
        pid = images[0].split("-")[4]
        VOL, LED, TRL = f"VOL-{SID}-{pid}", f"LED-{SID}-{pid}", f"TRL-{SID}-{pid}"
        roles = DictS({"volume_directory": Const(VOL), "sar_leader": Const(LED), "sar_imagery": ListLit([Const(x) for x in images]), "sar_trailer": Const(TRL)})
        summary = G("summary", DictS({"product_information": G("product_information", DictS({"data_files": G("data_files", None, roles)}))}))
        marks = {"summary": summary, "volume": G("/", None, DictS(OrderedDict([("vol", Const("V")), ("blank_text", Const("")), ("zero", Const(0)), ("scene_id", Const("")), ("product_id", Const(""))]))), "leader": G("metadata", None, DictS({"led": Const("L")}))}

        def rec(name, ret):
            def impl(I_, args, kwargs):
                calls.append((name, args, kwargs))
                return ret(args, kwargs)
            return Fn("py", impl=impl, name=name)

        def image(args, kwargs):
            fname = args[1] if len(args) > 1 else kwargs.get("path")
            if not isinstance(fname, Const):
                raise ShapeError("open_image is not given a constant file name")
            parts = fname.v.split("-")
            gname = parts[1] + ("_scan" + parts[-1][1:] if len(parts) > 5 and parts[-1][:1] in ("B", "F") else "")
            return G("/" + gname, None, DictS({"src": fname}))
        sc = I.module_scope(io)
        mapper_args = []

        def get_mapper(I_, a, kw):
            mapper_args.append(a[0] if a else kw.get("url"))
            root = a[0].v if a and isinstance(a[0], Const) and isinstance(a[0].v, str) else "?"
            m = Obj("Mapper", OrderedDict(root=Const(root.split("://", 1)[-1]), fs=Obj("InnerFS", OrderedDict())))
            # the product's store as far as io.open itself may look into it: an index next to the LAST image only
            stored = {images[-1] + ".index": Const(b"index of " + images[-1].encode())}
            KE = ["KeyError", "LookupError", "Exception", "BaseException", "object"]

            def m_get(I2, a2, k2):
                k_ = a2[0].v if isinstance(a2[0], Const) else None
                if k_ not in stored:
                    raise _Raise(f"KeyError {k_!r}", KE)
                return stored[k_]

            def m_getitems(I2, a2, k2):
                keys = [x.v for x in I2.iterate(a2[0]) if isinstance(x, Const)]
                oe = k2.get("on_error", a2[1] if len(a2) > 1 else Const("raise"))
                oe = oe.v if isinstance(oe, Const) else None
                out_ = OrderedDict()
                for k_ in keys:
                    if k_ in stored:
                        out_[k_] = stored[k_]
                    elif oe == "raise":
                        raise _Raise(f"KeyError {k_!r}", KE)
                    elif oe == "return":
                        out_[k_] = Obj("Exception", OrderedDict(args=TupS([]), classes=Const(tuple(KE))))
                return DictS(out_)
            m.fields.update(__getitem__=Fn("py", impl=m_get, name="__getitem__"), getitems=Fn("py", impl=m_getitems, name="getitems"),
                            __contains__=Fn("py", impl=lambda I2, a2, k2: Const(isinstance(a2[0], Const) and a2[0].v in stored), name="__contains__"))
            return m
        sc.vars["fsspec"] = Obj("fsspec", OrderedDict(get_mapper=Fn("py", impl=get_mapper, name="fsspec.get_mapper")))
        sc.vars["open_summary"] = rec("open_summary", lambda a, k: marks["summary"])
        sc.vars["open_volume_directory"] = rec("open_volume_directory", lambda a, k: marks["volume"])
        sc.vars["open_sar_leader"] = rec("open_sar_leader", lambda a, k: marks["leader"])
        I.module_scope(si).vars["open_image"] = rec("open_image", image)
        sc.vars["sar_image"] = __import__("vlib.shapes", fromlist=["ModuleRef"]).ModuleRef(mod=si)
        before = _plain(summary)
        try:
            # product directories carry the scene and product id, which holds a dot ("1.5")
            PRODUCT = "s3://bucket/archive/ALOS2012345678-160229-UBSR1.5RUD"
            # the dual-polarisation product is opened with the cache in use (whatever io.open does itself with the store then)
            call_opts = {"records_per_chunk": 7, "create_cache": False, "use_cache": True} if len(images) == 2 and images[0].split("-")[1] == "HH" else {"records_per_chunk": 7, "create_cache": True, "use_cache": False}
            out = I.call(I.lookup("open", sc), [Const(PRODUCT)], {k_: Const(v_) for k_, v_ in call_opts.items()})
        except (ShapeError, _Raise, RecursionError) as e:
            if summary_only:
                raise AnalysisError(f"{where}: model evaluation not possible ({str(e)[:80]})")
            return a2_a5_syntactic(chk, repo, note=f"model evaluation not possible ({str(e)[:80]})")
        if not (isinstance(out, Obj) and out.cls == "Group" and isinstance(out.fields.get("data"), DictS) and isinstance(out.fields.get("attrs"), DictS)):
            if summary_only:
                raise AnalysisError(f"{where}: model evaluation does not give a definite tree")
            return a2_a5_syntactic(chk, repo, note="model evaluation does not give a definite tree")
        listed = [x.v if isinstance(x, Const) else None for x in roles.items["sar_imagery"].elts] if isinstance(roles.items.get("sar_imagery"), ListLit) else None
        if listed == images:
            after = _plain(summary)
            chk.require(after == before, rule_summary, where, "the summary group is published as open_summary built it",
                        "io.open changes the summary group it got from open_summary (an attribute, list or member is edited in place): what is published under summary/ is no longer what the summary file says",
                        key="open:summary-group-untouched")
        chk.require(listed == images, rule_summary, where, "the file list published under summary/product_information/data_files is left as the summary gives it",
                    f"after io.open the summary's own list of image files reads {listed}, the summary file lists {images}: opening re-orders / edits the published attribute in place",
                    key="open:summary-list-untouched")
        if not summary_only:
            got_paths = [x.v if isinstance(x, Const) else repr(x) for x in mapper_args]
            chk.require(got_paths == [PRODUCT], "C13-A2", where, "the product is opened at the location the caller names",
                        f"io.open({PRODUCT!r}) asks fsspec for {got_paths}: another directory than the one the caller named is opened", key="open:location")
        results.append((images, out, calls, marks, call_opts))
    if summary_only:
        return
    for images, out, calls, marks, call_opts in results:
        n = len(images)
        by = {}
        for name, args, kwargs in calls:
            by.setdefault(name, []).append((args, kwargs))

        def fname_of(c):
            a, k = c
            x = a[1] if len(a) > 1 else k.get("path")
            return x.v if isinstance(x, Const) else None
        by_vol, by_led = "VOL-" + images[0].split("-", 2)[2].rsplit("-B", 1)[0].rsplit("-F", 1)[0], "LED-" + images[0].split("-", 2)[2].rsplit("-B", 1)[0].rsplit("-F", 1)[0]
        sm = [fname_of(c) for c in by.get("open_summary", [])]
        chk.require(sm == ["summary.txt"], "C13-A2", where, "the summary is read from 'summary.txt' of the product", f"summary is read from {sm}", key="open:summary")
        for opener, role, want in (("open_volume_directory", "volume_directory", by_vol), ("open_sar_leader", "sar_leader", by_led)):
            got = [fname_of(c) for c in by.get(opener, [])]
            chk.require(got == [want], "C13-A2", where, f"{opener} reads the file listed as {role!r}",
                        f"{opener} is given {got} instead of the file listed as {role!r} ({want}): the records of another file are parsed as the {role}", key=f"open:{role}")
        got_imgs = [fname_of(c) for c in by.get("open_image", [])]
        chk.require(got_imgs == images, "C13-A2", where, f"every file listed as 'sar_imagery' is opened by open_image, in summary order ({n} image(s))",
                    f"open_image is called for {got_imgs}, the summary lists {images}: images are dropped, repeated or reordered", key="open:imagery-map", sample={"images": images})
        want_opts = dict(call_opts)
        for a, kw in by.get("open_image", []):
            extra = {k: v for k, v in kw.items() if k not in want_opts and k not in ("mapper", "path") and not (isinstance(v, Const) and v.v is None)}
            crossed = []
            for k_, v_ in extra.items():
                if isinstance(v_, DictS):
                    for key_, content in v_.items.items():
                        if isinstance(content, Const) and isinstance(content.v, bytes) and content.v.startswith(b"index of ") and content.v[len(b"index of "):].decode() != key_:
                            crossed.append((k_, key_, content.v[len(b"index of "):].decode()))
            if crossed:
                k_, key_, other = crossed[0]
                chk.fail("C13-A2", where, f"open_image is handed {k_}[{key_!r}] = the index file stored next to {other!r} (the model product has an index next to its last image only): "
                                          f"what was fetched for one image is paired with another image - that image's group is built from the other file's index", key="open:crossed-content")
                continue
            if extra or len(a) > 2:
                raise AnalysisError(f"{where}: open_image is handed something the model does not know the meaning of ({', '.join(f'{k}={v!r:.40}' for k, v in extra.items()) or 'more positional arguments'}); "
                                    f"what the image groups are built from is not decided")
        opts = [{k: v.v for k, v in kw.items() if isinstance(v, Const) and k in want_opts} for a, kw in by.get("open_image", [])]
        chk.require(all(o == want_opts for o in opts) and bool(opts), "C13-A2", where, "every image is opened with the caller's records_per_chunk / create_cache / use_cache",
                    f"open_image receives {opts[:2]} for the call options {want_opts}", key="open:options")
        data, attrs = out.fields["data"], out.fields["attrs"]
        kinds = {k: ("summary" if v is marks["summary"] else "leader" if v is marks["leader"] else "volume" if v is marks["volume"] else
                     "imagery" if isinstance(v, Obj) and isinstance(v.fields.get("path"), Const) and str(v.fields["path"].v).strip("/") == "imagery" else "?") for k, v in data.items.items()}
        want = {"summary": "summary", "metadata": "leader", "imagery": "imagery"}
        rpath = out.fields.get("path")
        chk.require(kinds == want and isinstance(rpath, Const) and rpath.v == "/" and not data.optional, "C13-A3", where,
                    "root '/' has exactly the children summary <- summary file, metadata <- SAR leader, imagery <- image groups",
                    f"root children are {kinds} at path {rpath!r}; expected {want} at '/'", key="open:children", sample={"children": kinds})
        img = data.items.get("imagery")
        idata = img.fields.get("data") if isinstance(img, Obj) else None
        if isinstance(idata, DictS):
            names = list(idata.items)
            srcs = [v.fields["attrs"].items["src"].v if isinstance(v, Obj) and isinstance(v.fields.get("attrs"), DictS) and "src" in v.fields["attrs"].items else None for v in idata.items.values()]
            own = [v.fields["path"].v.strip("/") if isinstance(v, Obj) and isinstance(v.fields.get("path"), Const) else None for v in idata.items.values()]
            chk.require(srcs == images and names == own and not idata.optional, "C13-A4", where, f"imagery = {{group.name: group}} for every image group, in order ({names})",
                        f"imagery holds {dict(zip(names, srcs))} for the images {images}: groups are dropped, reordered or keyed by something else than their own name", key="open:imagery-dict")
        else:
            raise AnalysisError(f"{where}: the imagery group's children do not evaluate to a mapping")
        a = {k: (v.v if isinstance(v, Const) else None) for k, v in attrs.items.items()}
        # the model volume directory has a blank text attribute and a zero: fields that are present stay present whatever their value
        ok = a.get("vol") == "V" and a.get("blank_text") == "" and a.get("zero") == 0 and a.get("scene_id") == "" and a.get("product_id") == "" and set(a) == {"vol", "blank_text", "zero", "scene_id", "product_id", "reference_document"} \
            and isinstance(a.get("reference_document"), str) and not attrs.optional
        chk.require(ok, "C13-A5", where, "root attrs = volume directory attrs | {'reference_document': ...}", f"root attrs are {a}: not the volume directory attributes plus the reference link", key="open:root-attrs")


def a2_a5_syntactic(chk, repo, note=None):
    if note:
        chk.note(f"C13-A2..A5: {note}; decided by the def-use rules instead")
    io = repo.module("ceos_alos2.io")
    op = io.func("open")
    where = f"{io.relpath}:open"
    flow = Flow(op)

    def role_of(expr):
        """'volume_directory' for <summary>['product_information']['data_files'].attrs['volume_directory'] (locals expanded)"""
        e = flow.expand(expr)
        if isinstance(e, ast.Subscript) and const_str(e.slice) is not None:
            base = norm(e.value).replace('"', "'")
            if base.endswith("['product_information']['data_files'].attrs") and "open_summary(" in base:
                return const_str(e.slice)
        return None

    def calls_of(name):
        out = []
        for c in calls_in(op):
            if any(x.key.endswith(":" + name) for x in resolve_callees(repo, op, c.func)):
                out.append(c)
        return out

    sm = calls_of("open_summary")
    ok = len(sm) >= 1 and all(len(c.args) == 2 and norm(c.args[0]) == "mapper" and const_str(c.args[1]) == "summary.txt" for c in sm)
    chk.require(ok, "C13-A2", where, "the summary is read from 'summary.txt' of the product", f"summary is read by {[short(c, 50) for c in sm]}", key="open:summary")
    for opener, role in (("open_volume_directory", "volume_directory"), ("open_sar_leader", "sar_leader")):
        cs = calls_of(opener)
        if len(cs) != 1 or len(cs[0].args) < 2:
            raise AnalysisError(f"{where}: expected one call {opener}(mapper, <file name>), found {len(cs)}")
        got = role_of(cs[0].args[1])
        if got is None:
            raise AnalysisError(f"{where}: the file handed to {opener} is {short(flow.expand(cs[0].args[1]), 80)}: role not decided")
        chk.require(got == role, "C13-A2", where, f"{opener} reads the file listed as {role!r}",
                    f"{opener} is given the file listed as {got!r} instead of {role!r}: the records of another file are parsed as the {role}", key=f"open:{role}")
    # image groups: every 'sar_imagery' entry, in order
    groups_expr = None
    root = [n for n in op.own_nodes() if isinstance(n, ast.Return)]
    imagery_ctor = None
    for c in calls_in(op):
        if any(x.cls is not None and x.cls.name == "Group" for x in resolve_callees(repo, op, c.func)):
            kw = {k.arg: k.value for k in c.keywords}
            p0 = c.args[0] if c.args else kw.get("path")
            if p0 is not None and (const_str(p0) or "").strip("/") == "imagery":
                imagery_ctor = c
    if imagery_ctor is None:
        raise AnalysisError(f"{where}: the /imagery group is not built by Group('/imagery', ...) any more")
    ikw = {k.arg: k.value for k in imagery_ctor.keywords}
    data = ikw.get("data")
    if not (isinstance(data, ast.DictComp) and len(data.generators) == 1):
        raise AnalysisError(f"{where}: imagery data is {short(data, 70) if data is not None else None}: not a dict comprehension over the image groups")
    g = data.generators[0]
    ok = not g.ifs and norm(data.key) == f"{norm(g.target)}.name" and norm(data.value) == norm(g.target)
    chk.require(ok, "C13-A4", where, "imagery = {group.name: group for every image group}",
                f"imagery data is {short(data, 70)}: groups are filtered or keyed by something else than their own name", key="open:imagery-dict")
    ig = g.iter
    alts = [ig]
    if isinstance(ig, ast.Name):
        alts = flow.reaching_defs(ig.id, ig) or [None]
        ig = alts[0] if len(alts) == 1 else ig
    # the source list of the map (every definition that may reach, when branches define it differently)
    verdict, why = True, ""
    for alt in alts:
        v1, w1 = ordered_map_over(repo, op, alt, None, "open_image", role_of=role_of)
        why = (why + "; " if why else "") + w1
        if v1 is False:
            verdict, why, ig = False, w1, alt
            break
        if v1 is None:
            verdict = None
    if verdict is None:
        raise AnalysisError(f"{where}: image groups are built by {short(ig, 80) if ig is not None else None}: {why}; order/completeness not decided")
    chk.require(verdict, "C13-A2", where, f"every file listed as 'sar_imagery' is opened by open_image, in summary order ({why})",
                f"image groups are {short(ig, 80) if ig is not None else None}: {why}", key="open:imagery-map", sample={"expr": short(ig, 80) if ig is not None else None})
    # root
    if len(root) != 1 or not isinstance(root[0].value, ast.Call):
        raise AnalysisError(f"{where}: does not return a single Group(...)")
    rk = {k.arg: k.value for k in root[0].value.keywords}
    rargs = root[0].value.args
    rpath = rk.get("path", rargs[0] if rargs else None)
    rdata = rk.get("data")
    if isinstance(rdata, ast.Name):
        rdata = flow.reaching_def(rdata.id, rdata)
    if not isinstance(rdata, ast.Dict):
        raise AnalysisError(f"{where}: root children are {short(rdata, 60) if rdata is not None else None}: not a dict display")
    kinds = {}
    for k, v in zip(rdata.keys, rdata.values):
        e = flow.expand(v)
        t = norm(e)
        kind = "summary" if t.startswith("open_summary(") else "leader" if t.startswith("open_sar_leader(") else "imagery" if (norm(v) == norm(imagery_ctor) or t.startswith("Group('/imagery'") or t.startswith('Group("/imagery"')) else f"?{t[:30]}"
        if isinstance(v, ast.Name):
            d = flow.reaching_def(v.id, v)
            if d is imagery_ctor:
                kind = "imagery"
        kinds[const_str(k)] = kind
    want = {"summary": "summary", "metadata": "leader", "imagery": "imagery"}
    chk.require(kinds == want and const_str(rpath) == "/", "C13-A3", where, "root '/' has exactly the children summary <- summary file, metadata <- SAR leader, imagery <- image groups",
                f"root children are {kinds} at path {const_str(rpath)!r}; expected {want} at '/'", key="open:children", sample={"children": kinds})
    attrs = rk.get("attrs")
    a = attrs
    if isinstance(a, ast.Name):
        a = flow.reaching_def(a.id, a)
    if a is not None and "volume_directory" not in norm(flow.expand(a)) and "open_volume_directory" not in norm(flow.expand(a)):
        chk.fail("C13-A5", where, f"root attrs are {short(a, 70)}: the volume directory attributes are not part of them", key="open:root-attrs")
        return
    if not (isinstance(a, ast.BinOp) and isinstance(a.op, ast.BitOr)):
        raise AnalysisError(f"{where}: root attrs are {short(a, 60) if a is not None else None}: not `<volume attrs> | <dict>`")
    left = norm(flow.expand(a.left))
    right = a.right
    if isinstance(right, ast.Name):
        right = flow.reaching_def(right.id, right)
    ok = left.startswith("open_volume_directory(") and left.endswith(".attrs") and isinstance(right, ast.Dict) and [const_str(k) for k in right.keys] == ["reference_document"]
    chk.require(ok, "C13-A5", where, "root attrs = volume directory attrs | {'reference_document': ...}",
                f"root attrs are {left[:60]} | {short(right, 40) if right is not None else None}", key="open:root-attrs")


def ordered_map_over(repo, fi, expr, source_txt, fname, depth=0, role_of=None):
    """is expr `f` applied to every element of the source list, in order?  -> (True|False|None, why)
    the source is either the literal text source_txt or (role_of given) the summary's 'sar_imagery' list"""
    from ..interproc import bind_args, single_return
    if expr is None or depth > 4:
        return None, "no definition"
    flow = Flow(fi)
    txt = norm(expr).replace('"', "'")

    def is_source(e):
        if role_of is not None:
            return role_of(e) == "sar_imagery"
        return norm(e).replace('"', "'") == source_txt

    def touches_source(e):
        if role_of is not None:
            return any(role_of(x) == "sar_imagery" for x in ast.walk(e) if isinstance(x, (ast.Subscript, ast.Name)))
        return source_txt in norm(e).replace('"', "'")
    source_txt = source_txt or "filenames['sar_imagery']"
    for n in ast.walk(flow.expand(expr, depth=3)):
        if isinstance(n, ast.Call) and norm(n.func).split(".")[-1] == "as_completed":
            return False, f"results are collected with as_completed ({short(expr, 60)}): groups appear in completion order, not in summary order"
    if isinstance(expr, ast.Call) and isinstance(expr.func, ast.Name) and expr.func.id in ("list", "tuple") and len(expr.args) == 1:
        return ordered_map_over(repo, fi, expr.args[0], source_txt, fname, depth + 1, role_of)
    if isinstance(expr, ast.Call) and isinstance(expr.func, ast.Name) and expr.func.id == "map" and len(expr.args) == 2:
        src = norm(expr.args[1]).replace('"', "'")
        if not is_source(expr.args[1]):
            if touches_source(expr.args[1]):
                return False, f"maps over {src}: images are dropped or reordered"
            return None, f"maps over {src}"
        return (fname in norm(flow.expand(expr.args[0], depth=2))), f"list(map({fname}, ...)) over the 'sar_imagery' list"
    if isinstance(expr, (ast.ListComp, ast.GeneratorExp)) and len(expr.generators) == 1:
        g = expr.generators[0]
        src = norm(g.iter).replace('"', "'")
        if g.ifs:
            return False, f"comprehension filters the image files ({norm(g.ifs[0])})"
        if not is_source(g.iter):
            return (False, f"iterates {src}: images are dropped or reordered") if touches_source(g.iter) else (None, f"iterates {src}")
        return (fname in norm(flow.expand(expr.elt, depth=2))), f"[{fname}(x) for x in the 'sar_imagery' list]"
    if isinstance(expr, ast.Call):
        cs = resolve_callees(repo, fi, expr.func)
        if len(cs) == 1 and cs[0].func is not None:
            callee = cs[0].func
            body_txt = " ".join(norm(st) for st in callee.node.body)
            if "as_completed" in body_txt:
                return False, f"{callee.qualname} collects results with as_completed: groups appear in completion order, not in summary order"
            if "set(" in body_txt or "sorted(" in body_txt:
                return None, f"{callee.qualname} re-orders"
            ret = single_return(callee)
            bound, _ = bind_args(cs[0], expr)
            srcs = [p for p, v in bound.items() if is_source(v)]
            fns = [p for p, v in bound.items() if fname in norm(flow.expand(v, depth=2))]
            if ret is not None and len(srcs) == 1 and len(fns) == 1:
                return ordered_map_over(repo, callee, ret, srcs[0], fns[0], depth + 1)
            return None, f"{callee.qualname} is not a single-return map"
    return None, f"unrecognised form {txt[:60]}"


def a6_a7(chk, repo):
    si = repo.module("ceos_alos2.sar_image")
    oi = si.func("open_image")
    where = f"{si.relpath}:open_image"
    path = oi.positional_params[1]
    opened = [c for c in calls_in(oi) if isinstance(c.func, ast.Attribute) and c.func.attr == "open" and norm(c.func.value) == "fs"]
    chk.require(len(opened) == 1 and norm(opened[0].args[0]) == path, "C13-A6", where, f"the parsed file is fs.open({path})", f"the parsed file is {short(opened[0], 40) if opened else None}", key="open_image:parsed-file")
    ctor = [c for c in calls_in(oi) if norm(c.func) == "Array"]
    url = {k.arg: norm(k.value) for k in ctor[0].keywords}.get("url") if ctor else None
    chk.require(url == path, "C13-A6", where, f"the Array reads url={path}", f"the Array reads url={url}: pixels come from another file than the line metadata", key="open_image:array-url")
    gp = None
    for n in oi.own_nodes():
        if isinstance(n, ast.Assign) and norm(n.targets[0]) == "group.path":
            gp = n.value
    ok = isinstance(gp, ast.Call) and norm(gp.func) == "filename_to_groupname" and len(gp.args) == 1 and norm(gp.args[0]) == path
    chk.require(ok, "C13-A6", where, f"group name = filename_to_groupname({path})", f"group.path = {short(gp, 60) if gp is not None else None}", key="open_image:group-name")
    # the cached path returns the group read for the same path


def groupname_injective(chk, repo, rule):
    """filename_to_groupname evaluated (constant folding in the checker's interpreter, through the decoders it calls) on
    image file names with every (polarisation, scan suffix) combination the file-name grammar admits: 4 x (none + B0-9 + F0-9);
    per processing method the names must be pairwise distinct and carry both components"""
    from ..shapes import Const, Interp, ShapeError, _Raise
    si = repo.module("ceos_alos2.sar_image")
    where = f"{si.relpath}:filename_to_groupname"
    names = {}
    I = Interp(repo)
    f = I.resolve_global(si, "filename_to_groupname")
    for pol in ("HH", "HV", "VH", "VV"):
        for scan in [None] + [m + str(d) for m in "BF" for d in range(10)]:
            fname = f"IMG-{pol}-ALOS2012345678-160229-WBDR1.1__D" + (f"-{scan}" if scan else "")
            try:
                out = I.call(f, [Const(fname)], {})
            except _Raise as e:
                chk.fail(rule, where, f"the valid image file name {fname!r} is rejected ({e.what[:70]}): the image cannot be opened", key=f"groupname:rejects:{'scan' if scan else 'plain'}")
                continue
            except ShapeError as e:
                raise AnalysisError(f"{where}: cannot evaluate the group name of {fname!r}: {e}")
            if not isinstance(out, Const) or not isinstance(out.v, str):
                raise AnalysisError(f"{where}: group name of {fname!r} is not a constant string: {out!r}")
            names[(pol, scan)] = out.v
    if not names:
        return
    dup = {}
    for method in "BF":
        clashes = {}
        for (pol, scan), v in names.items():
            if scan is None or scan[0] == method:
                clashes.setdefault(v, []).append((pol, scan))
        dup.update({v: ks for v, ks in clashes.items() if len(ks) > 1})
    ex = lambda k: names.get(k, "?")
    chk.require(not dup, rule, where, f"{len(names)} (polarisation, scan) combinations give pairwise distinct group names within a product (e.g. {ex(('HH', 'B3'))!r}, {ex(('HH', 'F3'))!r}, {ex(('HV', None))!r})",
                f"different images of one product get the same group name: {dict(list(dup.items())[:3])} - the later one silently replaces the earlier one under /imagery", key="groupname:injective",
                sample={"HH/B3": ex(("HH", "B3")), "HH/F0": ex(("HH", "F0")), "HH/-": ex(("HH", None))})
    fmt_ok = all(pol in v and (f"scan{scan[1]}" in v if scan is not None else "scan" not in v) for (pol, scan), v in names.items())
    chk.require(fmt_ok, rule, where, "names are <polarisation>[_scan<n>]", f"names do not follow <polarisation>[_scan<n>]: {dict(list(names.items())[:6])}", key="groupname:format")


def a8(chk, repo):
    L = Layouts(repo)
    con = L.con("leader")
    fields = [n for n in struct_field_names(con) if n]
    lm = repo.module("ceos_alos2.sar_leader.metadata")
    tm = lm.func("transform_metadata")
    ignored = transformers = None
    flow = Flow(tm)

    def literal(e, depth=0):
        """the list / tuple / dict literal an argument denotes: written in place, bound to a local, or hoisted to module level"""
        if isinstance(e, (ast.List, ast.Tuple, ast.Dict, ast.Set)) or depth > 4:
            return e
        if isinstance(e, ast.Name):
            d = flow.single_def(e.id)
            if d is not None:
                return literal(d, depth + 1)
            r = repo.resolve_name(tm, e.id)
            if r.kind == "value" and len(r.exprs) == 1:
                return literal(r.exprs[0], depth + 1)
        return e
    for c in calls_in(tm):
        callee = norm(c.func).split(".")[-1]
        args = list(c.args)
        if callee in ("curry", "partial") and args:
            callee, args = norm(args[0]).split(".")[-1], args[1:]
        if callee == "dissoc" and args:
            lit = literal(args[0])
            if isinstance(lit, (ast.List, ast.Tuple, ast.Set)) and all(const_str(e) is not None for e in lit.elts):
                ignored = [const_str(e) for e in lit.elts]
        if callee == "apply_to_items" and args:
            lit = literal(args[0])
            if isinstance(lit, ast.Dict) and all(k is not None and const_str(k) is not None for k in lit.keys):
                transformers = [const_str(k) for k in lit.keys]
    if ignored is None or transformers is None:
        raise AnalysisError("anchor vanished: the literal tables handed to dissoc / apply_to_items in sar_leader.metadata.transform_metadata")
    covered = set(ignored) | set(transformers)
    chk.require(covered == set(fields), "C13-A8", f"{lm.relpath}:transform_metadata", f"{len(transformers)} transformed + {len(ignored)} ignored == {len(fields)} leader records",
                f"uncovered records {sorted(set(fields) - covered)} (pass through untransformed as raw dicts) / dangling table keys {sorted(covered - set(fields))}", key="leader:coverage",
                sample={"transformed": transformers, "ignored": ignored})
    chk.require(not (set(ignored) & set(transformers)), "C13-A8", f"{lm.relpath}:transform_metadata", "no record is both ignored and transformed", f"both ignored and transformed: {sorted(set(ignored) & set(transformers))}", key="leader:overlap")


TO_DATATREE_SPEC = """
def to_datatree(group, chunks=None):
    mapping = {"/": to_dataset(group, chunks=chunks)} | {path: to_dataset(subgroup, chunks=chunks) for path, subgroup in group.subtree}
    return xr.DataTree.from_dict(mapping)
"""
DECODE_COORDS_SPEC = """
def decode_coords(ds):
    coords = ds.attrs.pop("coordinates", [])
    return ds.set_coords(coords)
"""


def _spec(chk, rule, fi, spec, good, bad, key):
    from ..symexpr import Undecidable, compare_paths, show_paths, summarize, summarize_source
    where = f"{fi.module.relpath}:{fi.qualname}"
    try:
        _, got = summarize(fi.node)
        _, want = summarize_source(spec)
    except Undecidable as e:
        raise AnalysisError(f"{where} is outside the decidable fragment: {e}")
    v = compare_paths(got, want)
    if v == "incomparable":
        raise AnalysisError(f"{where}: normal form {show_paths(got)[:200]} differs in shape from its specification; equivalence not decided")
    chk.require(v == "equal", rule, where, good, f"{bad}: {show_paths(got)[:200]}", key=key)


def tree_conversion_eval(chk, repo):
    """C13-A10: xarray.to_datatree evaluated on a model hierarchy (root with attrs, /summary, /imagery, /imagery/HH and /imagery/HV with
    per-line variables, a pixel variable and the 'coordinates' bookkeeping attribute; xarray itself replaced by recording
    stubs): one dataset per group under its own path, in tree order, holding exactly that group's variables and attributes,
    with the recorded line variables promoted to coordinates and the bookkeeping attribute removed"""
    from collections import OrderedDict
    from ..shapes import Const, DictS, Fn, Interp, ListLit, Obj, ShapeError, TupS, _Raise
    xm = repo.module("ceos_alos2.xarray")
    hm = repo.module("ceos_alos2.hierarchy")
    where = f"{xm.relpath}:to_datatree"
    gcls = repo.resolve_module_name(hm, "Group")
    if gcls.kind != "class":
        raise AnalysisError("anchor vanished: hierarchy.Group")
    I = Interp(repo)
    sc = I.module_scope(xm)

    def V(name, kind="f"):
        return Obj("Variable", OrderedDict(dims=ListLit([Const("rows")]), data=ListLit([Const(name)]), attrs=DictS({"of": Const(name)}), kind=Const(kind)))

    def G(path, data, attrs):
        return Obj("Group", OrderedDict(path=Const(path), url=Const("u"), data=DictS(data), attrs=DictS(attrs)), klass=(gcls.mod, gcls.node))
    # `att`: a per-line variable holding python objects (the nested structs of level 1.1 line records): it is named as a coordinate like the others
    img = lambda p: G(f"/imagery/{p}", OrderedDict([("time", V(f"{p}.time", "M")), ("lat", V(f"{p}.lat")), ("att", V(f"{p}.att", "O")), ("data", V(f"{p}.data", "u"))]),
                      OrderedDict([("coordinates", ListLit([Const("time"), Const("lat"), Const("att")])), ("pol", Const(p))]))
    root = G("/", OrderedDict([("summary", G("/summary", OrderedDict([("info", G("/summary/info", {}, {"k": Const(1)}))]), {"s": Const("S")})), ("top", V("root.top")),
                               ("imagery", G("/imagery", OrderedDict([("HH", img("HH")), ("HV", img("HV"))]), {}))]), {"vol": Const("V")})
    made = []

    def dataset(I_, a, kw):
        variables = a[0] if a else kw.get("data_vars", DictS())
        attrs = kw.get("attrs", a[2] if len(a) > 2 else DictS())
        if isinstance(attrs, DictS):
            attrs = attrs.copy()
        ds = Obj("Dataset", OrderedDict(variables=variables, attrs=attrs, coords=ListLit([]), dims=ListLit([Const("rows")])))
        ds.fields["pipe"] = Fn("py", impl=lambda I2, a2, k2: I2.call(a2[0], [ds] + list(a2[1:]), k2), name="pipe")

        def set_coords(I2, a2, k2):
            names = a2[0] if a2 else k2.get("names", ListLit([]))
            ds.fields["coords"] = names
            return ds
        ds.fields["set_coords"] = Fn("py", impl=set_coords, name="set_coords")
        ds.fields["chunk"] = Fn("py", impl=lambda I2, a2, k2: ds, name="chunk")

        def ds_getitem(I2, a2, k2):
            k = a2[0]
            if isinstance(k, Const) and isinstance(variables, DictS) and k.v in variables.items:
                return variables.items[k.v]
            raise _Raise(f"KeyError {k!r:.40}", ["KeyError", "LookupError", "Exception", "BaseException", "object"])
        ds.fields["__getitem__"] = Fn("py", impl=ds_getitem, name="__getitem__")
        ds.fields["data_vars"] = variables
        ds.fields["variables"] = variables
        made.append(ds)
        return ds
    result = {}

    def from_dict(I_, a, kw):
        result["mapping"] = a[0] if a else None
        return Obj("DataTree", OrderedDict())
    sc.vars["xr"] = Obj("xarray", OrderedDict(Dataset=Fn("py", impl=dataset, name="xr.Dataset"), DataTree=Obj("DataTreeClass", OrderedDict(from_dict=Fn("py", impl=from_dict, name="from_dict")))))
    def to_var(I_, a, k):
        kind = a[0].fields.get("kind", Const("f")) if isinstance(a[0], Obj) else Const("f")
        return Obj("xrVariable", OrderedDict(src=a[0], dtype=Obj("dtype", OrderedDict(kind=kind)), dims=a[0].fields.get("dims") if isinstance(a[0], Obj) else ListLit([])))
    sc.vars["to_variable"] = Fn("py", impl=to_var, name="to_variable")
    try:
        I.call(I.lookup("to_datatree", sc), [root], {})
    except (ShapeError, _Raise, RecursionError) as e:
        raise AnalysisError(f"{where}: cannot be evaluated on a model hierarchy: {str(e)[:140]}")
    m = result.get("mapping")
    if not isinstance(m, DictS):
        raise AnalysisError(f"{where}: DataTree.from_dict does not receive a mapping that evaluates to known keys ({m!r:.80})")
    want_paths = ["/", "/summary", "/summary/info", "/imagery", "/imagery/HH", "/imagery/HV"]
    chk.require(list(m.items) == want_paths, "C13-A10", where, f"one dataset per group, under its own path, in tree order: {want_paths}",
                f"DataTree.from_dict receives the paths {list(m.items)} for the groups {want_paths}: groups are dropped, duplicated or renamed", key="datatree:paths")
    expect = {"/": (["top"], {"vol": "V"}, []), "/summary": ([], {"s": "S"}, []), "/summary/info": ([], {"k": 1}, []), "/imagery": ([], {}, []),
              "/imagery/HH": (["time", "lat", "att", "data"], {"pol": "HH"}, ["time", "lat", "att"]), "/imagery/HV": (["time", "lat", "att", "data"], {"pol": "HV"}, ["time", "lat", "att"])}
    for path, ds in m.items.items():
        if path not in expect or not (isinstance(ds, Obj) and ds.cls == "Dataset"):
            continue
        names = list(ds.fields["variables"].items) if isinstance(ds.fields.get("variables"), DictS) else None
        attrs = {k: (v.v if isinstance(v, Const) else repr(v)) for k, v in ds.fields["attrs"].items.items()} if isinstance(ds.fields.get("attrs"), DictS) else None
        coords = [c.v for c in ds.fields["coords"].elts if isinstance(c, Const)] if isinstance(ds.fields.get("coords"), (ListLit, TupS)) else None
        srcs = [v.fields["src"].fields["attrs"].items["of"].v.split(".")[0] for v in ds.fields["variables"].items.values()] if names else []
        own = path.rsplit("/", 1)[-1] or "root"
        wn, wa, wc = expect[path]
        ok = names == wn and attrs == wa and coords == wc and all(s_ == own for s_ in srcs)
        chk.require(ok, "C13-A10", where, f"{path}: variables {wn}, attrs {wa}, coordinates {wc}",
                    f"dataset of {path}: variables {names} (from {sorted(set(srcs))}), attrs {attrs}, coordinates {coords}; the group has variables {wn}, attrs {wa} and records the coordinates {wc}",
                    key=f"datatree:{'root' if path == '/' else path.strip('/').split('/')[0]}:content")


def a9(chk, repo):
    md = repo.module("ceos_alos2.sar_image.metadata")
    tm = md.func("transform_metadata")
    value = None
    for n in tm.own_nodes():
        if isinstance(n, ast.Dict):
            for k, v in zip(n.keys, n.values):
                if k is not None and const_str(k) == "coordinates":
                    value = v
        if isinstance(n, ast.Assign) and isinstance(n.targets[0], ast.Subscript) and const_str(n.targets[0].slice) == "coordinates":
            value = n.value
    if value is None:
        raise AnalysisError(f"{md.relpath}:transform_metadata: the 'coordinates' bookkeeping attribute is not set here any more")
    vt = norm(Flow(tm).expand(value))
    good = vt in ("list(group.variables)", "list(group.variables.keys())", "[name for name in group.variables]", "list(transform_line_metadata(metadata).variables)")
    bad_const = isinstance(value, (ast.List, ast.Tuple, ast.Constant))
    if not good and not bad_const:
        raise AnalysisError(f"{md.relpath}:transform_metadata: coordinates = {vt[:80]}: not decided")
    chk.require(good, "C13-A9", f"{md.relpath}:transform_metadata", "coordinates = names of the line variables, recorded before the pixel variable exists",
                f"coordinates = {vt[:60]}: the per-line variables are no longer promoted to coordinates", key="coords:recorded")
    si = repo.module("ceos_alos2.sar_image").func("open_image")
    t_line = [n.lineno for n in si.own_nodes() if isinstance(n, ast.Call) and any(x.key.endswith(".metadata:transform_metadata") for x in resolve_callees(repo, si, n.func))]
    d_line = [n.lineno for n in si.own_nodes() if isinstance(n, ast.Assign) and isinstance(n.targets[0], ast.Subscript) and const_str(n.targets[0].slice) == "data"]
    if not t_line or not d_line:
        raise AnalysisError("ceos_alos2/sar_image/__init__.py:open_image: transform_metadata call / `group['data'] = ...` not found")
    chk.require(t_line[0] < d_line[0], "C13-A9", "ceos_alos2/sar_image/__init__.py:open_image", "`data` is added after the coordinates were recorded",
                "`data` is added before the coordinates are recorded: the pixel variable becomes a coordinate", key="coords:data-after")
    xm = repo.module("ceos_alos2.xarray")
    _spec(chk, "C13-A9", xm.func("decode_coords"), DECODE_COORDS_SPEC, "the bookkeeping attribute is popped and applied with set_coords",
          "decode_coords no longer pops 'coordinates' and promotes those variables", "coords:decode")
    td = xm.func("to_dataset")
    from ..callgraph import CallGraph
    g = CallGraph(repo)
    if f"{xm.name}:decode_coords" not in g.reachable([td.key]):
        # whether the datasets of the tree have their coordinates promoted is decided by evaluation (C13-A10)
        raise AnalysisError(f"{xm.relpath}:to_dataset: decode_coords is not reachable from to_dataset; not decided by the form rule")
    chk.ok("C13-A9", f"{xm.relpath}:to_dataset", "every dataset goes through decode_coords")
    comps = [n for n in td.own_nodes() if isinstance(n, ast.DictComp) and "variables" in norm(n.generators[0].iter)]
    if not comps:
        raise AnalysisError(f"{xm.relpath}:to_dataset: variables are not converted by a dict comprehension over group.variables")
    chk.require(not comps[0].generators[0].ifs, "C13-A9", f"{xm.relpath}:to_dataset", "every variable of the group is converted",
                f"to_dataset filters variables ({norm(comps[0].generators[0].ifs[0]) if comps[0].generators[0].ifs else ''})", key="dataset:all-variables")
    _spec(chk, "C13-A9", xm.func("to_datatree"), TO_DATATREE_SPEC, "the tree maps '/' and every (path, subgroup) of group.subtree",
          "to_datatree no longer maps '/' plus every subtree entry", "datatree:mapping")
    hm = repo.module("ceos_alos2.hierarchy")
    st = hm.func("Group.subtree")
    txt = " ".join(norm(s) for s in st.node.body)
    ok = "yield (self.path, self.decouple())" in txt and "yield from item.subtree" in txt and "isinstance(item, Group)" in txt
    if not ok:
        raise AnalysisError(f"{hm.relpath}:Group.subtree is {txt[:120]}: not the recognised walk (yield self, recurse into child groups); not decided")
    chk.ok("C13-A9", f"{hm.relpath}:Group.subtree", "subtree yields the node itself and recurses into every child group")
    ai = hm.func("Group._adjust_item")
    txt = " ".join(norm(s) for s in ai.node.body)
    if "posixpath.join(self.path, name)" not in txt:
        raise AnalysisError(f"{hm.relpath}:Group._adjust_item: child path is not posixpath.join(self.path, name); not decided")
    chk.ok("C13-A9", f"{hm.relpath}:Group._adjust_item", "child path = parent path / child name")
