"""C13 -- tree assembly"""
from __future__ import annotations

import ast

from ..core import AnalysisError, const_str, norm, short
from ..dataflow import Flow, calls_in
from ..interproc import resolve_callees
from ..records import Layouts, struct_field_names

LEVEL = "other"


def run(chk, repo):
    chk.explanation = (
        "Wiring rules over def-use chains: file roles are taken from the summary positionally (first, second, *middle, "
        "last) and returned under matching keys; io.open feeds each role to its opener in summary order without "
        "filtering; the root has exactly the children summary/metadata/imagery fed from the matching values; image "
        "groups are keyed by their own name; root attrs are the volume attrs plus the reference link; one `path` names "
        "the parsed file, the Array url and the group name; group names use polarisation and scan number; every leader "
        "record is either ignored or transformed; coordinates are recorded before the pixel variable is added and "
        "promoted afterwards. Does NOT decide uniqueness of names for arbitrary file names nor DataTree's own behaviour."
    )
    chk.trusted = ["xarray.DataTree.from_dict builds one node per mapping key"]
    for rid, text, m in (
        ("C13-A1", "categorize_filenames: first, second, *middle, last -> volume_directory, sar_leader, sar_imagery, sar_trailer", 2),
        ("C13-A2", "io.open feeds each file role to the matching opener, all images, in order", 4),
        ("C13-A3", "root children are exactly summary / metadata / imagery from the matching values", 2),
        ("C13-A4", "imagery is keyed by group.name over all image groups", 1),
        ("C13-A5", "root attrs = volume directory attrs | reference document", 1),
        ("C13-A6", "one `path` names the parsed file, the Array url and the group name", 3),
        ("C13-A7", "group name joins polarisation and scan number", 2),
        ("C13-A8", "leader records: transformers + ignored == fields of sar_leader_record", 2),
        ("C13-A9", "coordinates recorded before data is added; popped and promoted; tree maps '/' and every subtree entry", 5),
    ):
        chk.rule(rid, text, m)
    chk.attempt(a1, chk, repo)
    chk.attempt(a2_a5, chk, repo)
    chk.attempt(a6_a7, chk, repo)
    chk.attempt(groupname_injective, chk, repo, "C13-A7")
    from ..openpath import OpenPath
    from .c07 import naming
    chk.rule("C07-N", "each image group is cached under its own file name (<image file name>.index), so no group is served another file's cache", 3)
    chk.attempt(naming, chk, OpenPath(repo))
    chk.attempt(a8, chk, repo)
    chk.attempt(a9, chk, repo)
    chk.count("functions", 12)


def a1(chk, repo):
    sm = repo.module("ceos_alos2.summary")
    cf = sm.func("categorize_filenames")
    where = f"{sm.relpath}:categorize_filenames"
    unpack = None
    for n in cf.own_nodes():
        if isinstance(n, ast.Assign) and isinstance(n.targets[0], ast.Tuple) and any(isinstance(e, ast.Starred) for e in n.targets[0].elts):
            unpack = n
    if unpack is None:
        chk.fail("C13-A1", where, "file roles are no longer taken by `first, second, *middle, last = filenames`", key="categorize:unpack")
        return
    elts = unpack.targets[0].elts
    shape = [("*" if isinstance(e, ast.Starred) else "") for e in elts]
    names = [norm(e.value if isinstance(e, ast.Starred) else e) for e in elts]
    chk.require(shape == ["", "", "*", ""], "C13-A1", where, f"positional unpacking {names[0]}, {names[1]}, *{names[2]}, {names[3]}",
                f"positional unpacking is {[s + n for s, n in zip(shape, names)]}: roles shift (first = volume directory, second = leader, last = trailer)", key="categorize:positions")
    src = Flow(cf).expand(unpack.value)
    chk.require("values()" in norm(src), "C13-A1", where, "file names are the summary values in file order", f"file names come from {short(src, 50)}", key="categorize:values")
    ret = [n for n in cf.own_nodes() if isinstance(n, ast.Return)]
    want = dict(zip(["volume_directory", "sar_leader", "sar_imagery", "sar_trailer"], names))
    got = {}
    if ret and isinstance(ret[0].value, ast.Dict):
        got = {const_str(k): norm(v) for k, v in zip(ret[0].value.keys, ret[0].value.values)}
    chk.require(got == want, "C13-A1", where, f"roles returned 1:1: {want}", f"roles returned as {got}, expected {want}: leader/volume/trailer are swapped or dropped", key="categorize:mapping",
                sample={"mapping": got})


def a2_a5(chk, repo):
    io = repo.module("ceos_alos2.io")
    op = io.func("open")
    where = f"{io.relpath}:open"
    flow = Flow(op)
    # filenames source
    fn = flow.single_def("filenames")
    ok = fn is not None and norm(fn).replace('"', "'") == "summary['product_information']['data_files'].attrs"
    chk.require(ok, "C13-A2", where, "file names come from summary/product_information/data_files", f"file names come from {short(fn, 60) if fn is not None else None}", key="open:filenames")
    s = flow.single_def("summary")
    chk.require(s is not None and norm(s).replace('"', "'") == "open_summary(mapper, 'summary.txt')", "C13-A2", where, "summary = open_summary(mapper, 'summary.txt')",
                f"summary = {short(s, 50) if s is not None else None}", key="open:summary")
    for var, opener, role in (("volume_directory", "open_volume_directory", "volume_directory"), ("sar_leader", "open_sar_leader", "sar_leader")):
        d = flow.single_def(var)
        ok = isinstance(d, ast.Call) and norm(d.func) == opener and len(d.args) == 2 and norm(d.args[0]) == "mapper" and norm(d.args[1]).replace('"', "'") == f"filenames['{role}']"
        chk.require(ok, "C13-A2", where, f"{var} = {opener}(mapper, filenames[{role!r}])", f"{var} = {short(d, 70) if d is not None else None}: wrong file role for {opener}", key=f"open:{var}")
    ig = flow.single_def("imagery_groups")
    verdict, why = ordered_map_over(repo, op, ig, "filenames['sar_imagery']", "open_image")
    if verdict is None:
        raise AnalysisError(f"{where}: image groups are built by {short(ig, 80) if ig is not None else None}: {why}; order/completeness not decided")
    chk.require(verdict, "C13-A2", where, f"every entry of filenames['sar_imagery'] is opened by open_image, in summary order ({why})",
                f"image groups are {short(ig, 80) if ig is not None else None}: {why}", key="open:imagery-map", sample={"expr": short(ig, 80) if ig is not None else None})
    # imagery group
    im = flow.single_def("imagery")
    data = None
    if isinstance(im, ast.Call):
        for k in im.keywords:
            if k.arg == "data":
                data = k.value
    ok = isinstance(data, ast.DictComp) and len(data.generators) == 1 and not data.generators[0].ifs and norm(data.generators[0].iter) == "imagery_groups" \
        and norm(data.key) == f"{norm(data.generators[0].target)}.name" and norm(data.value) == norm(data.generators[0].target)
    chk.require(ok, "C13-A4", where, "imagery = {group.name: group for every image group}", f"imagery data is {short(data, 70) if data is not None else None}", key="open:imagery-dict")
    sg = flow.single_def("subgroups")
    got = {const_str(k): norm(v) for k, v in zip(sg.keys, sg.values)} if isinstance(sg, ast.Dict) else None
    want = {"summary": "summary", "metadata": "sar_leader", "imagery": "imagery"}
    chk.require(got == want, "C13-A3", where, f"root children {want}", f"root children are {got}, expected {want}", key="open:children", sample={"children": got})
    ret = [n for n in op.own_nodes() if isinstance(n, ast.Return)]
    rk = {}
    if ret and isinstance(ret[0].value, ast.Call):
        rk = {k.arg: k.value for k in ret[0].value.keywords}
    ok = rk and norm(rk.get("data")) == "subgroups" and norm(rk.get("path")).strip("'\"") == "/"
    chk.require(ok, "C13-A3", where, "the root Group is built from exactly those children at path '/'", f"root is {short(ret[0].value, 80) if ret else None}", key="open:root")
    attrs = rk.get("attrs")
    a = attrs
    if isinstance(a, ast.Name):
        a = flow.single_def(a.id)
    right = a.right if isinstance(a, ast.BinOp) else None
    if isinstance(right, ast.Name):
        right = flow.single_def(right.id)
    ok = isinstance(a, ast.BinOp) and isinstance(a.op, ast.BitOr) and norm(a.left) == "volume_directory.attrs" and isinstance(right, ast.Dict) and [const_str(k) for k in right.keys] == ["reference_document"]
    chk.require(ok, "C13-A5", where, "root attrs = volume_directory.attrs | {'reference_document': ...}", f"root attrs are {short(a, 80) if a is not None else None}", key="open:root-attrs")


def ordered_map_over(repo, fi, expr, source_txt, fname, depth=0):
    """is expr `f` applied to every element of the source list, in order?  -> (True|False|None, why)"""
    from ..interproc import bind_args, single_return
    if expr is None or depth > 4:
        return None, "no definition"
    flow = Flow(fi)
    txt = norm(expr).replace('"', "'")
    if isinstance(expr, ast.Call) and isinstance(expr.func, ast.Name) and expr.func.id in ("list", "tuple") and len(expr.args) == 1:
        return ordered_map_over(repo, fi, expr.args[0], source_txt, fname, depth + 1)
    if isinstance(expr, ast.Call) and isinstance(expr.func, ast.Name) and expr.func.id == "map" and len(expr.args) == 2:
        src = norm(flow.expand(expr.args[1], depth=2)).replace('"', "'")
        if src != source_txt and norm(expr.args[1]).replace('"', "'") != source_txt:
            if "[" in src.replace(source_txt, "") or "sorted(" in src or "reversed(" in src or "set(" in src:
                return False, f"maps over {src}: images are dropped or reordered"
            return None, f"maps over {src}"
        return (fname in norm(flow.expand(expr.args[0], depth=2))), f"list(map({fname}, ...)) over {source_txt}"
    if isinstance(expr, (ast.ListComp, ast.GeneratorExp)) and len(expr.generators) == 1:
        g = expr.generators[0]
        src = norm(g.iter).replace('"', "'")
        if g.ifs:
            return False, f"comprehension filters the image files ({norm(g.ifs[0])})"
        if src != source_txt:
            return (False, f"iterates {src}: images are dropped or reordered") if source_txt in src else (None, f"iterates {src}")
        return (fname in norm(flow.expand(expr.elt, depth=2))), f"[{fname}(x) for x in {source_txt}]"
    if isinstance(expr, ast.Call):
        cs = resolve_callees(repo, fi, expr.func)
        if len(cs) == 1 and cs[0].func is not None:
            callee = cs[0].func
            body_txt = " ".join(norm(st) for st in callee.node.body)
            if "as_completed" in body_txt:
                return False, f"{callee.qualname} collects results with as_completed: groups appear in completion order, not in summary order"
            if "set(" in body_txt or "sorted(" in body_txt:
                return None, f"{callee.qualname} re-orders"
            ret = single_return(callee)
            bound, _ = bind_args(cs[0], expr)
            srcs = [p for p, v in bound.items() if norm(v).replace('"', "'") == source_txt]
            fns = [p for p, v in bound.items() if fname in norm(flow.expand(v, depth=2))]
            if ret is not None and len(srcs) == 1 and len(fns) == 1:
                return ordered_map_over(repo, callee, ret, srcs[0], fns[0], depth + 1)
            return None, f"{callee.qualname} is not a single-return map"
    return None, f"unrecognised form {txt[:60]}"


def a6_a7(chk, repo):
    si = repo.module("ceos_alos2.sar_image")
    oi = si.func("open_image")
    where = f"{si.relpath}:open_image"
    path = oi.positional_params[1]
    opened = [c for c in calls_in(oi) if isinstance(c.func, ast.Attribute) and c.func.attr == "open" and norm(c.func.value) == "fs"]
    chk.require(len(opened) == 1 and norm(opened[0].args[0]) == path, "C13-A6", where, f"the parsed file is fs.open({path})", f"the parsed file is {short(opened[0], 40) if opened else None}", key="open_image:parsed-file")
    ctor = [c for c in calls_in(oi) if norm(c.func) == "Array"]
    url = {k.arg: norm(k.value) for k in ctor[0].keywords}.get("url") if ctor else None
    chk.require(url == path, "C13-A6", where, f"the Array reads url={path}", f"the Array reads url={url}: pixels come from another file than the line metadata", key="open_image:array-url")
    gp = None
    for n in oi.own_nodes():
        if isinstance(n, ast.Assign) and norm(n.targets[0]) == "group.path":
            gp = n.value
    ok = isinstance(gp, ast.Call) and norm(gp.func) == "filename_to_groupname" and len(gp.args) == 1 and norm(gp.args[0]) == path
    chk.require(ok, "C13-A6", where, f"group name = filename_to_groupname({path})", f"group.path = {short(gp, 60) if gp is not None else None}", key="open_image:group-name")
    # the cached path returns the group read for the same path


def groupname_injective(chk, repo, rule):
    """filename_to_groupname evaluated (constant propagation) on every (polarisation, scan) combination the file-name
    grammar admits: 5 x 11 cases, exhaustive; names must be pairwise distinct and carry both components"""
    from ..shapes import Const, DictS, Fn, Interp, ShapeError, _Raise
    si = repo.module("ceos_alos2.sar_image")
    fg = si.func("filename_to_groupname")
    where = f"{si.relpath}:filename_to_groupname"
    names = {}
    for pol in ("HH", "HV", "VH", "VV", None):
        for scan in [None] + [str(d) for d in range(10)]:
            I = Interp(repo)
            info = DictS({"filetype": Const("IMG"), "polarization": Const(pol), "mission_name": Const("ALOS2"), "orbit_accumulation": Const("01234"),
                          "scene_frame": Const("5678"), "observation_mode": Const("ScanSAR nominal 14MHz mode dual polarization"), "processing_level": Const("level 1.1")})
            if scan is not None:
                info.items["processing_method"] = Const("full aperture_method")
                info.items["scan_number"] = Const(scan)
            I.module_scope(si).vars["decode_filename"] = Fn("const", value=info, name="decode_filename")
            f = I.resolve_global(si, "filename_to_groupname")
            try:
                out = I.call(f, [Const("IMG-xx")], {})
            except (_Raise, ShapeError) as e:
                raise AnalysisError(f"{where}: cannot evaluate the group name for polarisation={pol}, scan={scan}: {e}")
            if not isinstance(out, Const) or not isinstance(out.v, str):
                raise AnalysisError(f"{where}: group name for polarisation={pol}, scan={scan} is not a constant string: {out!r}")
            names[(pol, scan)] = out.v
    clashes = {}
    for k, v in names.items():
        clashes.setdefault(v, []).append(k)
    dup = {v: ks for v, ks in clashes.items() if len(ks) > 1}
    chk.require(not dup, rule, where, f"{len(names)} (polarisation, scan) combinations give {len(clashes)} distinct group names (e.g. {names[('HH', '3')]!r}, {names[('HV', None)]!r})",
                f"different images get the same group name: {dict(list(dup.items())[:3])} - the later one silently replaces the earlier one under /imagery", key="groupname:injective",
                sample={"HH/3": names[("HH", "3")], "HH/0": names[("HH", "0")], "HH/-": names[("HH", None)]})
    fmt_ok = all((pol or "") in v and (f"scan{scan}" in v if scan is not None else "scan" not in v) for (pol, scan), v in names.items())
    chk.require(fmt_ok, rule, where, "names are <polarisation>[_scan<n>]", f"names do not follow <polarisation>[_scan<n>]: {dict(list(names.items())[:6])}", key="groupname:format")


def a8(chk, repo):
    L = Layouts(repo)
    con = L.con("leader")
    fields = [n for n in struct_field_names(con) if n]
    lm = repo.module("ceos_alos2.sar_leader.metadata")
    tm = lm.func("transform_metadata")
    ignored = transformers = None
    for n in tm.own_nodes():
        if isinstance(n, ast.Assign) and norm(n.targets[0]) == "ignored" and isinstance(n.value, ast.List):
            ignored = [const_str(e) for e in n.value.elts]
        if isinstance(n, ast.Assign) and norm(n.targets[0]) == "transformers" and isinstance(n.value, ast.Dict):
            transformers = [const_str(k) for k in n.value.keys]
    if ignored is None or transformers is None:
        raise AnalysisError("anchor vanished: ignored/transformers of sar_leader.metadata.transform_metadata")
    covered = set(ignored) | set(transformers)
    chk.require(covered == set(fields), "C13-A8", f"{lm.relpath}:transform_metadata", f"{len(transformers)} transformed + {len(ignored)} ignored == {len(fields)} leader records",
                f"uncovered records {sorted(set(fields) - covered)} (pass through untransformed as raw dicts) / dangling table keys {sorted(covered - set(fields))}", key="leader:coverage",
                sample={"transformed": transformers, "ignored": ignored})
    chk.require(not (set(ignored) & set(transformers)), "C13-A8", f"{lm.relpath}:transform_metadata", "no record is both ignored and transformed", f"both ignored and transformed: {sorted(set(ignored) & set(transformers))}", key="leader:overlap")


def a9(chk, repo):
    md = repo.module("ceos_alos2.sar_image.metadata")
    tm = md.func("transform_metadata")
    ok = False
    for n in tm.own_nodes():
        if isinstance(n, ast.AugAssign) and norm(n.target) == "group.attrs" and isinstance(n.op, ast.BitOr):
            ok = "'coordinates': list(group.variables)" in norm(n.value).replace('"', "'")
    chk.require(ok, "C13-A9", f"{md.relpath}:transform_metadata", "coordinates = names of the line variables, recorded before the pixel variable exists",
                "the coordinates bookkeeping attribute is no longer list(group.variables) at metadata time", key="coords:recorded")
    si = repo.module("ceos_alos2.sar_image").func("open_image")
    t_line = [n.lineno for n in si.own_nodes() if isinstance(n, ast.Call) and norm(n.func) == "transform_metadata"]
    d_line = [n.lineno for n in si.own_nodes() if isinstance(n, ast.Assign) and norm(n.targets[0]).replace('"', "'") == "group['data']"]
    chk.require(bool(t_line) and bool(d_line) and t_line[0] < d_line[0], "C13-A9", "ceos_alos2/sar_image/__init__.py:open_image", "`data` is added after the coordinates were recorded",
                "`data` is added before the coordinates are recorded: the pixel variable becomes a coordinate", key="coords:data-after")
    xm = repo.module("ceos_alos2.xarray")
    dc = xm.func("decode_coords")
    txt = " ".join(norm(s) for s in dc.node.body).replace('"', "'")
    ok = "ds.attrs.pop('coordinates', [])" in txt and "set_coords(" in txt
    chk.require(ok, "C13-A9", f"{xm.relpath}:decode_coords", "the bookkeeping attribute is popped and applied with set_coords", f"decode_coords is {txt[:100]}", key="coords:decode")
    td = xm.func("to_dataset")
    ok = any(isinstance(c.func, ast.Attribute) and c.func.attr == "pipe" and c.args and norm(c.args[0]) == "decode_coords" for c in calls_in(td)) or any(norm(c.func) == "decode_coords" for c in calls_in(td))
    chk.require(ok, "C13-A9", f"{xm.relpath}:to_dataset", "every dataset goes through decode_coords", "to_dataset no longer applies decode_coords", key="coords:applied")
    ok = any(isinstance(n, ast.DictComp) and "group.variables.items()" in norm(n.generators[0].iter) and not n.generators[0].ifs for n in td.own_nodes())
    chk.require(ok, "C13-A9", f"{xm.relpath}:to_dataset", "every variable of the group is converted", "to_dataset filters or drops variables", key="dataset:all-variables")
    tt = xm.func("to_datatree")
    txt = " ".join(norm(s) for s in tt.node.body).replace('"', "'")
    ok = "{'/': to_dataset(group, chunks=chunks)}" in txt and "for path, subgroup in group.subtree" in txt and "from_dict" in txt
    chk.require(ok, "C13-A9", f"{xm.relpath}:to_datatree", "the tree maps '/' and every (path, subgroup) of group.subtree", f"to_datatree is {txt[:140]}", key="datatree:mapping")
    hm = repo.module("ceos_alos2.hierarchy")
    st = hm.func("Group.subtree")
    txt = " ".join(norm(s) for s in st.node.body)
    ok = "yield (self.path, self.decouple())" in txt and "yield from item.subtree" in txt and "isinstance(item, Group)" in txt
    chk.require(ok, "C13-A9", f"{hm.relpath}:Group.subtree", "subtree yields the node itself and recurses into every child group", f"Group.subtree is {txt[:140]}", key="subtree:walk")
    ai = hm.func("Group._adjust_item")
    txt = " ".join(norm(s) for s in ai.node.body)
    chk.require("posixpath.join(self.path, name)" in txt, "C13-A9", f"{hm.relpath}:Group._adjust_item", "child path = parent path / child name", "child path is no longer parent/name", key="adjust_item:path")
